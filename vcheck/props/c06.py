"""C06 — the lifecycle only ever advances in the legal order.

Tie: (a) translator: phases + context-method skeletons are regenerated from engine.py/lifecycle.py and
the theorems of Props/C06.lean are re-proved about them; (b) correspondence: random sequences of
context calls and direct state requests on a real SimulationContext / InteractiveContext (every call form and
entry point: run, run(backup…), run_simulation, step(x), take_steps, run_until, run_for, requests made from
INSIDE a listener), and random lifecycle definitions on a LifeCycleManager (bare, or the one inside a real
context; phases added at any moment; every container / name kind), against Driver/C06.lean
(outcome class, state after, listener log, clock).

Case formats (all JSON):
  {"kind": "ctx", "start", "stop", "step", "ops": [...], "interactive"?, "auto_setup"?, "pop"?, "prior"?: {ctx case}}
     ops: call:<m> | callp:report | calld:report | run | runb | runsim | set:<s> | setk:<s> | fail:<event> |
          nest:<event>:set:<s> | nest:<event>:call:<m> | xstep:<n> | xstepk:<n> | take:<n> | takek:<n> | until:<t> | for:<d>
  {"kind": "lc", "phases": [[name, states, loop], ...], "reqs": [...]}                      (first-round format)
  {"kind": "lc", "base": "bare"|"engine", "lcops": [["phase", name, states, loop, form, container] | ["set", name, form]],
   "prior"?: {lc case}}
"""
from __future__ import annotations

import random
import re
import shutil
import tempfile

from .. import impl
from ..runner import CaseTimeout, Prop

ENGINE_STATES = ["initialization", "setup", "post_setup", "population_creation", "time_step__prepare", "time_step",
                 "time_step__cleanup", "collect_metrics", "simulation_end", "report"]
ENGINE_PHASES = [["setup", ["setup", "post_setup", "population_creation"], False],
                 ["main_loop", ["time_step__prepare", "time_step", "time_step__cleanup", "collect_metrics"], True],
                 ["simulation_end", ["simulation_end", "report"], False]]
STEP_EVENTS = ENGINE_STATES[4:8]
METHODS = ["setup", "initialize_simulants", "step", "finalize", "report"]
LEGAL_NEXT = {  # the order the property states (oracle, independent of the model)
    "initialization": ["setup"], "setup": ["post_setup"], "post_setup": ["population_creation"],
    "population_creation": ["time_step__prepare"], "time_step__prepare": ["time_step"],
    "time_step": ["time_step__cleanup"], "time_step__cleanup": ["collect_metrics"],
    "collect_metrics": ["time_step__prepare", "simulation_end"], "simulation_end": ["report"], "report": [],
}
FIRST_SET = {"setup": "setup", "initialize_simulants": "population_creation", "step": "time_step__prepare",
             "finalize": "simulation_end", "report": "report"}
REST = {"setup": "post_setup", "initialize_simulants": "population_creation", "step": "collect_metrics",
        "finalize": "simulation_end", "report": "report"}
EVENTS_OF = {"setup": ["setup_components", "emit:post_setup"], "initialize_simulants": ["create"],
             "step": ["emit:" + e for e in STEP_EVENTS], "finalize": ["emit:simulation_end"], "report": ["emit:report"]}


def _reach():
    out = {}
    for s in LEGAL_NEXT:
        seen, todo = {s}, [s]
        while todo:
            for n in LEGAL_NEXT[todo.pop()]:
                if n not in seen:
                    seen.add(n)
                    todo.append(n)
        out[s] = seen
    return out


REACH = _reach()      # reflexive-transitive closure of the legal order
STEPPING = ("run", "runb", "xstep", "xstepk", "take", "takek", "until", "for")
SAFE = re.compile(r"^[A-Za-z0-9_.:]+$")


def _kind(op: str) -> str:
    return op.split(":")[0]


def _method_of(op: str):
    """the context method behind a call op (None for everything else)"""
    k = _kind(op)
    if k in ("call", "callp", "calld"):
        return op.split(":", 1)[1]
    return None


def _mk_context(cfg, log, fail, nest, trail):
    impl.load()
    from vivarium import Component
    from vivarium.framework.engine import SimulationContext

    class ListenerFailure(Exception):
        pass

    def maybe_fail(event):
        if fail.get("on") == event:
            fail["on"] = None
            raise ListenerFailure(event)

    class Probe(Component):
        sim = None
        state_of = None      # builder.lifecycle.current_state(): the handle a component gets

        @property
        def name(self):
            return "probe"

        def _at(self, entry, want):
            """log entry for a listener call; the lifecycle state the listener SEES is noted when it is not its own"""
            seen = self.state_of()
            trail.append(seen)
            return entry if seen == want else f"{entry}@{seen}"

        def setup(self, builder):
            self.state_of = builder.lifecycle.current_state()
            entry = self._at("setup_components", "setup")
            maybe_fail("setup_components")
            log.append(entry)
            builder.event.register_listener("report", self._on_report)

        def _ev(self, ev):
            entry = self._at("emit:" + ev, ev)
            maybe_fail(ev)
            log.append(entry)
            if nest.get("ev") == ev:          # a request made from INSIDE the listener; a refusal is swallowed
                req, nest["ev"] = nest["req"], None
                try:
                    _request(self.sim, req, cfg)
                    ok = True
                except CaseTimeout:
                    raise
                except Exception:  # noqa: BLE001
                    ok = False
                log.append(("nested:ok:" if ok else "nested:err:") + self.sim._lifecycle.current_state)

        def _on_report(self, e):
            self._ev("report")

        def on_post_setup(self, e):
            self._ev("post_setup")

        def on_initialize_simulants(self, d):
            entry = self._at("create", "population_creation")
            maybe_fail("create")
            log.append(entry)

        def on_time_step_prepare(self, e):
            self._ev("time_step__prepare")

        def on_time_step(self, e):
            self._ev("time_step")

        def on_time_step_cleanup(self, e):
            self._ev("time_step__cleanup")

        def on_collect_metrics(self, e):
            self._ev("collect_metrics")

        def on_simulation_end(self, e):
            self._ev("simulation_end")

    SimulationContext._clear_context_cache()
    plugins = {"required": {"clock": {"controller": "vivarium.framework.time.SimpleClock",
                                      "builder_interface": "vivarium.framework.time.TimeInterface"}}}
    kw = {}
    cls = SimulationContext
    if cfg.get("interactive"):
        from vivarium.interface.interactive import InteractiveContext
        cls = InteractiveContext
        kw["setup"] = bool(cfg.get("auto_setup"))
    probe = Probe()
    sim = cls.__new__(cls)
    probe.sim = sim      # the constructor of an InteractiveContext may itself run setup(): the probe knows its context before that
    sim.__init__(
        components=[probe],
        configuration={"population": {"population_size": cfg.get("pop", 2)},
                       "time": {"start": cfg["start"], "end": cfg["stop"], "step_size": cfg["step"]}},
        plugin_configuration=plugins, logging_verbosity=0, **kw)
    return sim, probe


def _request(sim, op, cfg, tmp=None):
    """perform one request on the real context (exceptions propagate)"""
    k = _kind(op)
    arg = op.split(":", 1)[1] if ":" in op else None
    inter = bool(cfg.get("interactive"))
    if k == "run":
        sim.run(with_logging=False) if inter else sim.run()
    elif k == "runb":          # the second copy of the loop (backup branch) / the positional form
        if inter:
            sim.run(False)
        else:
            import pathlib
            sim.run(backup_path=pathlib.Path(tmp or tempfile.gettempdir()) / "c06-backup.pkl", backup_freq=1e9)
    elif k == "runsim":
        sim.run_simulation()
    elif k == "call":
        getattr(sim, arg)(**({"print_results": False} if arg == "report" else {}))
    elif k == "callp":
        sim.report(False)
    elif k == "calld":
        sim.report()
    elif k == "set":
        sim._lifecycle.set_state(arg)
    elif k == "setk":
        sim._lifecycle.set_state(state=arg)
    elif k == "xstep":
        sim.step(int(arg))
    elif k == "xstepk":
        sim.step(step_size=int(arg))
    elif k == "take":
        sim.take_steps(int(arg), with_logging=False)
    elif k == "takek":
        sim.take_steps(number_of_steps=int(arg), step_size=None, with_logging=False)
    elif k == "until":
        sim.run_until(int(arg), with_logging=False)
    elif k == "for":
        sim.run_for(duration=int(arg), with_logging=False)
    else:
        raise ValueError("unknown op " + op)


def _run_ctx(cfg, keep):
    log, fail, nest, trail = [], {"on": None}, {"ev": None, "req": None}, []
    tmp = tempfile.mkdtemp(prefix="c06-")
    try:
        sim, probe = _mk_context(cfg, log, fail, nest, trail)
        keep.append(sim)
        out = {"ops": []}

        def snap(outcome, before, tbefore=0):
            clock = sim._clock._clock_time
            try:
                seen = probe.state_of() if probe.state_of is not None else None
            except Exception as e:  # noqa: BLE001
                seen = "raised:" + type(e).__name__
            return [outcome, sim._lifecycle.current_state, None if clock is None else int(clock), log[before:], seen, trail[tbefore:]]

        if cfg.get("auto_setup"):
            out["auto"] = snap("ok", 0)
        for op in cfg["ops"]:
            before, tbefore = len(log), len(trail)
            try:
                if op.startswith("fail:"):
                    fail["on"] = op[5:]        # the probe's listener of that event raises at its next emission
                elif op.startswith("nest:"):
                    _, ev, req = op.split(":", 2)
                    nest["ev"], nest["req"] = ev, req
                else:
                    _request(sim, op, cfg, tmp)
                outcome = "ok"
            except CaseTimeout:
                raise
            except Exception as e:  # noqa: BLE001
                outcome = "err:" + type(e).__name__
            out["ops"].append(snap(outcome, before, tbefore))
        return out
    finally:
        shutil.rmtree(tmp, ignore_errors=True)


# ---------------------------------------------------------------------------------------------- lc helpers
def _lc_ops(case):
    """unified op list of an lc case (either format)"""
    if "lcops" in case:
        return case["lcops"]
    return [["phase", n, ss, l, "pos", "list"] for n, ss, l in case["phases"]] + [["set", r, "pos"] for r in case["reqs"]]


def _container(states, kind):
    if kind == "tuple":
        return tuple(states)
    if kind == "ndarray":
        import numpy as np
        return np.array(states, dtype=object)
    if kind == "index":
        import pandas as pd
        return pd.Index(states, dtype=object)
    return list(states)


def _loopflag(loop, form):
    if form == "int":
        return 1 if loop else 0
    if form == "npbool":
        import numpy as np
        return np.bool_(bool(loop))
    return bool(loop)


def _run_lc(case, keep):
    impl.load()
    from vivarium.framework.lifecycle import LifeCycleManager
    if case.get("base") == "engine":
        from vivarium.framework.engine import SimulationContext
        SimulationContext._clear_context_cache()
        ctx = SimulationContext(components=[], configuration={"population": {"population_size": 1}}, logging_verbosity=0)
        keep.append(ctx)
        m = ctx._plugin_manager.get_plugin("lifecycle")      # the manager as the plugin system hands it out
    else:
        m = LifeCycleManager()
    keep.append(m)
    out = []
    for op in _lc_ops(case):
        try:
            if op[0] == "phase":
                _, name, states, loop, form, cont = op
                ss = _container(states, cont)
                if form == "kw":
                    m.add_phase(phase_name=name, states=ss, loop=_loopflag(loop, "bool"))
                elif form == "default" and not loop:
                    m.add_phase(name, ss)
                elif form in ("int", "npbool"):
                    m.add_phase(name, ss, _loopflag(loop, form))
                elif form == "lifecycle":      # one level down: the LifeCycle object the manager owns
                    m.lifecycle.add_phase(name, ss, bool(loop))
                else:
                    m.add_phase(name, ss, loop=bool(loop))
            else:
                m.set_state(state=op[1]) if op[2] == "kw" else m.set_state(op[1])
            o = "ok"
        except CaseTimeout:
            raise
        except Exception as e:  # noqa: BLE001
            o = "err:" + type(e).__name__
        out.append([o, m.current_state])
    return {"lc": out}


class C06(Prop):
    id = "C06"
    lean_modules = ["VivModel.Props.C06", "VivModel.Props.C06Src"]
    build_targets = ["VivModel.Model.Context", "VivModel.Model.Proto"]
    driver = "C06"
    technique = "Lean 4 proof (induction over request lists and action lists; decide over tables regenerated from engine.py) + differential correspondence with the real SimulationContext / InteractiveContext / LifeCycleManager"
    n_quick = 230
    n_thorough = 3000
    workers = 4
    case_timeout = 30            # a case takes milliseconds; only runaway loops (a `run` that no longer advances) get here
    rule = ("cases = random sequences of context-method calls (every call form and entry point), direct set_state requests and requests "
            "made from inside listeners on a real SimulationContext / InteractiveContext, and random phase definitions (added at any "
            "moment, every container and name kind) + request lists on a LifeCycleManager (bare or inside a context), optionally after "
            "an earlier, differently configured simulation / lifecycle in the same process; distinct by case hash; "
            "non-trivial = at least one accepted and one refused request")

    # ------------------------------------------------------------------ generation
    def boundary(self):
        legal = ["call:setup", "call:initialize_simulants", "call:step", "call:step", "call:finalize", "call:report"]
        base = {"kind": "ctx", "start": 0, "stop": 2, "step": 1}
        out = [dict(base, ops=legal),
               {"kind": "ctx", "start": 0, "stop": 3, "step": 1,
                "ops": ["call:setup", "call:initialize_simulants", "run", "call:finalize", "call:report", "run"]}]
        # every method and every direct request from every resting state
        prefix = []
        for nxt in legal:
            for m in METHODS:
                out.append(dict(base, ops=prefix + ["call:" + m] + legal[len(prefix):]))
            out.append(dict(base, ops=prefix + ["set:" + s for s in ENGINE_STATES if s not in LEGAL_NEXT_AFTER(prefix)] + legal[len(prefix):]))
            # … and every other entry point / call form from the same resting state
            out.append(dict(base, ops=prefix + ["runsim", "runb", "callp:report", "calld:report", "setk:nonexistent"] + legal[len(prefix):]))
            prefix = prefix + [nxt]
        ilegal = ["call:setup", "call:step", "call:step", "call:finalize", "call:report"]
        ibase = dict(base, interactive=True)
        out.append(dict(ibase, ops=ilegal))
        # every method, `run` and every direct request from every resting state of an INTERACTIVE context
        iprefix = []
        for nxt in ilegal:
            for m in METHODS:
                out.append(dict(ibase, ops=iprefix + ["call:" + m] + ilegal[len(iprefix):]))
            out.append(dict(ibase, ops=iprefix + ["set:" + s for s in ENGINE_STATES[:3] + ENGINE_STATES[5:8]] + ["run"] + ilegal[len(iprefix):]))
            # the interactive drives and forms; in a state where stepping is legal they step (the stop time is far enough)
            out.append(dict(ibase, stop=9, ops=iprefix + ["xstep:2", "takek:1", "take:0", "until:0", "for:1", "runsim", "calld:report"]
                            + [o for o in ilegal[len(iprefix):] if o != "call:step"]))
            iprefix = iprefix + [nxt]
        out.append({"kind": "ctx", "start": 0, "stop": 3, "step": 1, "interactive": True,
                    "ops": ["call:step", "call:setup", "call:initialize_simulants", "call:setup", "run", "run", "call:finalize", "call:step", "call:report"]})
        out.append({"kind": "lc", "phases": [["e", [], True], ["a", ["x"], True], ["b", [], False], ["c", ["y", "z"], False]],
                    "reqs": ["x", "x", "y", "z", "x"]})
        for ev in STEP_EVENTS:
            pre = ["call:setup", "call:initialize_simulants", "call:step", "fail:" + ev, "call:step"]
            out.append({"kind": "ctx", "start": 0, "stop": 5, "step": 1,
                        "ops": pre + ["call:" + m for m in METHODS] + ["run"] + ["set:" + s for s in ENGINE_STATES]})
        out.append({"kind": "lc", "phases": [["a", ["x", "y"], True], ["b", ["z"], False]],
                    "reqs": ["x", "y", "x", "z", "y", "z", "x", "nowhere"]})
        # --- LESSONS audit -------------------------------------------------------------------------------------
        # the constructor of an InteractiveContext sets up by default; then everything from population_creation
        out.append(dict(ibase, auto_setup=True, ops=["call:setup", "call:initialize_simulants", "call:step", "call:finalize", "call:report"]))
        out.append(dict(ibase, auto_setup=True, stop=6, ops=["runsim", "xstepk:2", "take:2", "until:5", "for:1", "run", "call:finalize", "calld:report"]))
        # run_simulation: the whole wrapper, twice; with nothing to do (end == start) it stops at finalize
        out.append(dict(base, ops=["runsim", "runsim", "call:step"]))
        out.append(dict(base, stop=0, ops=["runsim", "call:step", "call:finalize", "call:report"]))
        out.append(dict(ibase, ops=["runsim", "call:step", "run", "call:finalize", "call:report"]))
        # a request made from INSIDE a listener: every request from inside every step event …
        run3 = ["call:setup", "call:initialize_simulants", "call:step"]
        for ev in STEP_EVENTS:
            reqs = ["set:" + s for s in ENGINE_STATES + ["nonexistent"]] + ["call:" + m for m in METHODS]
            for r in reqs:
                legal_inside = (r.startswith("set:") and r[4:] in LEGAL_NEXT[ev]) or \
                               (r.startswith("call:") and FIRST_SET[r[5:]] in LEGAL_NEXT[ev])
                if legal_inside:
                    out.append(dict(base, stop=6, ops=run3 + [f"nest:{ev}:{r}", "call:step", "call:step", "run", "call:finalize", "call:report"]))
            ops = list(run3)
            for r in reqs:            # … the refused ones change nothing, so they can share one simulation
                legal_inside = (r.startswith("set:") and r[4:] in LEGAL_NEXT[ev]) or \
                               (r.startswith("call:") and FIRST_SET[r[5:]] in LEGAL_NEXT[ev])
                if not legal_inside:
                    ops += [f"nest:{ev}:{r}", "call:step"]
            out.append(dict(base, stop=40, ops=ops + ["call:finalize", "call:report"]))
        for ev, r in (("post_setup", "call:initialize_simulants"), ("post_setup", "set:population_creation"), ("post_setup", "call:step"),
                      ("simulation_end", "call:report"), ("simulation_end", "set:report"), ("simulation_end", "call:step"),
                      ("report", "call:report"), ("report", "set:initialization")):
            out.append(dict(base, ops=[f"nest:{ev}:{r}"] + legal + ["call:report"]))
        out.append(dict(ibase, stop=5, ops=["call:setup", "nest:collect_metrics:call:step", "run", "nest:time_step:call:setup", "call:step", "call:finalize", "call:report"]))
        # a component's setup / an initializer / a report listener raises
        out.append(dict(base, ops=["fail:setup_components", "call:setup", "call:setup", "call:initialize_simulants", "call:step", "set:post_setup", "call:initialize_simulants"]))
        out.append(dict(base, ops=["call:setup", "fail:create", "call:initialize_simulants", "call:initialize_simulants", "call:step", "call:step", "call:finalize", "call:report"]))
        out.append(dict(base, ops=legal[:-1] + ["fail:report", "call:report", "call:report", "call:finalize"]))
        out.append(dict(ibase, ops=["fail:create", "call:setup", "call:setup", "call:initialize_simulants", "call:step", "call:finalize", "call:report"]))
        # an earlier, differently configured simulation in the same process that was left in the middle of a step
        prior = {"kind": "ctx", "start": 3, "stop": 9, "step": 2, "pop": 1, "interactive": True,
                 "ops": ["call:setup", "call:step", "fail:time_step", "call:step"]}
        out.append(dict(base, prior=prior, ops=legal))
        out.append(dict(ibase, prior=dict(prior, interactive=False, ops=legal), ops=ilegal))
        # lifecycles: late phases, the manager inside a real context, names that contain one another, containers
        out.append({"kind": "lc", "base": "bare", "lcops": [
            ["phase", "p", ["a", "b"], False, "pos", "list"], ["set", "a", "pos"], ["set", "b", "kw"], ["set", "c", "pos"],
            ["phase", "q", ["c", "d"], True, "kw", "tuple"], ["set", "d", "pos"], ["set", "c", "pos"], ["set", "d", "pos"], ["set", "c", "pos"],
            ["phase", "r", ["e"], False, "default", "ndarray"], ["set", "e", "pos"], ["set", "d", "pos"], ["set", "e", "pos"], ["set", "c", "pos"]]})
        out.append({"kind": "lc", "base": "engine", "lcops": [
            ["set", "archive", "pos"], ["phase", "post", ["archive", "cleanup"], False, "pos", "list"],
            ["phase", "setup", ["again"], False, "pos", "list"], ["phase", "more", ["report"], False, "pos", "list"]]
            + [["set", s, "pos"] for s in ENGINE_STATES[1:] + ["archive", "time_step__prepare", "archive", "cleanup", "archive"]]})
        out.append({"kind": "lc", "base": "engine", "lcops": [["set", s, "pos"] for s in
                    ["setup", "setup", "post_setup", "population_creation", "time_step", "time_step__prepare", "time_step", "time_step__prepare",
                     "time_step__cleanup", "time_step__prepare", "collect_metrics", "time_step__prepare", "time_step", "simulation_end"]]})
        out.append({"kind": "lc", "base": "bare", "lcops": [
            ["phase", "fit", ["", "fit", "refit", "fi"], True, "int", "index"],
            ["set", "fit", "pos"], ["set", "", "pos"], ["set", "fi", "pos"], ["set", "", "pos"], ["set", "fit", "pos"], ["set", "fi", "pos"],
            ["set", "refit", "pos"], ["set", "fi", "pos"], ["set", "", "pos"], ["set", "refit", "pos"], ["set", "", "pos"]]})
        out.append({"kind": "lc", "base": "bare", "lcops": [          # a phase named like a state, a state named like a phase
            ["phase", "x", ["y"], False, "pos", "list"], ["phase", "y", ["x"], True, "lifecycle", "list"], ["phase", "x", ["z"], False, "pos", "list"],
            ["phase", "initialization", ["w"], False, "pos", "list"], ["phase", "w", ["initialization"], False, "pos", "list"],
            ["set", "y", "pos"], ["set", "x", "pos"], ["set", "x", "pos"], ["set", "y", "pos"], ["set", "initialization", "pos"]]})
        out.append({"kind": "lc", "base": "bare",                    # the same names in another order, earlier in the same process
                    "prior": {"kind": "lc", "base": "bare", "lcops": [["phase", "p", ["c", "b", "a"], True, "pos", "list"],
                                                                    ["set", "c", "pos"], ["set", "b", "pos"], ["set", "a", "pos"], ["set", "c", "pos"]]},
                    "lcops": [["phase", "p", ["a", "b", "c"], False, "pos", "list"], ["set", "c", "pos"], ["set", "a", "pos"], ["set", "c", "pos"],
                              ["set", "b", "pos"], ["set", "a", "pos"], ["set", "c", "pos"], ["set", "a", "pos"]]})
        out.append({"kind": "lc", "base": "bare", "lcops": [["set", "initialization", "pos"], ["set", "x", "pos"]]})   # no phase at all
        return out

    def generate(self, rng: random.Random, i: int, tier: str):
        case = self._generate(rng)
        if case["kind"] == "ctx" and rng.random() < 0.35:
            case["pop"] = rng.choice([0, 0, 1, 5])          # nobody / one simulant / a few (the default is 2)
        return case

    def _generate(self, rng):
        r = rng.random()
        if r < 0.30:
            return self._gen_lc(rng)
        if r < 0.62:
            return self._gen_ctx_classic(rng)
        if r < 0.74:
            return self._gen_ctx_nested(rng)
        if r < 0.86:
            return self._gen_ctx_drives(rng)
        if r < 0.93:
            return self._gen_ctx_runsim(rng)
        c = self._gen_ctx_classic(rng)
        p = self._gen_ctx_classic(rng)
        p.update(start=rng.randint(1, 5), pop=rng.choice([0, 1, 3]))
        p["stop"] = p["start"] + rng.randint(0, 6)
        p["ops"] = p["ops"][:rng.randint(1, len(p["ops"]))]      # the earlier simulation stops anywhere
        c["prior"] = p
        return c

    def _noise(self, rng, interactive, more_fail=False):
        r = rng.random()
        if r < 0.12:
            pool = STEP_EVENTS + ["post_setup", "simulation_end"] + (["report", "create", "setup_components"] if more_fail else [])
            return "fail:" + rng.choice(pool)
        if r < 0.46:
            return "call:" + rng.choice(METHODS)
        if r < 0.50:
            return rng.choice(["callp:report", "calld:report"])
        if r < 0.58:
            return rng.choice(["run", "runb"])
        if r < 0.61:
            return "runsim"
        if r < 0.68 and interactive:
            return rng.choice(["xstep:%d" % rng.randint(1, 3), "xstepk:%d" % rng.randint(1, 3), "take:%d" % rng.randint(0, 2),
                               "takek:%d" % rng.randint(0, 2), "until:%d" % rng.randint(0, 6), "for:%d" % rng.randint(0, 3)])
        return rng.choice(["set:", "set:", "set:", "setk:"]) + rng.choice(ENGINE_STATES + ["nonexistent"])

    def _gen_ctx_classic(self, rng):
        nsteps = rng.randint(0, 4)
        step = rng.choice([1, 1, 2, 3])
        stop = nsteps * step - (rng.randint(0, step - 1) if nsteps else 0)
        legal = ["call:setup", "call:initialize_simulants"] + ["call:step"] * nsteps + ["call:finalize", rng.choice(["call:report", "call:report", "callp:report", "calld:report"])]
        if rng.random() < 0.4:
            legal = ["call:setup", "call:initialize_simulants", rng.choice(["run", "run", "runb"]), "call:finalize", "call:report"]
        interactive = rng.random() < 0.35
        ops, j = [], 0
        p_noise = rng.choice([0.0, 0.3, 0.5, 0.7])
        more_fail = rng.random() < 0.3
        while j < len(legal) and len(ops) < 40:
            if rng.random() < p_noise:
                ops.append(self._noise(rng, interactive, more_fail))
            else:
                ops.append(legal[j])
                j += 1
        if interactive:
            # InteractiveContext.setup() also creates the population; a separate initialize_simulants call is then illegal
            ops = [o for k, o in enumerate(ops) if not (o == "call:initialize_simulants" and k == ops.index("call:initialize_simulants")
                                                       and "call:setup" in ops[:k])]
        case = {"kind": "ctx", "start": 0, "stop": stop, "step": step, "ops": ops, "interactive": interactive}
        if interactive and rng.random() < 0.25:
            case["auto_setup"] = True
            case["ops"] = [o for o in ops if not o.startswith("fail:setup") and not o.startswith("fail:create")]
        return case

    def _gen_ctx_nested(self, rng):
        """dedicated mode: requests made from inside listeners, legal and illegal, in both kinds of context"""
        interactive = rng.random() < 0.4
        step = rng.choice([1, 2])
        stop = step * rng.randint(1, 5)
        ops = ["call:setup"] + ([] if interactive else ["call:initialize_simulants"])
        for _ in range(rng.randint(1, 4)):
            ev = rng.choice(STEP_EVENTS + STEP_EVENTS + ["post_setup", "simulation_end", "report"])
            if rng.random() < 0.45 and ev in LEGAL_NEXT:      # a request that does NOT break the order there
                cands = ["set:" + s for s in LEGAL_NEXT[ev]] + ["call:" + m for m in METHODS if FIRST_SET[m] in LEGAL_NEXT[ev]]
                req = rng.choice(cands) if cands else "set:nonexistent"
            else:
                req = rng.choice(["set:" + rng.choice(ENGINE_STATES + ["nonexistent"]), "call:" + rng.choice(METHODS)])
            k = rng.randint(0, len(ops)) if ev == "post_setup" else len(ops)
            ops.insert(k, f"nest:{ev}:{req}")
            ops += [rng.choice(["call:step", "call:step", "run", "call:finalize", "call:report"]) for _ in range(rng.randint(1, 3))]
        ops += ["call:step", "call:finalize", "call:report"]
        return {"kind": "ctx", "start": 0, "stop": stop, "step": step, "ops": ops, "interactive": interactive}

    def _gen_ctx_drives(self, rng):
        """dedicated mode: the interactive drives (explicit steps, take_steps, run_until, run_for, run) mixed with noise"""
        step = rng.choice([1, 2, 3])
        stop = rng.randint(0, 12)
        auto = rng.random() < 0.4
        ops = [] if auto else ["call:setup"]
        for _ in range(rng.randint(2, 8)):
            if rng.random() < 0.25:
                ops.append(self._noise(rng, True))
            else:
                ops.append(rng.choice(["xstep:%d" % rng.randint(1, 4), "xstepk:%d" % rng.randint(1, 4), "take:%d" % rng.randint(0, 3),
                                       "takek:%d" % rng.randint(0, 3), "until:%d" % rng.randint(0, 14), "for:%d" % rng.randint(0, 5),
                                       "call:step", "run", "runb"]))
        drive = lambda: rng.choice(["xstep:%d" % rng.randint(1, 3), "take:%d" % rng.randint(1, 2), "takek:1", "until:%d" % (stop + rng.randint(1, 9)),   # noqa: E731
                                    "for:%d" % rng.randint(1, 4), "run", "call:step"])
        ops += ["call:finalize"] + [drive() for _ in range(rng.choice([0, 1, 2]))]          # drives after the end must be refused
        ops += [rng.choice(["call:report", "calld:report"])] + [drive() for _ in range(rng.choice([0, 1, 2]))]
        ops = [o for o in ops if not (auto and (o.startswith("fail:setup") or o.startswith("fail:create")))]
        return {"kind": "ctx", "start": 0, "stop": stop, "step": step, "ops": ops, "interactive": True, **({"auto_setup": True} if auto else {})}

    def _gen_ctx_runsim(self, rng):
        interactive = rng.random() < 0.3
        step = rng.choice([1, 2])
        stop = rng.choice([0, 0, 1, 2, 3, 5])
        pre = [self._noise(rng, interactive) for _ in range(rng.choice([0, 0, 1, 2]))]
        pre = [o for o in pre if not o.startswith("fail:")] + (["fail:" + rng.choice(STEP_EVENTS + ["simulation_end", "report", "create"])] if rng.random() < 0.25 else [])
        post = [self._noise(rng, interactive) for _ in range(rng.randint(1, 5))]
        return {"kind": "ctx", "start": 0, "stop": stop, "step": step, "ops": pre + ["runsim"] + post, "interactive": interactive}

    # lifecycles ---------------------------------------------------------------------------------------------
    NAME_POOLS = {
        "plain": [f"s{k}" for k in range(12)],
        "substr": ["a", "ab", "abc", "b", "bc", "", "time_step", "time_step__prepare", "time", "step", "fit", "refit", "fi", "A"],
        "odd": ["", " ", "a b", "é", "x,y", "initialization ", "Initialization", "0", "None", "a-b", "s;t"],
    }

    def _gen_lc(self, rng):
        mode = rng.choice(["classic", "classic", "inner-loop", "late-phase", "engine", "prior", "containers"])
        pool = list(self.NAME_POOLS[rng.choice(["plain", "plain", "substr", "substr", "odd"])])
        rng.shuffle(pool)                                   # state order is never the alphabetical / numeric one
        base = "engine" if mode == "engine" else "bare"
        forms = ["pos", "pos", "kw", "default", "int", "npbool", "lifecycle"] if mode == "containers" or rng.random() < 0.3 else ["pos"]
        conts = ["list", "tuple", "ndarray", "index"] if mode == "containers" or rng.random() < 0.3 else ["list"]
        phases, used = [], 0
        for p in range(rng.randint(1, 4)):
            k = rng.randint(3, 5) if (mode == "inner-loop" and p == 0) else rng.randint(1, 3)
            if rng.random() < 0.06:
                states = []                                         # empty phase (nothing to enter)
            elif rng.random() < 0.12:
                states = [rng.choice(pool + ["initialization"] + (ENGINE_STATES if base == "engine" else [])) for _ in range(k)]   # may duplicate
            else:
                states = pool[used:used + k]
                used += k
            if not states and rng.random() < 0.5:
                states = []
            r = rng.random()
            pname = f"p{p}" if r > 0.2 else "p0" if r > 0.1 else rng.choice(pool + ["initialization", "setup"])
            loop = True if (mode == "inner-loop" and p == 0) else rng.random() < 0.5
            phases.append(["phase", pname, states, loop, rng.choice(forms), rng.choice(conts)])
        early, late = phases, []
        if mode in ("late-phase", "engine") or rng.random() < 0.25:
            cut = rng.randint(0, len(phases) - 1) if mode != "late-phase" else max(1, len(phases) - 1)
            early, late = phases[:cut], phases[cut:]
        order = ["initialization"] + ([s for _, ss, _ in ENGINE_PHASES for s in ss] if base == "engine" else [])
        walk = order + [s for ph in phases for s in ph[2]]
        ops, cur = list(early), 0

        def reqs(n, p_next):
            nonlocal cur
            out = []
            for _ in range(n):
                r = rng.random()
                if r < p_next and cur + 1 < len(walk):
                    out.append(walk[cur + 1]); cur += 1          # noqa: E702  (may or may not really be legal)
                elif r < p_next + 0.3:
                    out.append(rng.choice(walk))
                elif r < p_next + 0.38 and cur < len(walk):
                    out.append(walk[cur])                        # the current state itself
                else:
                    out.append(rng.choice(["zzz", "setup", "initialization"]))
            return [["set", x, "kw" if rng.random() < 0.15 else "pos"] for x in out]

        if mode == "inner-loop":
            first = phases[0][2]
            ops += reqs(len(order) - 1 + rng.randint(2, max(2, len(first) - 1)), 1.0)      # walk to an inner state of the loop
            ops += [["set", first[0], "pos"]] if first else []                              # … and ask for its first state
        ops += reqs(rng.randint(2, 14) + (len(order) if base == "engine" and rng.random() < 0.7 else 0), rng.choice([0.55, 0.8, 1.0]))
        for ph in late:
            ops.append(ph)
            ops += reqs(rng.randint(1, 8), rng.choice([0.55, 0.9]))
        case = {"kind": "lc", "base": base, "lcops": ops}
        if mode == "prior":
            other = list(pool)
            rng.shuffle(other)
            pph = [["phase", f"p{p}", other[3 * p:3 * p + rng.randint(1, 3)], rng.random() < 0.5, "pos", "list"] for p in range(rng.randint(1, 3))]
            pwalk = [s for ph in pph for s in ph[2]]
            case["prior"] = {"kind": "lc", "base": "bare",
                             "lcops": pph + [["set", s, "pos"] for s in pwalk[:rng.randint(0, len(pwalk))]] + [["set", rng.choice(pool), "pos"] for _ in range(3)]}
        return case

    def shrink(self, case):
        # (the earlier simulation / lifecycle of a case is never shrunk away: the shrinker runs in a process that has
        # already seen other cases, so a failure that needs process history would survive the removal there and the
        # replay, which starts in a fresh process, would not reproduce it)
        if case["kind"] == "lc" and "lcops" not in case:
            for key in ("reqs", "phases"):
                xs = case[key]
                for i in range(len(xs) - 1, -1, -1):
                    yield dict(case, **{key: xs[:i] + xs[i + 1:]})
            return
        key = "ops" if case["kind"] == "ctx" else "lcops"
        xs = case[key]
        for i in range(len(xs) - 1, -1, -1):
            yield dict(case, **{key: xs[:i] + xs[i + 1:]})
        if case["kind"] == "lc":
            for i, op in enumerate(xs):
                if op[0] == "phase" and (op[4] != "pos" or op[5] != "list"):
                    yield dict(case, lcops=xs[:i] + [op[:4] + ["pos", "list"]] + xs[i + 1:])

    # ------------------------------------------------------------------ implementation
    def run_impl(self, case):
        impl.load()
        keep = []          # earlier simulations / lifecycles stay alive while the case runs
        if case.get("prior"):
            try:
                (_run_lc if case["prior"]["kind"] == "lc" else _run_ctx)(case["prior"], keep)
            except CaseTimeout:
                raise
            except Exception:  # noqa: BLE001  (the earlier simulation may end any way it likes)
                pass
        return _run_lc(case, keep) if case["kind"] == "lc" else _run_ctx(case, keep)

    # ------------------------------------------------------------------ model
    @staticmethod
    def _tokens(case):
        """state / phase names -> protocol tokens (the model only compares names for equality)"""
        table = {}

        def tok(name):
            if name not in table:
                table[name] = name if (SAFE.match(name) and not name.startswith("~")) else f"~{len(table)}"
            return table[name]
        return tok

    def model_lines(self, case, obs):
        if case["kind"] == "lc":
            tok = self._tokens(case)
            L = ["lc engine" if case.get("base") == "engine" else "lc new"]
            for op in _lc_ops(case):
                if op[0] == "phase":
                    L.append(f"lc phase {tok(op[1])} {','.join(tok(s) for s in op[2]) if len(op[2]) else '-'} {1 if op[3] else 0}")
                else:
                    L.append(f"lc set {tok(op[1])}")
            return L
        L = [f"ctx new {case['start']} {case['step']} {case['stop']}"]
        if case.get("interactive"):
            L.append("ctx kind interactive")
        if case.get("auto_setup"):
            L.append("ctx isetup")
        for op in case["ops"]:
            k = _kind(op)
            arg = op.split(":", 1)[1] if ":" in op else ""
            if k in ("call", "callp", "calld"):
                L.append("ctx isetup" if (arg == "setup" and case.get("interactive")) else "ctx call " + arg)
            elif k in ("run", "runb"):
                L.append("ctx run")
            elif k == "runsim":
                L.append("ctx runsim")
            elif k in ("set", "setk"):
                L.append("ctx set " + arg)
            elif k == "fail":
                L.append("ctx fail " + arg)
            elif k == "nest":
                _, ev, rk, ra = op.split(":", 3)
                L.append(f"ctx nest {ev} {rk} {ra}")
            elif k in ("xstep", "xstepk"):
                L.append("ctx xstep " + arg)
            elif k in ("take", "takek"):
                L.append("ctx take " + arg)
            elif k == "until":
                L.append("ctx until " + arg)
            elif k == "for":
                L.append("ctx for " + arg)
            else:
                L.append("unknown-op")
        return L

    def compare(self, case, obs, replies):
        dis = []
        if case["kind"] == "lc":
            tok = self._tokens(case)
            ops = _lc_ops(case)
            for op in ops:                                    # same token table as model_lines (same visiting order)
                tok(op[1])
                if op[0] == "phase":
                    [tok(s) for s in op[2]]
            cur = "initialization"
            for i, (op, (o, st), b) in enumerate(zip(ops, obs["lc"], replies[1:])):
                t = b.split()
                if op[0] == "phase":
                    if (o == "ok") != (t[0] == "ok") or st != cur:
                        dis.append(f"add_phase #{i} {op}: impl {o} (state {st}), model {b}")
                else:
                    mo, mst = t[0], t[-1]
                    if (o == "ok") != (mo == "ok") or tok(st) != mst:
                        dis.append(f"set_state #{i} {op[1]!r}: impl {o}/{st!r}, model {b}")
                cur = st
            return dis
        head = 1 + (1 if case.get("interactive") else 0)
        seq = list(zip(case["ops"], obs["ops"]))
        if case.get("auto_setup"):
            seq = [("<constructor>", obs["auto"])] + seq
        for i, ((op, (o, st, clock, ev, _seen, _trail)), b) in enumerate(zip(seq, replies[head:])):
            t = b.split()
            if len(t) < 4:
                dis.append(f"op #{i} {op}: model reply {b!r}")
                continue
            mo, mst, mclock, mev = t[0], t[1], int(t[2]), ([] if t[3] == "-" else t[3].split(","))
            if (o == "ok") != (mo == "ok") or st != mst or ev != mev or (clock is not None and clock != mclock):
                dis.append(f"op #{i} {op}: impl {o} {st} clock={clock} {ev}; model {b}")
        return dis

    # ------------------------------------------------------------------ oracle (the property itself)
    @staticmethod
    def _lc_oracle(case, obs):
        """the declared order, derived from the CASE alone (never from what the implementation accepted)"""
        fails = []
        phases = [["initialization", ["initialization"], False]] + ([list(p) for p in ENGINE_PHASES] if case.get("base") == "engine" else [])
        cur = "initialization"

        def successors(s):
            order = [x for _, ss, _ in phases for x in ss]
            out = set()
            if s in order and order.index(s) + 1 < len(order):
                out.add(order[order.index(s) + 1])
            for _, ss, loop in phases:
                if loop and len(ss) and ss[-1] == s:
                    out.add(ss[0])
            return out

        for i, (op, (o, st)) in enumerate(zip(_lc_ops(case), obs["lc"])):
            if op[0] == "phase":
                _, name, states, loop = op[:4]
                states = list(states)
                existing = {x for _, ss, _ in phases for x in ss}
                unique = name not in {p[0] for p in phases} and len(set(states)) == len(states) and not (set(states) & existing)
                if not states:
                    want = (o == "ok") and unique        # a phase without states cannot be entered: either answer, but never a duplicate name
                    if o == "ok" and not unique:
                        fails.append({"sig": "lc-phase-acceptance", "msg": f"op #{i} add_phase {op[1:4]}: accepted although the phase name exists"})
                else:
                    want = unique
                    if (o == "ok") != want:
                        fails.append({"sig": "lc-phase-acceptance", "msg": f"op #{i} add_phase {op[1:4]}: {o}, names unique = {unique} "
                                      f"(phases so far {[p[0] for p in phases]}, states so far {sorted(existing)})"})
                if st != cur:
                    fails.append({"sig": "lc-phase-moved-state", "msg": f"op #{i} add_phase {op[1:4]}: state went from {cur!r} to {st!r}"})
                if want:
                    phases.append([name, states, bool(loop)])
            else:
                r = op[1]
                legal = r in successors(cur)
                if (o == "ok") != legal:
                    fails.append({"sig": "lc-accepts-illegal" if o == "ok" else "lc-refuses-legal",
                                  "msg": f"request #{i} {cur!r}->{r!r}: outcome {o}, legal={legal}"})
                want_st = r if o == "ok" else cur
                if st != want_st:
                    fails.append({"sig": "lc-state-after", "msg": f"request #{i} {cur!r}->{r!r} ({o}): state is {st!r}, expected {want_st!r}"})
            cur = st
        return fails

    def oracle(self, case, obs):
        if case["kind"] == "lc":
            return self._lc_oracle(case, obs)
        fails = []
        inter = bool(case.get("interactive"))
        cur = "initialization"
        prev_clock = None
        armed_fail = None
        seq = list(zip(case["ops"], obs["ops"]))
        if case.get("auto_setup"):
            seq = [("call:setup", obs["auto"])] + seq
        nest = None          # (event, request) armed
        for i, (op, (o, st, clock, ev, seen, trail)) in enumerate(seq):
            k = _kind(op)
            if seen is not None and seen != st:
                fails.append({"sig": "state-handles-disagree", "msg": f"op #{i} {op}: the manager says {st}, the component's current_state() handle says {seen}"})
            # the states the listeners saw, then the state the request left: each reachable from the one before along the legal order
            s0 = cur
            for t in list(trail) + [st]:
                if t not in REACH.get(s0, ()):
                    fails.append({"sig": "state-order", "msg": f"op #{i} {op} from {cur}: states seen by listeners {trail}, then {st}: {s0} -> {t} is not along the legal order"})
                    break
                s0 = t
            for e in ev:
                if "@" in e:
                    fails.append({"sig": "listener-in-wrong-state", "msg": f"op #{i} {op}: listener call {e} (event@state seen)"})
                    break
            ev = [e.split("@")[0] for e in ev]
            if k in ("fail", "nest"):
                if o != "ok" or st != cur or ev:
                    fails.append({"sig": "harness", "msg": f"op #{i} {op}: {o} {st} {ev}"})
                if k == "fail":
                    armed_fail = op[5:]
                else:
                    _, nev, nreq = op.split(":", 2)
                    nest = (nev, nreq)
                continue
            if k in ("set", "setk"):
                tgt = op.split(":", 1)[1]
                legal = tgt in LEGAL_NEXT.get(cur, [])
                if (o == "ok") != legal:
                    fails.append({"sig": "direct-request-outcome", "msg": f"op #{i} {op} from {cur}: {o}, legal={legal}"})
                if ev:
                    fails.append({"sig": "direct-request-ran-listener", "msg": f"op #{i} {op}: listeners ran {ev}"})
                if st != (tgt if o == "ok" else cur):
                    fails.append({"sig": "direct-request-state", "msg": f"op #{i} {op} from {cur} ({o}): state {st}"})
                if clock != prev_clock:
                    fails.append({"sig": "direct-request-moved-clock", "msg": f"op #{i} {op}: clock {prev_clock} -> {clock}"})
                cur, prev_clock = st, clock
                continue
            # ---- a context method / drive -------------------------------------------------------------------
            m = _method_of(op)
            if inter and m == "setup" and o == "ok" and st != "population_creation":
                fails.append({"sig": "interactive-setup-state", "msg": f"op #{i} setup() on an InteractiveContext ended in {st}"})
            # walk the log: every listener runs in its own state, reached along the legal order; requests from inside
            # a listener are judged on the spot
            path_ok, s = True, cur
            nested_accepted = nested_seen = False
            for pos, entry in enumerate(ev):
                if entry.startswith("emit:"):
                    v = entry[5:]
                    hops = 0
                    while s != v and hops < 3:
                        nx = LEGAL_NEXT.get(s, [])
                        if v in nx:
                            s = v
                            break
                        if len(nx) >= 1 and nx[0] in ("setup", "population_creation"):
                            s = nx[0]          # silent states (no event of their own)
                            hops += 1
                            continue
                        break
                    if s != v:
                        path_ok = False
                        break
                elif entry.startswith("nested:"):
                    _, res, nst = entry.split(":", 2)
                    nested_seen = True
                    nev, nreq = nest if nest else (None, "set:?")
                    nest = None
                    if nreq.startswith("set:"):
                        first, rest_state = nreq[4:], nreq[4:]
                    else:
                        first, rest_state = FIRST_SET[nreq[5:]], REST[nreq[5:]]
                    # the state in which the request was made: the event being delivered (accepted nested calls ran their
                    # own listeners in between, already walked)
                    made_in = nev
                    legal = first in LEGAL_NEXT.get(made_in, [])
                    if res == "ok":
                        nested_accepted = True
                        if not legal:
                            fails.append({"sig": "nested-illegal-accepted", "msg": f"op #{i} {op}: request {nreq} from inside a {nev} listener was accepted"})
                        if nst != rest_state:
                            fails.append({"sig": "nested-state-after", "msg": f"op #{i} {op}: accepted nested {nreq} left state {nst}, expected {rest_state}"})
                        s = nst
                    else:
                        if legal and armed_fail is None:   # (armed_fail: a listener of the nested request may have raised)
                            fails.append({"sig": "nested-legal-refused", "msg": f"op #{i} {op}: request {nreq} from inside a {nev} listener was refused"})
                        if not legal:
                            if nst != made_in:
                                fails.append({"sig": "nested-refused-changed-state", "msg": f"op #{i} {op}: refused nested {nreq} in {made_in} left state {nst}"})
                            if pos == 0 or ev[pos - 1] != "emit:" + str(nev):
                                fails.append({"sig": "nested-refused-ran-listener", "msg": f"op #{i} {op}: refused nested {nreq}: log {ev}"})
                elif entry in ("create", "setup_components"):
                    want_state = "population_creation" if entry == "create" else "setup"
                    hops = 0
                    while s != want_state and hops < 3 and LEGAL_NEXT.get(s):
                        s = LEGAL_NEXT[s][0]
                        hops += 1
                    if s != want_state:
                        path_ok = False
                        break
            if not path_ok:
                fails.append({"sig": "listener-out-of-order", "msg": f"op #{i} {op} from {cur}: events {ev}"})
            # what the request asks for first, and whether it needs to step at all
            if m is not None:
                first = FIRST_SET[m]
            elif k == "runsim":
                first = "setup"
            elif k in ("xstep", "xstepk"):
                first = "time_step__prepare"
            elif k in ("take", "takek"):
                first = "time_step__prepare" if int(op.split(":")[1]) > 0 else None
            elif k in ("run", "runb", "until", "for"):
                # does the loop have anything to do? (the clock is not the subject of C06: its value is taken as observed)
                if prev_clock is None:
                    first = None
                else:
                    bound = case["stop"] if k in ("run", "runb") else int(op.split(":")[1]) + (prev_clock if k == "for" else 0)
                    first = "time_step__prepare" if prev_clock < bound else None
            else:
                first = None
            breaks = first is not None and first not in LEGAL_NEXT.get(cur, [])
            fail_pending = armed_fail is not None      # a listener may raise during this request (also inside a nested one)
            if armed_fail is not None and o == "err:ListenerFailure":
                armed_fail = None
            if breaks:
                if o == "ok":
                    fails.append({"sig": "illegal-call-accepted", "msg": f"op #{i} {op} accepted from {cur}"})
                else:
                    if ev:
                        fails.append({"sig": "refused-call-ran-listener", "msg": f"op #{i} {op} from {cur}: refused but ran {ev}"})
                    if st != cur:
                        fails.append({"sig": "refused-call-changed-state", "msg": f"op #{i} {op} from {cur}: {o}, state {st}, events {ev}"})
                    if clock != prev_clock:
                        fails.append({"sig": "refused-call-moved-clock", "msg": f"op #{i} {op} from {cur}: {o}, clock {prev_clock} -> {clock}"})
            elif first is not None and o in ("err:InvalidTransitionError", "err:LifeCycleError") and not nested_accepted:
                # the lifecycle refused although the order allowed the request
                zero_step_runsim = k == "runsim" and (inter or case["stop"] <= case["start"])
                if not zero_step_runsim:
                    fails.append({"sig": "legal-call-refused", "msg": f"op #{i} {op} from {cur}: {o}, state {st}, events {ev}"})
            if k == "runsim" and cur == "initialization" and not fail_pending and not nested_accepted:
                if inter or case["stop"] <= case["start"]:
                    # the wrapper's own initialize_simulants (interactive) / finalize (nothing to do) breaks the order
                    if o == "ok" or st != "population_creation":
                        fails.append({"sig": "runsim-outcome", "msg": f"op #{i} run_simulation(): {o} {st}; expected a refusal resting in population_creation"})
                elif o != "ok" or st != "report":
                    fails.append({"sig": "runsim-outcome", "msg": f"op #{i} run_simulation(): {o} {st}; expected to reach report"})
            if o == "ok" and not breaks and not nested_accepted and not (fail_pending and nested_seen):
                # an accepted request passes through exactly its own states and rests where it should
                if m is not None:
                    want_st = "population_creation" if (inter and m == "setup") else REST[m]
                    want_ev = EVENTS_OF[m] + (["create"] if (inter and m == "setup") else [])
                elif k in ("xstep", "xstepk"):
                    want_st, want_ev = "collect_metrics", EVENTS_OF["step"]
                elif k == "runsim":
                    want_st, want_ev = "report", None
                elif k in STEPPING:
                    n_it = len([e for e in ev if e == "emit:collect_metrics"])
                    if k in ("take", "takek"):
                        n_it = int(op.split(":")[1])
                    want_st = "collect_metrics" if (first is not None or n_it) else cur
                    want_ev = EVENTS_OF["step"] * n_it
                    if first is not None and n_it == 0:
                        fails.append({"sig": "accepted-call-events", "msg": f"op #{i} {op} from {cur}: had to step, ran {ev}"})
                else:
                    want_st, want_ev = st, None
                plain = [e for e in ev if not e.startswith("nested:")]
                if st != want_st:
                    fails.append({"sig": "call-end-state", "msg": f"op #{i} {op} from {cur}: accepted, rests in {st}, expected {want_st}"})
                if want_ev is not None and plain != want_ev:
                    fails.append({"sig": "accepted-call-events", "msg": f"op #{i} {op} from {cur}: ran {ev}, expected {want_ev}"})
            cur, prev_clock = st, clock
        return fails

    def _first_set_illegal(self, method, cur):
        return FIRST_SET[method] not in LEGAL_NEXT.get(cur, [])

    FIRST_SET = FIRST_SET

    def nontrivial(self, case, obs):
        outs = [o[0] for o in (obs["ops"] if case["kind"] == "ctx" else obs["lc"])]
        return any(o == "ok" for o in outs) and any(o != "ok" for o in outs)

    def tags(self, case, obs):
        t = [case["kind"]] + (["process-history"] if case.get("prior") else [])
        if case["kind"] == "ctx":
            t.append("interactive-context" if case.get("interactive") else "simulation-context")
            t.append("pop:%s" % case.get("pop", 2))
            t += ["constructor-setup"] * bool(case.get("auto_setup"))
            for op, (o, st, _, ev, _s, _t) in zip(case["ops"], obs["ops"]):
                k = _kind(op)
                t.append(("ok:" if o == "ok" else "refused:") + k)
                if st in ENGINE_STATES[4:7] and k != "fail":
                    t.append("stuck-in:" + st)
                t.append("rest:" + st)
                for e in ev:
                    if e.startswith("nested:"):
                        t.append("nested-" + e.split(":")[1])
                if k == "fail":
                    t.append("fail-on:" + op[5:])
        else:
            ops = _lc_ops(case)
            t.append("lc-base:" + case.get("base", "bare"))
            seen_set = False
            for op, (o, _) in zip(ops, obs["lc"]):
                if op[0] == "phase":
                    t.append("phase-" + o.split(":")[0])
                    t.append("phase-form:" + op[4])
                    t.append("phase-container:" + op[5])
                    t += ["late-phase"] * seen_set + ["loop-phase"] * bool(op[3])
                    t += ["unsafe-name"] * any(not SAFE.match(s) for s in op[2])
                else:
                    seen_set = True
                    t.append("req-" + o.split(":")[0])
        return t

    def sample_view(self, case, obs):
        return {"case": case, "observed_head": (obs.get("ops") or obs.get("lc"))[:8]}


def LEGAL_NEXT_AFTER(prefix):
    """legal direct targets in the resting state reached by the legal call prefix (kept out of the noise list)"""
    cur = "initialization"
    rest = {"call:setup": "post_setup", "call:initialize_simulants": "population_creation", "call:step": "collect_metrics",
            "call:finalize": "simulation_end", "call:report": "report"}
    for p in prefix:
        cur = rest[p]
    return LEGAL_NEXT[cur]


PROP = C06()
