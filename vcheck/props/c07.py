"""C07 — framework services are available exactly in the states that make sense.

Tie: (a) translator: every `add_constraint` call site is regenerated into Gen.constraints and the
matrix theorems of Props/C07.lean are re-decided; (b) exhaustive dynamic matrix: probe components
(vcheck/c07_probes.py) obtain every kind of handle during setup - through the Builder interfaces, the managers,
the Component helpers, before / after the object they name exists - and issue every service call in every state
in which code can run, from every calling context (listeners, simulant initializers at creation and at a birth,
inside a pipeline source / modifier, between the context's methods, after a dill backup / restore, after other
simulations in the same process); refused (ConstraintError) / admitted is compared with the stateful Lean model of
`ConstraintMaker` (Model/Services.lean, replayed operation by operation) and with the property's own rule, and an
admitted call must WORK (result and effect derived from the case's configuration).
"""
from __future__ import annotations

import random

from ..runner import Prop

STATES = ["setup", "post_setup", "population_creation", "time_step__prepare", "time_step", "time_step__cleanup",
          "collect_metrics", "simulation_end", "report"]
LOOP = STATES[3:7]
ALL_STATES = ["initialization"] + STATES
REG = {"register_listener", "register_value_producer", "register_value_modifier", "initializes_simulants",
       "get_simulant_creator", "get_stream", "build_table", "data.load"}
READ = {"view.get", "pipeline", "get_draw", "filter_for_probability", "filter_for_rate", "choice", "sample_from_distribution",
        "table", "context.get_population"}
WRITE = {"view.update", "register_simulants", "create_simulants"}
SUB = {"subview.get", "subview.update"}   # handles returned by PopulationView.subview (no constraint: F10)
# every one of these must be exercised from a listener in every state (further variants appear when their handle exists)
REQUIRED = [
    "register_listener", "register_listener@kw", "register_listener@manager", "register_listener!bad",
    "register_value_producer", "register_value_producer@rate", "register_value_producer@kw", "register_value_producer@manager",
    "register_value_producer!bad", "register_value_modifier", "register_value_modifier@kw", "register_value_modifier@step_size",
    "register_value_modifier@manager", "initializes_simulants", "initializes_simulants@kw", "initializes_simulants@manager",
    "initializes_simulants!bad", "get_simulant_creator", "get_simulant_creator@manager", "get_stream", "get_stream@crn",
    "get_stream@kw", "get_stream@manager", "get_stream!bad", "build_table", "build_table@frame", "build_table@kw",
    "build_table@component", "build_table@manager", "build_table!bad",
    "view.get", "view.get@query", "view.get@all", "view.get@str", "view.get@tuple", "view.get@manager", "view.get@extra_query",
    "view.get@bound", "view.get@component", "view.get@popmgr", "view.get!bad",
    "view.update", "view.update@query", "view.update@all", "view.update@frame", "view.update@manager", "view.update@bound",
    "view.update@component", "view.update@creates_column", "view.update!bad",
    "subview.get", "subview.update", "subview.get@nested", "subview.update@nested", "subview.get@component",
    "pipeline", "pipeline@rate", "pipeline@get_value", "pipeline@skip_post", "pipeline@rate_skip_post", "pipeline@early",
    "pipeline@kw_registered", "pipeline@union", "pipeline@manager", "pipeline@direct", "pipeline@bound", "pipeline@get_value_now",
    "pipeline!bad", "pipeline@unsourced", "pipeline@nest", "pipeline@modified_first", "pipeline@framework",
    "get_draw", "get_draw@crn", "get_draw@kw_stream", "get_draw@manager", "get_draw@additional_key", "get_draw@bound", "get_draw!bad",
    "filter_for_probability", "filter_for_probability@crn", "filter_for_rate", "filter_for_rate@crn", "choice", "choice@crn",
    "choice@weights", "sample_from_distribution", "sample_from_distribution@crn",
    "table", "table@multi", "table@categorical", "table@interpolated", "table@manager", "table@component", "table@config",
    "table@direct", "table!bad",
    "register_simulants", "register_simulants@kw", "register_simulants@manager", "register_simulants!bad", "data.load!bad",
    "create_simulants", "create_simulants@manager", "create_simulants@attribute", "create_simulants@kw"]
WITH_ARTIFACT = ["data.load", "data.load@filter", "data.load@component", "data.load@manager"]
BAD_ADDS = {"both": "err:value", "neither": "err:value", "empty_tuple": "err:value", "unknown_state": "err:lifecycle",
            "unknown_restrict": "err:lifecycle", "twice_view_get": "err:constraint", "twice_view_update": "err:constraint",
            "twice_stream": "err:constraint", "twice_pipeline": "err:constraint", "twice_table": "err:constraint",
            "twice_manager": "err:constraint", "twice_manager_values": "err:constraint", "function": "err:type",
            "dunder": "err:value", "same_name": None}
CUSTOM_TARGETS = ["holder.m1", "holder.m2", "helper1.m", "helper3.m", "sub_user.get"]
LATE_TARGETS = ["helper3.m", "holder.m2", "sub_user.get"]
from ..c07_defaults import DEFAULTS, normalise  # noqa: E402,F401


def base(service: str) -> str:
    return service.split("@")[0].split("!")[0]


def cls_of(service: str) -> str:
    b = base(service)
    if b in REG:
        return "registration"
    if b in READ:
        return "reader"
    if b in WRITE:
        return "writer"
    if b in SUB:
        return "subview"
    return "custom"


def rule(service: str, state: str) -> bool:
    """the property's own statement: is the service available in this state?"""
    c = cls_of(service)
    if c == "registration":
        return state == "setup"
    if c == "reader" or base(service) == "subview.get":
        return state not in ("initialization", "setup", "post_setup")
    return state not in ("initialization", "setup", "post_setup", "simulation_end", "report")


def phase(cls: str, state: str) -> str:
    """coarse, stable part of a failure signature (one signature per class x verdict x phase, not per state)"""
    if cls == "registration":
        return "in-setup" if state == "setup" else ("before-setup" if state == "initialization" else "after-setup")
    if state in ("initialization", "setup", "post_setup"):
        return "before-creation"
    return "after-end" if state in ("simulation_end", "report") else "while-running"


def custom_plan(case):
    """which run-time constraint is in force for each user target (the FIRST valid add_constraint on a method wins, every
    later one is refused), and what every add_constraint call of the case must answer - from the configuration alone"""
    order = {"setup": 0, "post_setup": 1, "time_step": 2}
    entries = sorted(enumerate(case["custom"]), key=lambda t: (order[t[1].get("when", "setup")], t[0]))
    in_force, expect = {}, []
    for i, c in entries:
        if c.get("when", "setup") != "setup" and c["target"] not in LATE_TARGETS:
            continue
        if c["target"] in in_force:
            expect.append((c, "err:constraint"))
        else:
            in_force[c["target"]] = c
            expect.append((c, "ok"))
    return in_force, expect


def custom_admits(c, state):
    return (state in c["states"]) if c["mode"] == "allow" else (state not in c["states"])


class C07(Prop):
    id = "C07"
    lean_modules = ["VivModel.Props.C07", "VivModel.Props.C07Src"]
    build_targets = ["VivModel.Model.Context", "VivModel.Model.Services", "VivModel.Model.Proto"]
    driver = "C07"
    technique = ("Lean 4 proof (decide over the constraint table regenerated from every add_constraint call site; invariant proofs over "
                 "the stateful ConstraintMaker model: once constrained, forever the same verdict) + exhaustive dynamic service x state x "
                 "calling-context matrix on real simulations, replayed operation by operation on the model")
    partial = ("Python's instance re-binding and dill's fidelity on re-bound methods live in the runtime: explored (every route to a "
               "handle, backup / restore in this and in a fresh process), not proved")
    n_quick = 22
    n_thorough = 150
    workers = 6
    case_timeout = 120
    rule = ("each case is a whole simulation in which probe components issue ~105 service calls (every kind of handle and call form: "
            "views from the interface / the manager / Component.population_view / the population manager's own, str / tuple / empty "
            "columns, bound methods captured at creation, views obtained after setup; pipelines from register_value_producer / "
            "register_rate_producer / get_value before and after the source exists / the manager / InteractiveContext.get_value, "
            "skip_post_processor, _call directly; ordinary and CRN-initialising streams incl. sample_from_distribution; scalar / multi / "
            "categorical / interpolated / configuration-built lookup tables; positional and keyword forms; malformed calls that fail "
            "after the check) in all 9 component-visible lifecycle states and, per case, from further calling contexts (initializers at "
            "a birth in every loop state, inside a pipeline source / modifier incl. a re-entrant call, between the context's methods "
            "incl. `initialization`, under run_simulation / run(backup) / InteractiveContext, after a dill backup+restore in this or a "
            "fresh process, after differently configured earlier simulations), plus run-time add_constraint calls with generated "
            "allow / restrict lists (list and tuple) and every refusal path; non-trivial = admitted and refused cells both present")

    # ------------------------------------------------------------------------------------------------ cases
    def boundary(self):
        B = []
        # the four placements of the first version (who obtains the handles first, early / late in setup)
        kinds = iter(["method", "object", "partial", "nameless_method"])      # every kind of listener, every run (F34)
        for early in (True, False):
            for order in ("hco", "cho"):
                B.append({"early": early, "order": order, "n_extra": 1, "crn": True, "pop": 2, "steps": 1, "mode": "classic",
                          "artifact": early, "listener_kind": next(kinds)})
        # every calling context at once, untracked simulant in the request, shuffled call order
        B.append({"mode": "contexts", "contexts": ["outside", "birth", "nested"], "pop": 3, "steps": 2, "untrack": True, "idx": "untracked",
                  "late_views": True, "shuffle": True, "order_seed": 3, "listener_kind": "nameless_method"})
        # zero-count births, empty index, empty population, no CRN
        B.append({"mode": "contexts", "contexts": ["birth", "outside"], "birth_count": 0, "idx": "empty", "pop": 1, "crn": False})
        B.append({"mode": "contexts", "contexts": ["birth"], "birth_count": 2, "pop": 0, "idx": "all", "drive": "run_simulation"})
        # run-time constraints: every refusal path, allow / restrict, tuple, late additions, the shared-name object
        B.append({"mode": "custom", "bad_adds": sorted(BAD_ADDS), "custom": [
            {"target": "holder.m1", "mode": "allow", "states": ["time_step", "report"], "container": "tuple"},
            {"target": "helper1.m", "mode": "restrict", "states": ["setup", "time_step"], "container": "list"},
            {"target": "sub_user.get", "mode": "restrict", "states": ["initialization", "setup", "post_setup"], "container": "list"},
            {"target": "helper3.m", "mode": "allow", "states": ["collect_metrics"], "container": "list", "when": "time_step"},
            {"target": "holder.m2", "mode": "restrict", "states": ["initialization"], "container": "tuple", "when": "post_setup"},
            {"target": "holder.m1", "mode": "allow", "states": list(ALL_STATES), "container": "list"}], "contexts": ["outside"]})
        B.append({"mode": "custom", "bad_adds": ["same_name", "twice_view_get"], "custom": [
            {"target": "helper3.m", "mode": "restrict", "states": list(STATES), "container": "list"}]})
        # interactive drives
        B.append({"mode": "interactive", "drive": "interactive", "contexts": ["outside"], "interactive": "step", "steps": 2, "form": "kw",
                  "listener_kind": "object"})
        B.append({"mode": "interactive", "drive": "interactive_nosetup", "contexts": ["outside", "nested"], "interactive": "take",
                  "order": "ohc", "as_sub": True, "idx": "rev", "pop": 3, "listener_kind": "partial"})
        # the engine's second loop (backups written on every step)
        B.append({"mode": "classic", "drive": "run_backup", "steps": 2, "crn": False, "idx": "all", "listener_kind": "object"})
        # backup / restore: in this process (the original context is finished off first), and in a fresh one
        B.append({"mode": "restore", "steps": 2, "restore": {"after": 1, "fresh": False, "finish_original": True}, "contexts": ["outside"],
                  "listener_kind": "lambda"})
        B.append({"mode": "restore", "steps": 2, "restore": {"after": 1, "fresh": True, "hashseed": 11}, "contexts": ["birth"],
                  "listener_kind": "partial"})
        # process history: a finished, a half-set-up and an interactive earlier simulation with other configurations
        B.append({"mode": "history", "custom": [{"target": "holder.m1", "mode": "allow", "states": ["time_step", "report"]},
                                               {"target": "helper1.m", "mode": "restrict", "states": ["collect_metrics"]}], "prior": [
            {"case": {"crn": False, "pop": 4, "order": "cho", "steps": 1, "early": False, "custom": [
                {"target": "holder.m1", "mode": "allow", "states": ["setup"]},
                {"target": "helper1.m", "mode": "allow", "states": ["collect_metrics"]}]}, "until": "report"},
            {"case": {"crn": True, "pop": 1, "order": "och", "steps": 1}, "until": "post_setup"},
            {"case": {"crn": False, "pop": 2, "steps": 2}, "until": "collect_metrics", "interactive": True}]})
        return B

    def generate(self, rng: random.Random, i: int, tier: str):
        mode = rng.choice(["classic", "classic", "contexts", "contexts", "interactive", "custom", "custom", "history", "restore", "late"])
        c = {"mode": mode, "early": rng.random() < 0.5, "order": rng.choice(["hco", "hco", "hoc", "cho", "coh", "ohc", "och"]),
             "n_extra": rng.randint(0, 2), "crn": rng.random() < 0.6, "pop": rng.choice([0, 1, 2, 2, 3, 4, 6]), "steps": rng.randint(1, 3),
             "form": rng.choice(["pos", "kw"]), "idx": rng.choice(["one", "all", "empty", "rev", "untracked", "range"]),
             "shuffle": rng.random() < 0.4, "order_seed": rng.randint(0, 10 ** 6), "as_sub": rng.random() < 0.2,
             "untrack": rng.random() < 0.4,
             "listener_kind": rng.choice(["method", "lambda", "partial", "object", "nameless_method"]),
             "artifact": rng.random() < 0.35}
        if c["idx"] == "untracked":
            c["untrack"] = True
            c["pop"] = max(c["pop"], 2)
        if mode == "contexts":
            c["contexts"] = rng.sample(["outside", "birth", "nested"], rng.randint(1, 3))
            c["birth_count"] = rng.choice([0, 1, 1, 2])
            c["drive"] = rng.choice(["manual", "manual", "run_simulation"])
        elif mode == "interactive":
            c["drive"] = rng.choice(["interactive", "interactive_nosetup"])
            c["interactive"] = rng.choice(["step", "take", "run_until", "run"])
            c["contexts"] = ["outside"] + (["nested"] if rng.random() < 0.3 else [])
        elif mode == "custom":
            k = rng.randint(2, 5)
            c["custom"] = []
            for _ in range(k):
                tgt = rng.choice(CUSTOM_TARGETS)
                md = rng.choice(["allow", "restrict"])
                pool = ALL_STATES if md == "restrict" or rng.random() < 0.5 else STATES
                st = rng.sample(pool, rng.randint(1, len(pool) if rng.random() < 0.15 else 4))
                when = rng.choice(["setup", "setup", "post_setup", "time_step"]) if tgt in LATE_TARGETS else "setup"
                c["custom"].append({"target": tgt, "mode": md, "states": st, "container": rng.choice(["list", "tuple"]), "when": when})
            c["bad_adds"] = rng.sample(sorted(BAD_ADDS), rng.randint(2, 8))
            c["contexts"] = rng.choice([[], ["outside"], ["birth"]])
        elif mode == "history":
            c["prior"] = []
            for _ in range(rng.randint(1, 2)):
                c["prior"].append({"case": {"crn": not c["crn"] if rng.random() < 0.7 else c["crn"], "pop": rng.choice([1, 3, 5]),
                                            "order": rng.choice(["hco", "cho", "och"]), "steps": rng.randint(1, 2),
                                            "early": not c["early"]},
                                   "until": rng.choice(["report", "report", "post_setup", "population_creation", "collect_metrics",
                                                        "simulation_end", "initialization"]),
                                   "interactive": rng.random() < 0.3})
            c["drive"] = rng.choice(["manual", "run_simulation", "interactive"])
            # the same user methods are constrained in the earlier simulation and in this one - with DIFFERENT lists
            for tgt in rng.sample(CUSTOM_TARGETS, 2):
                md = rng.choice(["allow", "restrict"])
                c.setdefault("custom", []).append({"target": tgt, "mode": md, "states": rng.sample(STATES, 3), "container": "list"})
                for pr in c["prior"]:
                    pr["case"].setdefault("custom", []).append(
                        {"target": tgt, "mode": rng.choice(["allow", "restrict"]), "states": rng.sample(STATES, 2), "container": "tuple"})
        elif mode == "restore":
            c["steps"] = rng.randint(2, 3)
            fresh = rng.random() < (0.35 if tier == "quick" else 0.5)
            c["restore"] = {"after": rng.randint(0, c["steps"] - 1), "fresh": fresh, "hashseed": rng.randint(1, 99),
                            "finish_original": rng.random() < 0.5}
            c["contexts"] = rng.choice([[], ["outside"], ["birth"]])
        elif mode == "late":
            c["late_views"] = True
            c["contexts"] = rng.choice([[], ["outside"]])
            c["drive"] = rng.choice(["manual", "run_backup", "run_simulation"])
        return c

    # ------------------------------------------------------------------------------------------------ implementation
    def run_impl(self, case):
        from .. import c07_probes
        return c07_probes.run_case(normalise(case))

    # ------------------------------------------------------------------------------------------------ model
    @staticmethod
    def _line(e):
        if e["e"] == "st":
            return "st " + e["st"]
        return " ".join(e["op"])

    def model_lines(self, case, obs):
        return [self._line(e) for e in obs["events"] if not (e["e"] == "cell" and e["out"] == "unavailable")]

    def compare(self, case, obs, replies):
        dis = []
        evs = [e for e in obs["events"] if not (e["e"] == "cell" and e["out"] == "unavailable")]
        if len(evs) != len(replies):
            return [f"{len(evs)} operations, {len(replies)} replies"]
        for e, rep in zip(evs, replies):
            if e["e"] == "st":
                want = "ok"
            elif e["e"] in ("new", "add"):
                want = e["out"]
            else:
                out = e["out"]
                if e["op"][0] == "pcall" and out == "admitted:DynamicValueError":
                    want = "nosource"
                else:
                    want = out.split(":")[0]
            if rep != want:
                what = e.get("svc") or self._line(e)
                dis.append(f"{what} in {e.get('st', '-')} [{e.get('ctx', '-')}]: implementation {e.get('out', want)}, model {rep}")
                if len(dis) >= 25:
                    break
        return dis

    # ------------------------------------------------------------------------------------------------ oracle
    def oracle(self, case, obs):
        case = normalise(case)
        fails = []
        seen_sig = {}

        def fail(sig, msg):
            # a handful of examples per signature is enough (the runner shrinks once per signature)
            seen_sig[sig] = seen_sig.get(sig, 0) + 1
            if seen_sig[sig] <= 3:
                fails.append({"sig": sig, "msg": msg})

        if obs["error"]:
            if case["listener_kind"] in ("object", "partial", "nameless_method") and obs["error"].startswith("AttributeError") \
                    and ("__name__" in obs["error"] or "attribute 'name'" in obs["error"]):
                fail("listener-without-name-crashes", obs["error"])
            else:
                fail("simulation-crashed", obs["error"])
        for note in obs.get("notes") or []:
            if note.startswith("prior-failed"):
                fail("earlier-simulation-failed", f"a simulation run earlier in the process did not get as far as planned: {note}")
        cells = [e for e in obs["events"] if e["e"] == "cell"]
        seen = {(e["svc"], e["st"], e["ctx"]) for e in cells}
        # ---- completeness of the matrix (what the harness promised to exercise, from the configuration)
        if not obs["error"]:
            for svc in REQUIRED + (WITH_ARTIFACT if case["artifact"] else []):
                for st in STATES:
                    if (svc, st, "listener") not in seen:
                        fail("matrix-incomplete", f"cell {svc} x {st} was never exercised from a listener")
            want_ctx = []
            ctxs = case["contexts"]
            if case["steps"] >= 1:
                if "birth" in ctxs:
                    want_ctx += [(st, "init@birth" if case["birth_count"] else "init@birth0") for st in LOOP]
                if "nested" in ctxs:
                    want_ctx += [(st, "nested@source") for st in LOOP + ["simulation_end"]]
                    want_ctx += [(st, "nested@modifier") for st in ("time_step", "collect_metrics")]
            if "outside" in ctxs and case["drive"] != "run_simulation":
                outs = ["population_creation", "collect_metrics", "simulation_end", "report"]
                if case["drive"] in ("manual", "run_backup"):
                    outs = ["initialization", "post_setup"] + outs
                if case["drive"] == "run_backup":       # run() takes all the steps in one call
                    outs.remove("collect_metrics")
                if case["drive"] == "interactive_nosetup":
                    outs = ["initialization"] + outs
                want_ctx += [(st, "outside") for st in outs]
            have = {(e["st"], e["ctx"]) for e in cells}
            for st, cx in want_ctx:
                if (st, cx) not in have:
                    fail("matrix-incomplete", f"no call was issued in {st} from the context {cx}")
        # ---- the property's rule, cell by cell
        in_force, add_expect = custom_plan(case)
        helper1_at_setup = any(c["target"] == "helper1.m" and c.get("when", "setup") == "setup" for c in case["custom"])
        helper2_constrained = "same_name" in case["bad_adds"] and not helper1_at_setup
        for e in cells:
            svc, st, ctx, out = e["svc"], e["st"], e["ctx"], e["out"]
            if out == "unavailable":
                continue
            admitted = out.split(":")[0] == "admitted"
            where = f"{svc} in {st} [{ctx}]"
            if svc.startswith("custom:"):
                tgt = svc[len("custom:"):]
                if tgt == "helper2.m":
                    want = (st == "report") if helper2_constrained else True
                elif tgt in in_force:
                    want = custom_admits(in_force[tgt], st)
                else:
                    fail("custom-constraint-unplanned", f"{where}: the case constrains no such method")
                    continue
                if admitted != want:
                    fail(f"custom-constraint:{'admitted' if admitted else 'refused'}",
                         f"{where}: {out}; the run-time constraint {in_force.get(tgt, 'allow report')} says {'admitted' if want else 'refused'}")
                elif admitted and (out != "admitted" or e["chk"]) and not (tgt == "sub_user.get" and st in ("setup", "post_setup")):
                    # (a read through a view cannot work before anybody exists, whatever the user's constraint admits)
                    fail("admitted-call-did-not-work", f"{where}: {out} {e['chk'] or ''}")
                continue
            if svc == "pipeline@unsourced":
                if out not in ("admitted:DynamicValueError", "refused"):
                    fail("unsourced-pipeline-worked", f"{where}: {out}")
                continue
            want = rule(svc, st)
            if admitted != want:
                if out == "admitted:DynamicValueError" and base(svc) == "pipeline" and not want:
                    continue    # a pipeline whose source is not registered yet: refused all the same (no source, no constraint yet)
                if cls_of(svc) == "subview":
                    fail("subview-unconstrained", f"{where}: {out}, the property says {'admitted' if want else 'refused'}")
                else:
                    fail(f"{cls_of(svc)}:{'admitted' if admitted else 'refused'}-{phase(cls_of(svc), st)}",
                         f"{where}: {out}, the property says {'admitted' if want else 'refused'}")
                continue
            if not admitted:
                continue
            # admitted where the property admits it: the service must WORK
            if "!bad" in svc:
                if out == "admitted":
                    fail("harness-malformed-call-succeeded", f"{where}: the malformed call did not fail")
                continue
            if cls_of(svc) == "subview" or svc == "pipeline@framework":
                continue    # (the clock's step-size pipeline raises UFuncTypeError on an empty index: not this property's business)
            if base(svc) in ("view.update", "create_simulants") and st == "population_creation" and ctx == "listener" \
                    and svc != "view.update@creates_column":
                continue    # while the initial population is created an update must bring a NEW column: only @creates_column can
                #             work (and a creation nested in the initial creation fails in the first initializer for the same reason)
            if out != "admitted":
                fail("admitted-call-did-not-work", f"{where}: {out}")
            elif e["chk"]:
                fail("wrong-result", f"{where}: {e['chk']}")
        # ---- run-time add_constraint calls: the documented answer of every call
        adds = [e for e in obs["events"] if e["e"] == "add"]
        planned = [(c["target"], c["mode"], tuple(c["states"]), want) for c, want in add_expect]
        bad_expect = {}
        for k in case["bad_adds"]:
            bad_expect[k] = BAD_ADDS[k] if BAD_ADDS[k] else ("err:constraint" if helper1_at_setup else "ok")
        if not obs["error"] and any(o in case["order"] for o in "h"):
            got_custom = [(a["op"][1], a["mode"], tuple(a["states"]), a["out"]) for a in adds
                          if a["mode"] in ("allow", "restrict") and a["op"][1] in ("holder", "helper1", "helper3", "sub_user")
                          and not self._is_bad_add(a)]
            tmap = {"holder.m1": "holder", "holder.m2": "holder", "helper1.m": "helper1", "helper3.m": "helper3", "sub_user.get": "sub_user"}
            want_custom = sorted((tmap[t], m, s, w) for t, m, s, w in planned)
            if sorted(got_custom) != want_custom and case["steps"] >= 1:
                fail("add-constraint-outcome", f"run-time constraints answered {sorted(got_custom)}, expected {want_custom}")
            for a in adds:
                k = self._is_bad_add(a)
                if k and k in bad_expect and a["out"] != bad_expect[k]:
                    fail("add-constraint-outcome", f"add_constraint ({k}) answered {a['out']}, documented: {bad_expect[k]}")
        # ---- effects: a refused registration must leave no trace, an admitted one must take effect
        fin = obs.get("final") or {}
        for msg in fin.get("creator_grew") or []:
            fail("refused-call-changed-state", f"simulant creator called in {msg}; outside population creation and the time steps the "
                                               "call must be refused before anything happens")
        if not obs["error"] and fin:
            n_setup = sum(1 for e in cells if e["svc"] == "register_value_modifier" and e["st"] == "setup" and e["out"] != "unavailable")
            if fin.get("mt") != 1.0 + n_setup:
                fail("registration-effect", f"pipeline `mt`: source 1.0 and {n_setup} modifier(s) registered during setup, final value {fin.get('mt')}")
            # initializers are counted on non-empty creations only: the initial one (if anybody is created) and real births
            births = len(LOOP) if ("birth" in case["contexts"] and case["steps"] >= 1 and case["birth_count"] > 0) else 0
            initial = 1 if case["pop"] > 0 else 0
            for tag, n in sorted((fin.get("fired") or {}).items()):
                kind, _, rest = tag.partition(":")
                st = rest.split("|")[0].split(":")[-1]
                if st != "setup":
                    fail("refused-registration-had-effect", f"{tag} was registered in {st} and fired {n} time(s)")
                elif kind.startswith("listener") and n != case["steps"]:
                    fail("registration-effect", f"{tag}: fired {n} time(s) in {case['steps']} step(s)")
                elif kind == "init" and n != initial + births:
                    fail("registration-effect", f"{tag}: initializer ran {n} time(s) on somebody, expected {initial + births}")
            reg_in_setup = {e["svc"] for e in cells if e["st"] == "setup" and e["out"] == "admitted"}
            for svc, tag in (("register_listener", "listener:setup|listener"), ("register_listener@kw", "listener_kw:setup|listener"),
                             ("register_listener@manager", "listener_mgr:setup|listener"), ("initializes_simulants", "init:setup|listener")):
                if svc in reg_in_setup and tag not in (fin.get("fired") or {}) and case["steps"] >= 1 \
                        and not (tag.startswith("init") and initial + births == 0):
                    fail("registration-effect", f"{svc} was admitted during setup but {tag} never fired")
        return fails

    @staticmethod
    def _is_bad_add(a):
        """which hand-written refusal probe an add event is (None = one of the case's run-time constraints)"""
        op = a["op"]
        o, m = op[1], op[3]
        if a["mode"] == "both":
            return "both"
        if a["mode"] == "neither":
            return "neither"
        if a["mode"] == "allow" and not a["states"]:
            return "empty_tuple"
        if "no_such_state" in a["states"]:
            return "unknown_state" if a["mode"] == "allow" else "unknown_restrict"
        if o == "view":
            return "twice_view_get" if m == "get" else "twice_view_update"
        if o == "stream":
            return "twice_stream"
        if o == "v":
            return "twice_pipeline"
        if o == "table":
            return "twice_table"
        if o.endswith("randomness/manager.py"):
            return "twice_manager"
        if o.endswith("values.py"):
            return "twice_manager_values"
        if o == "fn":
            return "function"
        if m == "__call__":
            return "dunder"
        if o == "helper2":
            return "same_name"
        return None

    # ------------------------------------------------------------------------------------------------ reporting
    def nontrivial(self, case, obs):
        rs = {e["out"].split(":")[0] for e in obs["events"] if e["e"] == "cell"}
        return {"admitted", "refused"} <= rs

    def tags(self, case, obs):
        case = normalise(case)
        t = ["mode:" + case["mode"], "drive:" + case["drive"], "idx:" + case["idx"], "form:" + case["form"],
             "order:" + case["order"], "crn" if case["crn"] else "no-crn", "early" if case["early"] else "late",
             "listener:" + case["listener_kind"], "artifact" if case["artifact"] else "no-artifact"]
        t += ["ctx-requested:" + c for c in case["contexts"]]
        for k in ("late_views", "untrack", "shuffle", "as_sub"):
            if case[k]:
                t.append(k)
        if case["pop"] == 0:
            t.append("empty-population")
        if case["prior"]:
            t += ["prior:" + p.get("until", "report") for p in case["prior"]]
        if case["restore"]:
            t.append("restore:fresh-process" if case["restore"].get("fresh") else "restore:in-process")
        t += list(obs.get("notes") or [])
        for e in obs["events"]:
            if e["e"] == "cell":
                t.append(e["out"].split(":")[0])
                t.append("ctx:" + e["ctx"])
                t.append("state:" + e["st"])
                if ":" in e["out"]:
                    t.append("failed-after-check:" + e["out"].split(":")[1])
            elif e["e"] == "add":
                t.append("add_constraint:" + e["out"])
            elif e["e"] == "new" and e["out"] != "ok":
                t.append("handle-creation:" + e["out"])
        return t

    def sample_view(self, case, obs):
        cells = [e for e in obs["events"] if e["e"] == "cell"]
        return {"case": case, "cells": [[e["svc"], e["st"], e["ctx"], e["out"]] for e in cells[:12]], "n_cells": len(cells),
                "n_operations": len(obs["events"])}

    def shrink(self, case):
        c = normalise(case)
        if c["prior"]:
            yield dict(c, prior=[])
            if len(c["prior"]) > 1:
                yield dict(c, prior=c["prior"][:1])
        if c["restore"]:
            yield dict(c, restore=None)
        for x in c["contexts"]:
            yield dict(c, contexts=[y for y in c["contexts"] if y != x])
        if c["custom"]:
            yield dict(c, custom=[], bad_adds=[])
            for i in range(len(c["custom"])):
                yield dict(c, custom=c["custom"][:i] + c["custom"][i + 1:])
        if c["bad_adds"]:
            yield dict(c, bad_adds=[])
        if c["drive"] != "manual":
            yield dict(c, drive="manual")
        for k, v in (("late_views", False), ("untrack", False), ("shuffle", False), ("as_sub", False), ("n_extra", 0),
                     ("form", "pos"), ("idx", "one"), ("order", "hco"), ("artifact", False)):
            if c[k] != v and not (k == "untrack" and c["idx"] == "untracked"):
                yield dict(c, **{k: v})
        if c["steps"] > 1 and not c["restore"]:
            yield dict(c, steps=1)
        if c["pop"] > 2:
            yield dict(c, pop=2)


PROP = C07()
