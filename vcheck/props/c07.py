"""C07 — framework services are available exactly in the states that make sense.

Tie: (a) translator: every `add_constraint` call site is regenerated into Gen.constraints and the
matrix theorems of Props/C07.lean are re-decided; (b) exhaustive dynamic matrix: probe components
obtain every kind of handle during setup and issue every service call from their hooks in every
state in which a component can run code; refused (ConstraintError) / admitted is compared with the
model's `permittedAt` and with the property's own rule.
"""
from __future__ import annotations

import random

from .. import impl
from ..runner import Prop

STATES = ["setup", "post_setup", "population_creation", "time_step__prepare", "time_step", "time_step__cleanup",
          "collect_metrics", "simulation_end", "report"]
REG = {"register_listener": ("framework/event.py", "self.register_listener"),
       "register_value_producer": ("framework/values.py", "self.register_value_producer"),
       "register_value_modifier": ("framework/values.py", "self.register_value_modifier"),
       "initializes_simulants": ("framework/population/manager.py", "self.register_simulant_initializer"),
       "get_simulant_creator": ("framework/population/manager.py", "self.get_simulant_creator"),
       "get_stream": ("framework/randomness/manager.py", "self.get_randomness_stream"),
       "build_table": ("framework/lookup/manager.py", "self.build_table")}
READ = {"view.get": ("framework/population/manager.py", "view.get"),
        "pipeline": ("framework/values.py", "pipeline._call"),
        "get_draw": ("framework/randomness/manager.py", "stream.get_draw"),
        "filter_for_probability": ("framework/randomness/manager.py", "stream.filter_for_probability"),
        "filter_for_rate": ("framework/randomness/manager.py", "stream.filter_for_rate"),
        "choice": ("framework/randomness/manager.py", "stream.choice"),
        "table": ("framework/lookup/manager.py", "table.call")}
WRITE = {"view.update": ("framework/population/manager.py", "view.update"),
         "register_simulants": ("framework/randomness/manager.py", "self.register_simulants")}
SUB = {"subview.get": None, "subview.update": None}   # handles returned by PopulationView.subview (no table entry)
SERVICES = {**REG, **READ, **WRITE}
# further kinds of handle for the same services (each must obey the same rule)
VARIANTS = ["get_stream@crn", "register_value_producer@rate", "register_value_modifier@step_size", "build_table@frame",
            "pipeline@skip_post", "pipeline@rate_skip_post", "view.get@extra_query", "choice@weights", "get_draw@additional_key",
            "view.get@query", "view.get@all", "view.update@query", "view.update@all", "pipeline@rate", "pipeline@get_value",
            "sample_from_distribution", "get_draw@crn", "filter_for_probability@crn", "filter_for_rate@crn", "choice@crn",
            "sample_from_distribution@crn", "table@multi", "table@categorical", "table@interpolated"]


def base(service: str) -> str:
    return service.split("@")[0]


def rule(service: str, state: str) -> bool:
    """the property's own statement: is the service available in this state?"""
    service = base(service)
    if service == "sample_from_distribution":
        service = "get_draw"      # a stream draw; constrained through get_draw
    if service in REG:
        return state == "setup"
    if service in READ or service == "subview.get":
        return state not in ("initialization", "setup", "post_setup")
    return state not in ("initialization", "setup", "post_setup", "simulation_end", "report")


def _run_matrix(case):
    impl.load()
    import pandas as pd
    from vivarium import Component
    from vivarium.framework.engine import SimulationContext
    from vivarium.framework.lifecycle import ConstraintError

    OUT = {}
    counter = [0]
    shared = {}

    class Helper(Component):
        def __init__(self, nm):
            super().__init__()
            self._nm = nm

        @property
        def name(self):
            return self._nm

        def on_initialize_simulants(self, d):
            pass

    class Holder(Component):
        """obtains the handles (at the start or the end of its setup)"""

        def __init__(self, nm, early, n_extra):
            super().__init__()
            self._nm, self.early, self.n_extra = nm, early, n_extra

        @property
        def name(self):
            return self._nm

        @property
        def columns_created(self):
            return ["a", "k"]

        def _noise(self, b, tag):
            for j in range(self.n_extra):
                b.value.register_value_producer(f"noise_{self._nm}_{tag}_{j}", source=lambda idx: pd.Series(0.0, index=idx))
                b.randomness.get_stream(f"noise_{self._nm}_{tag}_{j}")
                b.population.get_view(["a"])

        def setup(self, b):
            if not self.early:
                self._noise(b, "pre")
            h = shared
            h["b"] = b
            h["view"] = b.population.get_view(["a"])
            h["view_q"] = b.population.get_view(["a", "tracked"], "a >= 0")
            h["sub"] = h["view"].subview(["a"])
            h["stream"] = b.randomness.get_stream("s")
            h["stream_crn"] = b.randomness.get_stream("s_crn", initializes_crn_attributes=True)
            h["pipe"] = b.value.register_value_producer("v", source=lambda idx: pd.Series(1.0, index=idx))
            h["pipe_rate"] = b.value.register_rate_producer("vr", source=lambda idx: pd.Series(0.5, index=idx))
            h["pipe_got"] = b.value.get_value("v")
            h["view_all"] = b.population.get_view([])
            h["table"] = b.lookup.build_table(3.0)
            h["table_multi"] = b.lookup.build_table((1.0, 2.0), value_columns=["p", "q"])
            h["table_cat"] = b.lookup.build_table(
                pd.DataFrame({"a": [0, 1, 2], "value": [1.0, 2.0, 3.0]}), key_columns=["a"], value_columns=["value"])
            h["table_interp"] = b.lookup.build_table(
                pd.DataFrame({"k_start": [0.0, 5.0], "k_end": [5.0, 5000.0], "value": [1.0, 2.0]}),
                parameter_columns=["k"], value_columns=["value"])
            h["state"] = b.lifecycle.current_state()
            if self.early:
                self._noise(b, "post")

        def on_initialize_simulants(self, d):
            self.population_view.update(pd.DataFrame({"a": 1, "k": [float(i) for i in d.index]}, index=d.index))

    class Caller(Component):
        """issues every service call from its hook in every state"""

        def __init__(self, nm):
            super().__init__()
            self._nm = nm

        @property
        def name(self):
            return self._nm

        def setup(self, b):
            self.b = b
            b.event.register_listener("report", lambda e: self.matrix("report"))
            self.matrix("setup")

        def svc(self):
            h, b = shared, self.b
            idx = pd.Index([0])
            counter[0] += 1
            n = counter[0]
            return {
                "register_listener": lambda: b.event.register_listener("time_step", lambda e: None),
                "register_value_producer": lambda: b.value.register_value_producer(f"v{n}", source=lambda i: 1),
                "register_value_modifier": lambda: b.value.register_value_modifier("v", lambda i, v: v),
                "initializes_simulants": lambda: b.population.initializes_simulants(Helper(f"h{n}").on_initialize_simulants),
                "get_simulant_creator": lambda: b.population.get_simulant_creator(),
                "get_stream": lambda: b.randomness.get_stream(f"s{n}"),
                "get_stream@crn": lambda: b.randomness.get_stream(f"sc{n}", initializes_crn_attributes=True),
                "register_value_producer@rate": lambda: b.value.register_rate_producer(f"vr{n}", source=lambda i: 1),
                "register_value_modifier@step_size": lambda: b.time.register_step_size_modifier(lambda i: pd.Series(pd.NaT, index=i, dtype="timedelta64[ns]")),
                "build_table": lambda: b.lookup.build_table(1.0),
                "build_table@frame": lambda: b.lookup.build_table(
                    pd.DataFrame({"a": [0, 1], "value": [1.0, 2.0]}), key_columns=["a"], value_columns=["value"]),
                "view.get": lambda: h["view"].get(idx),
                "view.get@query": lambda: h["view_q"].get(idx),
                "view.get@all": lambda: h["view_all"].get(idx),
                "view.update": lambda: h["view"].update(pd.Series(1, index=idx, name="a")),
                "view.update@query": lambda: h["view_q"].update(pd.Series(1, index=idx, name="a")),
                "view.update@all": lambda: h["view_all"].update(pd.Series(1, index=idx, name="a")),
                "subview.get": lambda: h["sub"].get(idx),
                "subview.update": lambda: h["sub"].update(pd.Series(1, index=idx, name="a")),
                "pipeline": lambda: h["pipe"](idx),
                "pipeline@rate": lambda: h["pipe_rate"](idx),
                "pipeline@get_value": lambda: h["pipe_got"](idx),
                "pipeline@skip_post": lambda: h["pipe"](idx, skip_post_processor=True),
                "pipeline@rate_skip_post": lambda: h["pipe_rate"](idx, skip_post_processor=True),
                "view.get@extra_query": lambda: h["view"].get(idx, query="a >= 0"),
                "choice@weights": lambda: h["stream"].choice(idx, [1, 2], p=[0.25, 0.75], additional_key="k"),
                "get_draw@additional_key": lambda: h["stream"].get_draw(idx, additional_key="k"),
                "get_draw": lambda: h["stream"].get_draw(idx),
                "filter_for_probability": lambda: h["stream"].filter_for_probability(idx, 0.5),
                "filter_for_rate": lambda: h["stream"].filter_for_rate(idx, 0.5),
                "choice": lambda: h["stream"].choice(idx, [1, 2]),
                "sample_from_distribution": lambda: h["stream"].sample_from_distribution(idx, ppf=lambda x: x),
                "get_draw@crn": lambda: h["stream_crn"].get_draw(idx),
                "filter_for_probability@crn": lambda: h["stream_crn"].filter_for_probability(idx, 0.5),
                "filter_for_rate@crn": lambda: h["stream_crn"].filter_for_rate(idx, 0.5),
                "choice@crn": lambda: h["stream_crn"].choice(idx, [1, 2]),
                "sample_from_distribution@crn": lambda: h["stream_crn"].sample_from_distribution(idx, ppf=lambda x: x),
                "table": lambda: h["table"](idx),
                "table@multi": lambda: h["table_multi"](idx),
                "table@categorical": lambda: h["table_cat"](idx),
                "table@interpolated": lambda: h["table_interp"](idx),
                "register_simulants": lambda: b.randomness.register_simulants(
                    pd.DataFrame({"k": [float(1000 + n)]}, index=[1000 + n])),
            }

        def matrix(self, st):
            real = shared["state"]() if "state" in shared else st
            if real != st:
                return
            if st in OUT.get("__done__", set()):
                return
            OUT.setdefault("__done__", set()).add(st)
            for name, f in self.svc().items():
                if "view" not in shared:
                    OUT[(name, st)] = "unavailable"
                    continue
                try:
                    f()
                    r = "admitted"
                except ConstraintError:
                    r = "refused"
                except Exception as e:  # noqa: BLE001 - admitted by the lifecycle, failed for another reason
                    r = "admitted:" + type(e).__name__
                OUT[(name, st)] = r

        def on_post_setup(self, e):
            self.matrix("post_setup")

        def on_initialize_simulants(self, d):
            self.matrix("population_creation")

        def on_time_step_prepare(self, e):
            self.matrix("time_step__prepare")

        def on_time_step(self, e):
            self.matrix("time_step")

        def on_time_step_cleanup(self, e):
            self.matrix("time_step__cleanup")

        def on_collect_metrics(self, e):
            self.matrix("collect_metrics")

        def on_simulation_end(self, e):
            self.matrix("simulation_end")

    holder = Holder("holder", case["early"], case["n_extra"])
    caller = holder if False else Caller("caller")
    comps = [holder, caller] if case["holder_first"] else [caller, holder]
    SimulationContext._clear_context_cache()
    cfg = {"population": {"population_size": case["pop"]},
           "time": {"start": {"year": 2020, "month": 1, "day": 1}, "end": {"year": 2020, "month": 1, "day": 1 + case["steps"]},
                    "step_size": 1}}
    if case["crn"]:
        cfg["randomness"] = {"key_columns": ["k"]}
    sim = SimulationContext(components=comps, configuration=cfg, logging_verbosity=0)
    err = None
    try:
        sim.setup()
        sim.initialize_simulants()
        sim.run()
        sim.finalize()
        sim.report(print_results=False)
    except Exception as e:  # noqa: BLE001
        err = f"{type(e).__name__}: {e}"
    OUT.pop("__done__", None)
    return {"cells": [[k[0], k[1], v] for k, v in sorted(OUT.items())], "error": err}


class C07(Prop):
    id = "C07"
    lean_modules = ["VivModel.Props.C07"]
    build_targets = ["VivModel.Model.Context", "VivModel.Model.Proto"]
    driver = "C07"
    technique = "Lean 4 proof (decide over the constraint table regenerated from every add_constraint call site) + exhaustive dynamic service x state matrix on real simulations"
    n_quick = 16
    n_thorough = 120
    rule = ("each case is a whole simulation in which probe components issue all 42 service calls (every kind of handle: plain / "
            "queried / whole-table views, sub-views, pipelines from register_value_producer / register_rate_producer / get_value, "
            "ordinary and CRN-initialising streams incl. sample_from_distribution, scalar / multi-value / categorical / interpolated "
            "lookup tables) in all 9 component-visible lifecycle states (378 cells, enumerated completely); cases vary who obtains the handles, when during setup, "
            "component order, CRN on/off, population size; non-trivial = the matrix has both admitted and refused cells")

    def boundary(self):
        out = []
        for early in (True, False):
            for first in (True, False):
                out.append({"early": early, "holder_first": first, "n_extra": 1, "crn": True, "pop": 2, "steps": 1})
        return out

    def generate(self, rng: random.Random, i: int, tier: str):
        return {"early": rng.random() < 0.5, "holder_first": rng.random() < 0.7, "n_extra": rng.randint(0, 3),
                "crn": rng.random() < 0.6, "pop": rng.randint(1, 4), "steps": rng.randint(1, 3)}

    def run_impl(self, case):
        return _run_matrix(case)

    def model_lines(self, case, obs):
        L = []
        for svc, st, _ in obs["cells"]:
            b = "get_draw" if base(svc) == "sample_from_distribution" else base(svc)
            if b in SERVICES:
                f, m = SERVICES[b]
                L.append(f"con {f} {m} {st}")
            else:
                L.append("con - subview " + st)
        return L

    def compare(self, case, obs, replies):
        dis = []
        for (svc, st, r), rep in zip(obs["cells"], replies):
            if r == "unavailable":
                continue
            got = r.split(":")[0]
            if base(svc) in SUB:
                continue   # no table entry: handled by the oracle (F10)
            if rep != got:
                dis.append(f"{svc} in {st}: implementation {r}, model {rep}")
        return dis

    def oracle(self, case, obs):
        fails = []
        if obs["error"]:
            fails.append({"sig": "simulation-crashed", "msg": obs["error"]})
        seen = {(s, st) for s, st, _ in obs["cells"]}
        # a caller placed before the holder has no handles yet in `setup`; every other cell must be present
        for svc in list(SERVICES) + list(SUB) + VARIANTS:
            for st in STATES:
                if (svc, st) not in seen:
                    fails.append({"sig": "matrix-incomplete", "msg": f"cell {svc} x {st} was never exercised"})
        for svc, st, r in obs["cells"]:
            if r == "unavailable":
                continue
            admitted = r.split(":")[0] == "admitted"
            want = rule(svc, st)
            if admitted != want:
                if base(svc) in SUB:
                    sig = "subview-unconstrained"
                else:
                    sig = f"{svc}:{'admitted' if admitted else 'refused'}-in-{st}"
                fails.append({"sig": sig, "msg": f"{svc} in {st}: {r}, the property says {'admitted' if want else 'refused'}"})
        return fails

    def nontrivial(self, case, obs):
        rs = {r.split(":")[0] for _, _, r in obs["cells"]}
        return {"admitted", "refused"} <= rs

    def tags(self, case, obs):
        t = []
        for svc, st, r in obs["cells"]:
            t.append(r.split(":")[0])
        t.append("crn" if case["crn"] else "no-crn")
        t.append("early" if case["early"] else "late")
        return t

    def sample_view(self, case, obs):
        return {"case": case, "cells": obs["cells"][:12], "n_cells": len(obs["cells"])}

    def shrink(self, case):
        if case["n_extra"]:
            yield dict(case, n_extra=0)
        if case["steps"] > 1:
            yield dict(case, steps=1)
        if case["pop"] > 1:
            yield dict(case, pop=1)


PROP = C07()
