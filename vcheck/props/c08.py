"""C08 — each step emits its four events once, in order, to every listener by priority.

Tie: translator (step / initialize_simulants / finalize skeletons, run-loop comparison, bucket count,
Event fields) + correspondence: probe listeners in real simulations log
(channel, listener, priority, clock, event.time, event.step_size, len(event.index)) and probe initializers log
SimulantData; the model (Driver/C08.lean = context skeleton + emitOrder + runLoop) predicts the same log exactly
(order inside one priority level is not compared: the framework does not guarantee it). The model is fed the
CONFIGURED start / end / step, never values read back from the clock.

Case (JSON):
  clock: simple | datetime; start, stop (ints | [y, m, d]); step (int | [num, den] days); std; pop; mode; comps: [spec]
  spec: {name, hooks: [[prio | null (= class default), id] | null (= hook not defined)] x 5 (+ optional 6th: post_setup),
         explicit: [[channel, prio | null, id, form?, kind?, ptype?]], sub?: [spec], via?: index of the component whose
         register_listener handle is used, hook_ptype?: int | np, untrack?: [[k, channel index, [simulants]]]}
  mode: run_simulation | run_simulation_call | run_backup | manual | interactive_run | interactive_run_pos | interactive_until |
        interactive_until_kw | interactive_for | interactive_take | interactive_take_kw | interactive_step |
        interactive_split (split: [a, d]) | interactive_explicit (sizes: [[x, form]]);  units of a, d, x: ticks (simple) / hours (datetime)
  step_float?: whole-day steps passed as float; prior?: an earlier case run first in the same process
"""
from __future__ import annotations

import datetime
import functools
import math
import random
import shutil
import tempfile
from fractions import Fraction

from .. import impl
from ..runner import CaseTimeout, Prop

CH = ["time_step__prepare", "time_step", "time_step__cleanup", "collect_metrics"]
HOOK_CH = CH + ["simulation_end", "post_setup"]
DAY_NS = 86_400_000_000_000
HOUR_NS = 3_600_000_000_000
LIFECYCLE_EVENTS = set(CH) | {"post_setup", "simulation_end", "report"}
UNNAMED_KINDS = ("partial", "object", "helper")      # callables without __name__ / bound to an object without .name (F34)
MODES = ["run_simulation", "run_simulation_call", "run_backup", "manual", "interactive_run", "interactive_run_pos", "interactive_until",
         "interactive_until_kw", "interactive_for", "interactive_take", "interactive_take_kw", "interactive_step"]


# ------------------------------------------------------------------------------------------------ configuration
def _configured(case):
    """start, end, step in clock ticks as CONFIGURED (step None when the day fraction is not exactly representable)"""
    if case["clock"] == "simple":
        return case["start"], case["stop"], (case.get("std") or case["step"])
    epoch = datetime.datetime(1970, 1, 1)
    t0 = int((datetime.datetime(*case["start"]) - epoch).total_seconds()) * 1_000_000_000
    stop = int((datetime.datetime(*case["stop"]) - epoch).total_seconds()) * 1_000_000_000
    num, den = case["step"]
    want = Fraction(num, den) * DAY_NS
    exact = den & (den - 1) == 0 and want.denominator == 1     # dyadic day fraction: every float operation of the conversion is exact
    return t0, stop, (int(want) if exact else None)


def _unit(case):
    return 1 if case["clock"] == "simple" else HOUR_NS


def _flat(comps):
    for c in comps:
        yield c
        yield from _flat(c.get("sub") or [])


def _explicit(e):
    """[channel, prio, id, form, kind, ptype] with defaults filled in"""
    ch, pr, lid = e[:3]
    form = e[3] if len(e) > 3 else ("default" if pr is None else "pos")
    kind = e[4] if len(e) > 4 else "lambda"
    ptype = e[5] if len(e) > 5 else "int"
    return ch, pr, lid, form, kind, ptype


def _regs(case):
    """registrations as (channel, priority, id), derived from the case alone"""
    regs = []
    for c in _flat(case["comps"]):
        for e in c["explicit"]:
            ch, pr, lid = e[:3]
            regs.append((ch, 5 if pr is None else int(pr), lid))
        for k, h in enumerate(c["hooks"]):
            if h is not None:
                regs.append((HOOK_CH[k], 5 if h[0] is None else int(h[0]), h[1]))
    return regs


def _schedule(case, t0, stop, h):
    """every step the drive must take as (clock, step size), the counts the interactive calls must return, the final clock"""
    u = _unit(case)
    sched, t, ret = [], t0, {}

    def loop(bound):
        nonlocal t
        n = 0
        while t < bound:
            sched.append((t, h))
            t += h
            n += 1
        return n
    if case["mode"] == "interactive_explicit":
        for x, _form in case["sizes"]:
            sched.append((t, x * u))
            t += x * u
        ret["after"] = loop(stop)
    elif case["mode"] == "interactive_split":
        a, d = case["split"]
        n1 = loop(t0 + a * u)
        n2 = loop(t + d * u)
        ret["split"] = [n1, n2, loop(stop)]
    else:
        ret["n"] = loop(stop)
    return sched, ret, t


# ------------------------------------------------------------------------------------------------ implementation
def _run(case, keep):
    impl.load()
    import numpy as np
    import pandas as pd
    from vivarium import Component
    from vivarium.framework.engine import SimulationContext
    from vivarium.interface.interactive import InteractiveContext

    LOG, INIT, HANDLES = [], [], {}

    def tick(x):
        if isinstance(x, (pd.Timestamp, pd.Timedelta)):
            return int(x.value)
        return int(x)

    def record(clock, ch, lid, pr, e):
        LOG.append([ch, lid, pr, tick(clock()), tick(e.time), tick(e.step_size), len(e.index) if e.index is not None else -1])

    def ptyped(p, ptype):
        if ptype == "np":
            return np.int64(p)
        if ptype == "np8":
            return np.int8(p)
        if ptype == "bool" and p in (0, 1):
            return bool(p)
        return p

    class CallableListener:                     # a callable OBJECT (no __name__)
        def __init__(self, f):
            self.f = f

        def __call__(self, e):
            self.f(e)

    class Helper:                               # a bound method of an object that is not a component (no .name)
        def __init__(self, f):
            self.f = f

        def listen(self, e):
            self.f(e)

    class NamedHelper(Helper):                  # … and of one that has a name
        name = "named_helper"

    def partial_target(f, e):
        f(e)

    def make_class(spec, index):
        ns = {}
        hooks = spec["hooks"]
        prio_props = ["time_step_prepare_priority", "time_step_priority", "time_step_cleanup_priority", "collect_metrics_priority",
                      "simulation_end_priority", "post_setup_priority"]
        hook_names = ["on_time_step_prepare", "on_time_step", "on_time_step_cleanup", "on_collect_metrics", "on_simulation_end", "on_post_setup"]
        hp = spec.get("hook_ptype", "int")
        for k, h in enumerate(hooks):
            if h is None:
                continue                        # hook not defined: nothing is registered for it
            pr, lid = h
            if pr is not None:                  # else: the Component default (5)
                ns[prio_props[k]] = property(lambda self, pr=pr: ptyped(pr, hp))

            def hook(self, e, k=k, lid=lid, pr=pr):
                record(self.clock, HOOK_CH[k], lid, 5 if pr is None else pr, e)
                self.act(k)
            ns[hook_names[k]] = hook

        def __init__(self):
            Component.__init__(self)
            self.count = {}
            self._subs = [make_class(s, None)() for s in spec.get("sub") or []]

        def setup(self, b):
            self.clock = b.time.clock()
            HANDLES[index] = b.event.register_listener
            reg = HANDLES.get(spec.get("via"), b.event.register_listener) if spec.get("via") is not None else b.event.register_listener
            if spec.get("untrack"):
                self.view = b.population.get_view(["tracked"])
            for e in spec["explicit"]:
                ch, pr, lid, form, kind, ptype = _explicit(e)
                base = (lambda ev, ch=ch, lid=lid, pr=pr: record(self.clock, ch, lid, 5 if pr is None else pr, ev))
                if kind == "lambda":
                    f = base
                elif kind == "function":
                    def f(ev, base=base):
                        base(ev)
                elif kind == "method":          # a bound method of the component itself
                    import types
                    f = types.MethodType(lambda self_, ev, base=base: base(ev), self)
                    f.__func__.__name__ = f"listener_{lid}"
                elif kind == "named-helper":
                    f = NamedHelper(base).listen
                elif kind == "helper":
                    f = Helper(base).listen
                elif kind == "object":
                    f = CallableListener(base)
                elif kind == "partial":
                    f = functools.partial(partial_target, base)
                else:
                    raise ValueError("listener kind " + kind)
                if form == "default" or pr is None:
                    reg(name=ch, listener=f) if form == "kw" else reg(ch, f)
                elif form == "kw":
                    reg(name=ch, listener=f, priority=ptyped(pr, ptype))
                elif form == "kwprio":
                    reg(ch, f, priority=ptyped(pr, ptype))
                else:
                    reg(ch, f, ptyped(pr, ptype))

        def act(self, k):
            n = self.count.get(k, 0)
            self.count[k] = n + 1
            for step_k, chan, ids in spec.get("untrack") or []:
                if chan == k and step_k == n and ids:
                    self.view.update(pd.Series(False, index=pd.Index(ids), name="tracked"))

        def on_initialize_simulants(self, d):
            INIT.append([spec["name"], tick(self.clock()), tick(d.creation_time), tick(d.creation_window), len(d.index)])

        ns.update(__init__=__init__, setup=setup, act=act, on_initialize_simulants=on_initialize_simulants,
                  name=property(lambda self: spec["name"]), sub_components=property(lambda self: self._subs))
        return type("L_" + spec["name"], (Component,), ns)

    comps = [make_class(s, i)() for i, s in enumerate(case["comps"])]
    cfg = {"population": {"population_size": case["pop"]}}
    plug = None
    if case["clock"] == "simple":
        cfg["time"] = {"start": case["start"], "end": case["stop"], "step_size": case["step"]}
        if case.get("std"):
            cfg["time"]["standard_step_size"] = case["std"]
        plug = {"required": {"clock": {"controller": "vivarium.framework.time.SimpleClock",
                                       "builder_interface": "vivarium.framework.time.TimeInterface"}}}
    else:
        y0, m0, d0 = case["start"]
        y1, m1, d1 = case["stop"]
        num, den = case["step"]
        step = num / den if den != 1 else (float(num) if case.get("step_float") else num)
        cfg["time"] = {"start": {"year": y0, "month": m0, "day": d0}, "end": {"year": y1, "month": m1, "day": d1}, "step_size": step}
        if case.get("std"):
            cfg["time"]["standard_step_size"] = case["std"]
    SimulationContext._clear_context_cache()
    mode = case["mode"]
    out = {"error": None}
    t0c, stopc, hc = _configured(case)
    u = _unit(case)
    if case["clock"] == "simple":
        T, D = (lambda x: int(x)), (lambda x: int(x))
    else:
        T, D = (lambda x: pd.Timestamp(x)), (lambda x: pd.Timedelta(x))
    tmp = None
    try:
        if not mode.startswith("interactive"):
            sim = SimulationContext(components=comps, configuration=cfg, plugin_configuration=plug, logging_verbosity=0)
            keep.append(sim)
            if mode == "run_simulation_call":
                sim.run_simulation()            # the wrapper itself (report() with its default argument)
                out["t0"], out["stop"], out["h"] = None, tick(sim._clock.stop_time), tick(sim._clock.step_size)
            else:
                sim.setup()
                sim.initialize_simulants()
                out["t0"], out["stop"], out["h"] = tick(sim._clock.time), tick(sim._clock.stop_time), tick(sim._clock.step_size)
                if mode == "run_simulation":
                    sim.run()
                elif mode == "run_backup":      # the second copy of the loop
                    import pathlib
                    tmp = tempfile.mkdtemp(prefix="c08-")
                    sim.run(backup_path=pathlib.Path(tmp) / "backup.pkl", backup_freq=1e9)
                else:
                    while sim.current_time < T(stopc):
                        sim.step()
                sim.finalize()
                sim.report(print_results=False)
        else:
            sim = InteractiveContext(components=comps, configuration=cfg, plugin_configuration=plug, logging_verbosity=0)
            keep.append(sim)
            out["t0"], out["stop"], out["h"] = tick(sim._clock.time), tick(sim._clock.stop_time), tick(sim._clock.step_size)
            h = hc if hc is not None else out["h"]
            n = max(0, math.ceil(Fraction(stopc - t0c, h))) if h > 0 else 0
            if mode == "interactive_run":
                out["returned_steps"] = sim.run(with_logging=False)
            elif mode == "interactive_run_pos":
                out["returned_steps"] = sim.run(False)
            elif mode == "interactive_until":
                out["returned_steps"] = sim.run_until(T(stopc), with_logging=False)
            elif mode == "interactive_until_kw":
                out["returned_steps"] = sim.run_until(end_time=T(stopc), with_logging=False)
            elif mode == "interactive_for":
                out["returned_steps"] = sim.run_for(D(stopc - t0c), with_logging=False)
            elif mode == "interactive_take":
                sim.take_steps(n, with_logging=False)
            elif mode == "interactive_take_kw":
                sim.take_steps(number_of_steps=n, step_size=None, with_logging=False)
            elif mode == "interactive_step":
                while sim.current_time < T(stopc):
                    sim.step()
            elif mode == "interactive_split":
                a, d = case["split"]
                r1 = sim.run_until(T(t0c + a * u), with_logging=False)
                r2 = sim.run_for(duration=D(d * u), with_logging=False)
                out["returned_split"] = [r1, r2, sim.run(with_logging=False)]
            elif mode == "interactive_explicit":
                for x, form in case["sizes"]:
                    if form == "kw":
                        sim.step(step_size=D(x * u))
                    elif form == "take":
                        sim.take_steps(1, D(x * u), False)
                    else:
                        sim.step(D(x * u))
                out["step_after_explicit"] = tick(sim._clock.step_size)
                out["returned_after"] = sim.run(with_logging=False)
            else:
                raise ValueError("mode " + mode)
            sim.finalize()
            sim.report(print_results=False)
            # the registrations as the interactive API lists them: {channel: {priority: number of listeners}}
            out["listed"] = {ch: {str(int(p)): len(ls) for p, ls in sim.get_listeners(ch).items()} for ch in HOOK_CH + ["report"]}
        out["final_clock"] = tick(sim._clock.time)
    except CaseTimeout:
        raise
    except Exception as e:  # noqa: BLE001
        out["error"] = f"{type(e).__name__}: {e}"
    finally:
        if tmp:
            shutil.rmtree(tmp, ignore_errors=True)
    out["log"], out["init"] = LOG, INIT
    return out


def _canon(calls):
    """group consecutive calls of one emission (same channel, same clock) and sort inside a priority level"""
    out, i = [], 0
    while i < len(calls):
        j = i
        while j < len(calls) and calls[j][0] == calls[i][0] and calls[j][3] == calls[i][3]:
            j += 1
        grp = calls[i:j]
        # stable within priority, then by id
        k = 0
        while k < len(grp):
            m = k
            while m < len(grp) and grp[m][2] == grp[k][2]:
                m += 1
            out += sorted(grp[k:m], key=lambda c: c[1])
            k = m
        i = j
    return out


class C08(Prop):
    id = "C08"
    lean_modules = ["VivModel.Props.C08", "VivModel.Props.C08Src"]
    build_targets = ["VivModel.Model.Events", "VivModel.Model.Proto"]
    driver = "C08"
    technique = "Lean 4 proof (induction over registration lists and over the run loop; decide/rfl over skeletons regenerated from engine.py/event.py) + translator + exact listener-log correspondence on real simulations"
    n_quick = 170
    n_thorough = 2500
    workers = 4
    rule = ("each case is a whole simulation: 1-4 probe components (hooks defined or not, own or default priorities, sub-components, "
            "registrations through every call form / callable kind / another component's handle, priority 0-9 or default), SimpleClock or "
            "DateTimeClock (any start date, whole, dyadic-fractional and other fractional day steps, ends not a multiple of the step), driven by "
            "run / run(backup) / run_simulation() / manual step() / InteractiveContext run, run_until, run_for, take_steps, step loops, split runs, "
            "explicit step sizes; optionally untracking listeners and an earlier, differently configured simulation in the same process; "
            "distinct by case hash; non-trivial = at least one step taken and two different priorities on one channel")

    # ------------------------------------------------------------------ generation
    def _comp(self, rng, k, lid, rich=False):
        hooks = []
        for j in range(5):
            if rich and rng.random() < 0.25:
                hooks.append(None)                                  # hook not defined
                continue
            pr = rng.randint(0, 9) if rng.random() < 0.8 else 5
            if rich and rng.random() < 0.2:
                pr = None                                           # the Component default
            hooks.append([pr, lid[0]])
            lid[0] += 1
        if rich and rng.random() < 0.5:
            hooks.append([rng.choice([None, 0, 3, 9]), lid[0]])    # on_post_setup
            lid[0] += 1
        explicit = []
        for _ in range(rng.randint(0, 3)):
            e = [rng.choice(CH + CH + ["simulation_end", "post_setup", "report"]), rng.choice([None] + list(range(10))), lid[0]]
            if rich:
                pr = e[1]
                e += [rng.choice(["default"] if pr is None else ["pos", "kw", "kwprio"]) if rng.random() < 0.8 else "kw",
                      rng.choice(["lambda", "function", "method", "named-helper", "object", "partial", "helper"]),
                      rng.choice(["int", "np", "np8"] + (["bool"] if pr in (0, 1) else []))]
            explicit.append(e)
            lid[0] += 1
        spec = {"name": f"c{k}", "hooks": hooks, "explicit": explicit}
        if rich and rng.random() < 0.3:
            spec["hook_ptype"] = "np"
        return spec

    def _clock_cfg(self, rng, dates=False):
        if rng.random() < 0.45:
            st = rng.randint(0, 5)
            h = rng.randint(1, 4)
            en = st + rng.randint(0, 13)
            std = rng.choice([None, None, h, h + rng.randint(1, 3), max(1, h - 1)])
            return {"clock": "simple", "start": st, "stop": en, "step": h, "std": std}
        num, den = rng.choice([(1, 1), (1, 2), (9, 4), (61, 2), (7, 1), (3, 8), (1, 3), (5, 1), (10, 3),
                               (1, 16), (3, 32), (3, 10), (1, 10), (13, 10), (7, 10), (13, 50), (21, 16), (2, 1)])
        days = rng.randint(0, 40)
        d0 = datetime.date(2020, 1, 1)
        if dates or rng.random() < 0.4:        # leap days, month and year ends
            d0 = rng.choice([datetime.date(2020, 2, 28), datetime.date(2019, 2, 28), datetime.date(2023, 12, 31), datetime.date(2024, 2, 29),
                             datetime.date(2021, 12, 25), datetime.date(2005, 7, 2), datetime.date(1999, 12, 31), datetime.date(2022, 3, 31)]) \
                + datetime.timedelta(days=rng.randint(-2, 2))
        d1 = d0 + datetime.timedelta(days=days)
        out = {"clock": "datetime", "start": [d0.year, d0.month, d0.day], "stop": [d1.year, d1.month, d1.day],
               "step": [num, den], "std": rng.choice([None, None, None, 2, 5, 0.5, 1.5])}
        if den == 1 and rng.random() < 0.5:
            out["step_float"] = True
        return out

    def _duration(self, case):
        """(duration, step) in units of the case (ticks / hours); step None when not a whole number of units"""
        t0, stop, h = _configured(case)
        u = _unit(case)
        return (stop - t0) // u, (h // u if h is not None and h % u == 0 else None)

    def generate(self, rng: random.Random, i: int, tier: str):
        lid = [0]
        gmode = rng.choice(["classic", "classic", "classic", "forms", "forms", "prio0", "untrack", "explicit", "split", "prior", "empty"])
        rich = gmode in ("forms", "prio0", "prior") or rng.random() < 0.25
        comps = [self._comp(rng, k, lid, rich) for k in range(rng.randint(1, 4))]
        if gmode == "empty":                    # channels nobody listens to, components without any hook
            for c in comps:
                c["hooks"] = [None if rng.random() < 0.7 else h for h in c["hooks"]]
            if rng.random() < 0.3:
                comps = [{"name": "c0", "hooks": [None] * 5, "explicit": []}]
        if rich:
            for k, c in enumerate(comps):
                if k and rng.random() < 0.35:
                    c["via"] = rng.randrange(k)                     # registrations through a handle another component obtained
                if rng.random() < 0.25:
                    c["sub"] = [dict(self._comp(rng, 0, lid, True), name=f"c{k}s{j}") for j in range(rng.randint(1, 2))]
        case = dict(self._clock_cfg(rng, dates=(gmode == "forms")), comps=comps, mode=rng.choice(MODES), pop=rng.choice([0, 1, 2, 5]))
        dur, hu = self._duration(case)
        if gmode == "prio0":
            # a listener asking for priority 0 and, on the same channel, competitors at 1-5 registered BEFORE it
            ch = rng.choice(CH)
            first = {"name": "early", "hooks": [None] * 5,
                     "explicit": [[ch, p, 900 + j, rng.choice(["pos", "kw", "kwprio"]), "lambda", "int"] for j, p in enumerate(rng.sample([1, 2, 3, 4, 5, None], 3))]}
            zero = {"name": "zero", "hooks": [None] * 5,
                    "explicit": [[ch, 0, 950, rng.choice(["pos", "kw", "kwprio"]), rng.choice(["lambda", "function"]), rng.choice(["int", "np", "bool"])]]}
            if rng.random() < 0.5:             # … or through the component's priority property
                zero = {"name": "zero", "hooks": [[0, 950] if CH[j] == ch else None for j in range(4)] + [None], "explicit": [],
                        "hook_ptype": rng.choice(["int", "np"])}
            case["comps"] = [first, zero] + comps[:2]
        elif gmode == "untrack" and case["pop"] >= 1:
            c = case["comps"][0]
            c["hooks"] = [h if h is not None else [5, 800 + j] for j, h in enumerate(c["hooks"][:5])] + c["hooks"][5:]
            c["untrack"] = [[rng.randint(0, 2), rng.randrange(3), sorted(rng.sample(range(case["pop"]), rng.randint(1, case["pop"])))]
                            for _ in range(rng.randint(1, 2))]
            case["mode"] = rng.choice(MODES)
        elif gmode == "explicit" and hu:
            case["mode"] = "interactive_explicit"
            case["sizes"] = [[rng.choice([1, 2, 3, hu, hu + 1, 2 * hu, max(1, hu - 1), 7, 36]), rng.choice(["pos", "kw", "take"])]
                             for _ in range(rng.randint(1, 4))]
        elif gmode == "split" and hu and dur > 0:
            a = rng.randint(0, dur)
            n1 = -(-a // hu)
            room = dur - n1 * hu
            case["mode"] = "interactive_split"
            case["split"] = [a, rng.randint(0, room) if room > 0 else 0]
        elif gmode == "prior":
            plid = [500]
            case["prior"] = dict(self._clock_cfg(rng), comps=[self._comp(rng, k, plid, rng.random() < 0.5) for k in range(rng.randint(1, 2))],
                                 mode=rng.choice(MODES), pop=rng.choice([0, 1, 3]))
            for c in case["prior"]["comps"]:
                c["name"] = "p" + c["name"]
        return case

    def boundary(self):
        lid = [0]
        rng = random.Random(8)
        comps = [self._comp(rng, 0, lid), self._comp(rng, 1, lid)]
        out = []
        for mode in ["run_simulation", "manual", "interactive_run", "interactive_until", "interactive_for", "interactive_take"]:
            out.append({"clock": "simple", "start": 0, "stop": 10, "step": 3, "comps": comps, "mode": mode, "pop": 2})   # end not a multiple
            out.append({"clock": "simple", "start": 2, "stop": 8, "step": 2, "comps": comps, "mode": mode, "pop": 1})    # exact multiple
            out.append({"clock": "datetime", "start": [2020, 1, 1], "stop": [2020, 1, 4], "step": [1, 2], "comps": comps, "mode": mode, "pop": 2})
        out.append({"clock": "simple", "start": 5, "stop": 5, "step": 1, "comps": comps, "mode": "run_simulation", "pop": 2})   # nothing to do
        for mode in ("run_simulation", "interactive_run"):     # the clock's step is the STANDARD step, not the minimum one
            out.append({"clock": "simple", "start": 0, "stop": 10, "step": 1, "std": 3, "comps": comps[:1], "mode": mode, "pop": 2})
            out.append({"clock": "simple", "start": 2, "stop": 11, "step": 2, "std": 1, "comps": comps[:1], "mode": mode, "pop": 1})
        for st in ([1, 16], [3, 10], [13, 10], [1, 10]):      # day fractions that are not a whole number of hours
            out.append({"clock": "datetime", "start": [2020, 1, 1], "stop": [2020, 1, 3], "step": st, "comps": comps[:1],
                        "mode": "run_simulation", "pop": 1})
        # all ten priorities on one channel, registered in descending order
        allp = {"name": "allp", "hooks": [[5, 100 + k] for k in range(5)],
                "explicit": [["time_step", 9 - p, 200 + p] for p in range(10)] + [["time_step", 9 - p, 300 + p] for p in range(10)]}
        out.append({"clock": "simple", "start": 0, "stop": 2, "step": 1, "comps": [allp], "mode": "run_simulation", "pop": 2})
        # --- LESSONS audit -------------------------------------------------------------------------------------
        s10 = {"clock": "simple", "start": 0, "stop": 10, "step": 3, "pop": 2}
        for mode in MODES:                                      # every entry point and call form, one fixed configuration
            out.append(dict(s10, comps=comps, mode=mode))
            out.append({"clock": "datetime", "start": [2024, 2, 28], "stop": [2024, 3, 2], "step": [3, 4], "comps": comps[:1], "mode": mode, "pop": 1})
        # every call form of register_listener x every callable kind that has a name, every priority type
        forms = {"name": "forms", "hooks": [None, [None, 400], None, [7, 401], [None, 402], [0, 403]], "hook_ptype": "np",
                 "explicit": [["time_step", 3, 410, "pos", "lambda", "int"], ["time_step", 3, 411, "kw", "function", "np"],
                              ["time_step", 1, 412, "kwprio", "method", "bool"], ["time_step", 0, 413, "pos", "named-helper", "bool"],
                              ["time_step", None, 414, "default", "function", "int"], ["time_step", None, 415, "kw", "method", "int"],
                              ["time_step", 9, 416, "kw", "lambda", "np8"], ["post_setup", 0, 417, "pos", "lambda", "np"],
                              ["report", 2, 418, "kwprio", "function", "int"], ["simulation_end", None, 419, "default", "named-helper", "int"],
                              # F34: callables without __name__, a bound method of an object without .name
                              ["time_step", 6, 440, "pos", "object", "int"], ["time_step", 2, 441, "kw", "partial", "np"],
                              ["time_step", None, 442, "default", "helper", "int"], ["post_setup", 1, 443, "kwprio", "partial", "int"],
                              ["simulation_end", 0, 444, "pos", "object", "bool"], ["report", 9, 445, "kw", "helper", "int"]]}
        other = {"name": "other", "via": 0, "hooks": [[2, 420], None, None, None, None],
                 "explicit": [["time_step", 0, 421, "pos", "lambda", "int"], ["time_step__cleanup", 4, 422, "kw", "lambda", "int"]],
                 "sub": [{"name": "child", "hooks": [None, [1, 430], [None, 431], None, None, [9, 432]], "explicit": [["time_step", 2, 433]]}]}
        for mode in ("run_simulation_call", "interactive_step", "run_backup"):
            out.append(dict(s10, comps=[forms, other], mode=mode))
        # priority 0 behind earlier registrations at 1-5 (explicit, keyword, bool False, component property)
        early = {"name": "early", "hooks": [None] * 5, "explicit": [["time_step", 4, 900], ["time_step", None, 901], ["time_step", 1, 902, "kw", "lambda", "int"]]}
        for zero in ({"name": "zero", "hooks": [None] * 5, "explicit": [["time_step", 0, 950, "pos", "lambda", "int"]]},
                     {"name": "zero", "hooks": [None] * 5, "explicit": [["time_step", 0, 950, "kw", "lambda", "bool"]]},
                     {"name": "zero", "hooks": [None, [0, 950], None, None, None], "explicit": []}):
            out.append(dict(s10, stop=3, comps=[early, zero], mode="run_simulation"))
        # nobody listens / a single listener / components without hooks
        out.append(dict(s10, comps=[{"name": "mute", "hooks": [None] * 5, "explicit": []}], mode="run_simulation_call"))
        out.append(dict(s10, comps=[{"name": "one", "hooks": [None] * 5, "explicit": [["collect_metrics", 9, 1]]}], mode="interactive_run", pop=0))
        # untracking listeners: every later event still reaches everybody (both kinds of context)
        unt = {"name": "unt", "hooks": [[5, 1], [2, 2], [5, 3], [5, 4], [5, 5]], "explicit": [["report", None, 6]],
               "untrack": [[0, 1, [0, 2]], [1, 0, [1]]]}
        for mode in ("run_simulation", "interactive_run", "interactive_step", "run_simulation_call"):
            out.append(dict(s10, pop=3, comps=[unt, comps[0]], mode=mode))
        # explicit step sizes (positional, keyword, through take_steps) and split runs
        out.append(dict(s10, comps=comps, mode="interactive_explicit", sizes=[[5, "pos"], [1, "kw"], [3, "take"]]))
        out.append(dict(s10, comps=comps[:1], mode="interactive_explicit", sizes=[[12, "kw"]]))                 # one step beyond the end
        out.append({"clock": "datetime", "start": [2020, 2, 28], "stop": [2020, 3, 2], "step": [1, 2], "comps": comps[:1], "pop": 1,
                    "mode": "interactive_explicit", "sizes": [[36, "pos"], [1, "take"], [12, "kw"]]})
        out.append(dict(s10, comps=comps, mode="interactive_split", split=[4, 2]))
        out.append(dict(s10, comps=comps[:1], mode="interactive_split", split=[0, 0]))
        out.append(dict(s10, comps=comps[:1], mode="interactive_split", split=[10, 0]))
        out.append({"clock": "datetime", "start": [2023, 12, 31], "stop": [2024, 1, 3], "step": [3, 8], "comps": comps[:1], "pop": 2,
                    "mode": "interactive_split", "split": [30, 20]})
        # whole-day steps given as float, a standard step on the DateTimeClock (ignored without per-simulant clocks)
        out.append({"clock": "datetime", "start": [2024, 2, 27], "stop": [2024, 3, 8], "step": [2, 1], "step_float": True, "std": 1.5,
                    "comps": comps[:1], "mode": "run_simulation_call", "pop": 1})
        # an earlier, differently configured simulation in the same process (other listeners, other clock)
        prior = {"clock": "datetime", "start": [2020, 1, 1], "stop": [2020, 1, 3], "step": [1, 2], "pop": 1, "mode": "interactive_run",
                 "comps": [{"name": "earlier", "hooks": [[0, 700], [9, 701], [5, 702], [5, 703], [5, 704]],
                            "explicit": [["time_step", 0, 705], ["time_step__prepare", 9, 706], ["report", 1, 707]]}]}
        out.append(dict(s10, comps=comps, mode="run_simulation", prior=prior))
        out.append(dict(s10, comps=[forms, other], mode="interactive_until", prior=dict(prior, mode="run_simulation_call")))
        return out

    def shrink(self, case):
        # (the earlier simulation of a case is never shrunk away: the shrinker runs in a process that has already seen
        # other cases, so a failure that needs process history would survive the removal there and not replay)
        if case.get("std"):
            yield dict(case, std=None)
        if len(case["comps"]) > 1:
            for i in range(len(case["comps"])):
                rest = case["comps"][:i] + case["comps"][i + 1:]
                if not any(c.get("via") is not None for c in rest):
                    yield dict(case, comps=rest)
        for i, c in enumerate(case["comps"]):
            if c.get("sub"):
                yield dict(case, comps=case["comps"][:i] + [{k: v for k, v in c.items() if k != "sub"}] + case["comps"][i + 1:])
            if c["explicit"]:
                yield dict(case, comps=case["comps"][:i] + [dict(c, explicit=c["explicit"][:-1])] + case["comps"][i + 1:])
            if any(len(e) > 3 for e in c["explicit"]):
                yield dict(case, comps=case["comps"][:i] + [dict(c, explicit=[e[:3] for e in c["explicit"]])] + case["comps"][i + 1:])
        if case["clock"] == "simple" and case["stop"] - case["start"] > (case.get("std") or case["step"]) and case["mode"] not in ("interactive_split",):
            yield dict(case, stop=case["start"] + (case.get("std") or case["step"]))
        if case["mode"] not in ("run_simulation", "interactive_explicit", "interactive_split"):
            yield dict(case, mode="run_simulation")
        if case["mode"] == "interactive_explicit" and len(case["sizes"]) > 1:
            yield dict(case, sizes=case["sizes"][:-1])

    def run_impl(self, case):
        keep = []
        if case.get("prior"):
            try:
                _run(case["prior"], keep)       # really runs, with its own configuration; its context stays alive
            except CaseTimeout:
                raise
            except Exception:  # noqa: BLE001
                pass
        return _run(case, keep)

    def _regs(self, case):
        return _regs(case)

    # ------------------------------------------------------------------ model
    def _times(self, case, obs):
        """start, end, step fed to the model: the CONFIGURED values (the observed step only for inexact day fractions)"""
        t0, stop, h = _configured(case)
        return t0, stop, (h if h is not None else obs.get("h"))

    def model_lines(self, case, obs):
        t0, stop, h = self._times(case, obs)
        if h is None:
            return []
        L = [f"reg {ch} {p} {i}" for ch, p, i in _regs(case)]
        if case["mode"] == "interactive_explicit":
            u = _unit(case)
            L.append(f"xsim {t0} {h} {stop} {','.join(str(x * u) for x, _ in case['sizes'])}")
        else:
            L.append(f"sim {t0} {h} {stop}")
        L.append(f"steps {t0} {h} {stop}")
        L.append(f"until {t0} {h} {stop}")
        if case["mode"] == "interactive_split":
            u = _unit(case)
            L.append(f"split {t0} {h} {stop} {t0 + case['split'][0] * u} {case['split'][1] * u}")
        return L

    def compare(self, case, obs, replies):
        dis = []
        n = len(_regs(case))
        if any(r != "ok" for r in replies[:n]):
            dis.append("model refused a registration")
        t = replies[n].split()
        if obs["error"] or t[0] != "ok":
            # a run of zero steps cannot be finalized (the lifecycle needs one pass through the main loop): both refuse
            if obs["error"] and obs["error"].startswith("InvalidTransitionError") and t[0] == "err":
                return dis
            return dis + [f"implementation: {obs['error']}; model: {replies[n][:60]}"]
        mclock, mcreates = int(t[1]), ([] if t[2] == "-" else [int(x) for x in t[2].split(",")])
        mcalls = [] if t[3] == "-" else [c.split(":") for c in t[3].split(",")]
        mcalls = [[c[0], int(c[1]), int(c[2]), int(c[3]), int(c[4]), int(c[5])] for c in mcalls]
        icalls = [c[:6] for c in obs["log"]]
        if _canon(icalls) != _canon(mcalls):
            a, b = _canon(icalls), _canon(mcalls)
            k = next((k for k, (x, y) in enumerate(zip(a, b)) if x != y), min(len(a), len(b)))
            dis.append(f"listener log differs at call #{k}: impl {a[k] if k < len(a) else None}, model {b[k] if k < len(b) else None} "
                       f"(lengths {len(a)}/{len(b)})")
        if obs["final_clock"] != mclock:
            dis.append(f"final clock: impl {obs['final_clock']}, model {mclock}")
        if {i[1] for i in obs["init"]} != set(mcreates) and obs["init"]:
            dis.append(f"creation clock: impl {sorted({i[1] for i in obs['init']})}, model {mcreates}")
        nsteps = int(replies[n + 1].split()[0])
        if "returned_steps" in obs and obs["returned_steps"] != nsteps:
            dis.append(f"steps returned by the interactive API {obs['returned_steps']} vs model run loop {nsteps}")
        if "returned_steps" in obs and obs["returned_steps"] != max(int(replies[n + 2]), 0):
            dis.append(f"steps returned by the interactive API {obs['returned_steps']} vs model ceilDiv {replies[n + 2]}")
        if "returned_split" in obs:
            m = [int(x) for x in replies[n + 3].split()]
            if obs["returned_split"] != m[:3] or obs["final_clock"] != m[3]:
                dis.append(f"split run: impl returned {obs['returned_split']} final clock {obs['final_clock']}, model {m}")
        return dis

    # ------------------------------------------------------------------ oracle (the property itself)
    def oracle(self, case, obs):
        f = []
        t0c, stopc, hc = _configured(case)
        kinds = {_explicit(e)[4] for c in _flat(case["comps"]) for e in c["explicit"]}
        user_channels = {e[0] for c in _flat(case["comps"]) for e in c["explicit"]} - LIFECYCLE_EVENTS
        if obs["error"]:
            if stopc <= t0c and obs["error"].startswith("InvalidTransitionError"):
                return []   # zero steps: simulation_end is not a legal successor of population_creation (C06); excluded
            if kinds & set(UNNAMED_KINDS) and obs["error"].startswith("AttributeError"):
                return [{"sig": "unnamed-listener-kills-setup", "msg": f"listener kinds {sorted(kinds)}: {obs['error']}"}]
            if user_channels and obs["error"].startswith("LifeCycleError"):
                return [{"sig": "user-channel-kills-setup", "msg": f"channels {sorted(user_channels)}: {obs['error']}"}]
            return [{"sig": "simulation-raised", "msg": obs["error"]}]
        t0, stop, h = obs["t0"], obs["stop"], obs["h"]
        if h <= 0:
            return [{"sig": "nonpositive-step", "msg": str(h)}]
        # start, end and step as CONFIGURED (not as read back from the clock)
        if (t0 is not None and t0 != t0c) or stop != stopc or (hc is not None and h != hc):
            f.append({"sig": "configured-times", "msg": f"clock after creation {t0}, stop {stop}, step {h}; configured start {t0c}, "
                      f"end {stopc}, step {hc}"})
        if case["clock"] == "datetime":
            num, den = case["step"]
            want = Fraction(num, den) * DAY_NS
            if hc is None and abs(want - h) > 1000:     # inexact fraction: within 1 microsecond of the configured step
                f.append({"sig": "step-conversion", "msg": f"configured {num}/{den} days = {float(want)} ns, clock step {h} ns"})
        h = hc if hc is not None else h
        sched, ret, t_end = _schedule(case, t0c, stopc, h)
        regs = _regs(case)
        calls = obs["log"]
        pop = case["pop"]
        # expected emissions in order: post_setup (once, before the population exists), the steps, simulation_end, report
        want_ps = sorted([(p, i) for c, p, i in regs if c == "post_setup"])
        grp = calls[:len(want_ps)]
        pos = len(want_ps)
        if sorted((c[2], c[1]) for c in grp) != want_ps or any(c[0] != "post_setup" for c in grp):
            f.append({"sig": "listener-set", "msg": f"post_setup: called {[(c[0], c[1], c[2]) for c in grp]}, registered {want_ps}"})
            return f
        if any(a[2] > b[2] for a, b in zip(grp, grp[1:])):
            f.append({"sig": "priority-order", "msg": f"post_setup: priorities {[c[2] for c in grp]}"})
        for k, (clock, size) in enumerate(sched):
            for ch in CH:
                want = sorted([(p, i) for c, p, i in regs if c == ch])
                grp = calls[pos:pos + len(want)]
                pos += len(want)
                if sorted((c[2], c[1]) for c in grp) != want or any(c[0] != ch for c in grp):
                    f.append({"sig": "listener-set", "msg": f"step {k} {ch}: called {[(c[0], c[1], c[2]) for c in grp]}, registered {want}"})
                    return f
                if any(a[2] > b[2] for a, b in zip(grp, grp[1:])):
                    f.append({"sig": "priority-order", "msg": f"step {k} {ch}: priorities {[c[2] for c in grp]}"})
                for c in grp:
                    if c[3] != clock or c[4] != clock + size or c[5] != size:
                        f.append({"sig": "event-fields", "msg": f"step {k} {ch}: clock {c[3]} time {c[4]} step {c[5]}; expected {clock} {clock + size} {size}"})
                        return f
                    if c[6] != pop:
                        f.append({"sig": "event-index", "msg": f"step {k} {ch} listener {c[1]}: event.index has {c[6]} simulants, the population has {pop} (untracked included)"})
                        return f
        want_end = sorted([(p, i) for c, p, i in regs if c == "simulation_end"])
        want_rep = sorted([(p, i) for c, p, i in regs if c == "report"])
        grp = calls[pos:pos + len(want_end)]
        rep = calls[pos + len(want_end):]
        n = len(sched)
        if sorted((c[2], c[1]) for c in grp) != want_end or any(c[0] != "simulation_end" for c in grp):
            f.append({"sig": "end-events", "msg": f"after {n} steps: calls {[(c[0], c[1]) for c in grp][:8]} (expected simulation_end once per listener)"})
        elif sorted((c[2], c[1]) for c in rep) != want_rep or any(c[0] != "report" for c in rep):
            f.append({"sig": "end-events", "msg": f"after simulation_end: calls {[(c[0], c[1]) for c in rep][:8]} (expected report once per listener)"})
        else:
            for c in grp + rep:
                if c[6] != pop:
                    f.append({"sig": "event-index", "msg": f"{c[0]} listener {c[1]}: event.index has {c[6]} simulants, the population has {pop}"})
                    break
        for g in (grp, rep):
            if any(a[2] > b[2] for a, b in zip(g, g[1:])):
                f.append({"sig": "priority-order", "msg": f"end events: priorities {[c[2] for c in g]}"})
        if obs["final_clock"] != t_end:
            f.append({"sig": "final-clock", "msg": f"final clock {obs['final_clock']}, expected {t_end} after {n} steps"})
        for name, clock, ctime, cwin, cnt in obs["init"]:
            if clock != t0c - h or ctime != t0c - h or cwin != h or cnt != pop:
                f.append({"sig": "fencepost", "msg": f"initializer {name}: clock {clock}, creation_time {ctime}, window {cwin}, {cnt} simulants; "
                          f"expected {t0c - h}, {t0c - h}, {h}, {pop}"})
        if "returned_steps" in obs and obs["returned_steps"] != ret.get("n"):
            f.append({"sig": "returned-steps", "msg": f"interactive API returned {obs['returned_steps']} steps, expected {ret.get('n')}"})
        if "returned_split" in obs and obs["returned_split"] != ret.get("split"):
            f.append({"sig": "returned-steps", "msg": f"run_until / run_for / run returned {obs['returned_split']}, expected {ret.get('split')}"})
        if "returned_after" in obs and obs["returned_after"] != ret.get("after"):
            f.append({"sig": "returned-steps", "msg": f"run() after the explicit steps returned {obs['returned_after']}, expected {ret.get('after')}"})
        for ch, listed in (obs.get("listed") or {}).items():
            for p in range(10):
                want_n = len([1 for c, q, _ in regs if c == ch and q == p])
                got = listed.get(str(p), 0)
                # the framework's own listeners (results, clock, values, event manager) all sit at the default priority
                if (got < want_n) if p == 5 else (got != want_n):
                    f.append({"sig": "listed-priority", "msg": f"get_listeners({ch!r}) lists {got} listeners at priority {p}, {want_n} were registered there"})
                    break
        if "step_after_explicit" in obs and obs["step_after_explicit"] != h:
            f.append({"sig": "explicit-step-not-undone", "msg": f"global step after the explicit steps {obs['step_after_explicit']}, configured {h}"})
        return f

    def nontrivial(self, case, obs):
        if obs["error"] or not obs["log"]:
            return False
        regs = _regs(case)
        return any(len({p for c, p, _ in regs if c == ch}) > 1 for ch in CH)

    def tags(self, case, obs):
        t = [case["clock"], case["mode"], f"pop{case['pop']}", "standard-step-set" if case.get("std") else "standard-step-unset"]
        t0, stop, h = self._times(case, obs)
        if h and h > 0:
            n = len(_schedule(case, t0, stop, h)[0])
            t.append("steps:" + ("0" if n == 0 else "1" if n == 1 else "2-5" if n <= 5 else "6+"))
            t.append("end-multiple" if (stop - t0) % h == 0 else "end-not-multiple")
        if case["clock"] == "datetime":
            t.append("step-fraction" if case["step"][1] != 1 else "step-whole-days")
            t += ["step-float"] * bool(case.get("step_float")) + ["start-not-2020-01-01"] * (case["start"] != [2020, 1, 1])
        flat = list(_flat(case["comps"]))
        ex = [_explicit(e) for c in flat for e in c["explicit"]]
        t.append("default-priority" if any(e[1] is None for e in ex) else "explicit-priorities")
        t += ["form:" + e[3] for e in ex] + ["kind:" + e[4] for e in ex] + ["ptype:" + e[5] for e in ex if e[1] is not None]
        t += ["hook-undefined"] * any(h is None for c in flat for h in c["hooks"][:5])
        t += ["hook-default-priority"] * any(h is not None and h[0] is None for c in flat for h in c["hooks"])
        t += ["post-setup-hook"] * any(len(c["hooks"]) > 5 and c["hooks"][5] is not None for c in flat)
        t += ["sub-components"] * any(c.get("sub") for c in flat) + ["foreign-handle"] * any(c.get("via") is not None for c in flat)
        t += ["untracking"] * any(c.get("untrack") for c in flat) + ["process-history"] * bool(case.get("prior"))
        regs = _regs(case)
        t += ["silent-channel"] * any(not [1 for c, _, _ in regs if c == ch] for ch in CH)
        for ch in CH:
            ps = [p for c, p, _ in regs if c == ch]
            if 0 in ps and any(1 <= p <= 5 for p in ps):
                t.append("priority-0-with-competitor")
                break
        return t

    def sample_view(self, case, obs):
        return {"case": case, "log_head": obs["log"][:6], "n_calls": len(obs["log"]), "init": obs["init"][:2],
                "t0": obs.get("t0"), "stop": obs.get("stop"), "h": obs.get("h"), "final_clock": obs.get("final_clock")}


PROP = C08()
