"""C08 — each step emits its four events once, in order, to every listener by priority.

Tie: translator (step / initialize_simulants / finalize skeletons, run-loop comparison, bucket count,
Event fields) + correspondence: probe listeners in real simulations log
(channel, listener, priority, clock, event.time, event.step_size) and probe initializers log SimulantData;
the model (Driver/C08.lean = context skeleton + emitOrder + runLoop) predicts the same log exactly
(order inside one priority level is not compared: the framework does not guarantee it).
"""
from __future__ import annotations

import math
import random
from fractions import Fraction

from .. import impl
from ..runner import Prop

CH = ["time_step__prepare", "time_step", "time_step__cleanup", "collect_metrics"]
DAY_NS = 86_400_000_000_000


def _run(case):
    impl.load()
    import pandas as pd
    from vivarium import Component
    from vivarium.framework.engine import SimulationContext
    from vivarium.interface.interactive import InteractiveContext

    LOG, INIT = [], []

    def tick(x):
        if isinstance(x, pd.Timestamp):
            return int(x.value)
        if isinstance(x, pd.Timedelta):
            return int(x.value)
        return int(x)

    class L(Component):
        def __init__(self, spec):
            super().__init__()
            self.spec = spec

        @property
        def name(self):
            return self.spec["name"]

        @property
        def time_step_prepare_priority(self):
            return self.spec["hooks"][0][0]

        @property
        def time_step_priority(self):
            return self.spec["hooks"][1][0]

        @property
        def time_step_cleanup_priority(self):
            return self.spec["hooks"][2][0]

        @property
        def collect_metrics_priority(self):
            return self.spec["hooks"][3][0]

        @property
        def simulation_end_priority(self):
            return self.spec["hooks"][4][0]

        def setup(self, b):
            self.clock = b.time.clock()
            for ch, pr, lid in self.spec["explicit"]:
                if pr is None:
                    b.event.register_listener(ch, (lambda e, ch=ch, lid=lid: self._l(ch, lid, 5, e)))
                else:
                    b.event.register_listener(ch, (lambda e, ch=ch, lid=lid, pr=pr: self._l(ch, lid, pr, e)), pr)

        def _l(self, ch, lid, pr, e):
            LOG.append([ch, lid, pr, tick(self.clock()), tick(e.time), tick(e.step_size), len(e.index) if e.index is not None else -1])

        def on_time_step_prepare(self, e):
            self._l(CH[0], self.spec["hooks"][0][1], self.spec["hooks"][0][0], e)

        def on_time_step(self, e):
            self._l(CH[1], self.spec["hooks"][1][1], self.spec["hooks"][1][0], e)

        def on_time_step_cleanup(self, e):
            self._l(CH[2], self.spec["hooks"][2][1], self.spec["hooks"][2][0], e)

        def on_collect_metrics(self, e):
            self._l(CH[3], self.spec["hooks"][3][1], self.spec["hooks"][3][0], e)

        def on_simulation_end(self, e):
            self._l("simulation_end", self.spec["hooks"][4][1], self.spec["hooks"][4][0], e)

        def on_initialize_simulants(self, d):
            INIT.append([self.spec["name"], tick(self.clock()), tick(d.creation_time), tick(d.creation_window), len(d.index)])

    comps = [L(s) for s in case["comps"]]
    cfg = {"population": {"population_size": case["pop"]}}
    plug = None
    if case["clock"] == "simple":
        cfg["time"] = {"start": case["start"], "end": case["stop"], "step_size": case["step"]}
        if case.get("std"):
            cfg["time"]["standard_step_size"] = case["std"]
        plug = {"required": {"clock": {"controller": "vivarium.framework.time.SimpleClock",
                                       "builder_interface": "vivarium.framework.time.TimeInterface"}}}
    else:
        y0, m0, d0 = case["start"]
        y1, m1, d1 = case["stop"]
        num, den = case["step"]
        cfg["time"] = {"start": {"year": y0, "month": m0, "day": d0}, "end": {"year": y1, "month": m1, "day": d1},
                       "step_size": num / den if den != 1 else num}
        if case.get("std"):
            cfg["time"]["standard_step_size"] = case["std"]
    SimulationContext._clear_context_cache()
    mode = case["mode"]
    out = {"error": None}
    try:
        if mode in ("run_simulation", "manual"):
            sim = SimulationContext(components=comps, configuration=cfg, plugin_configuration=plug, logging_verbosity=0)
            if mode == "run_simulation":
                sim.setup(); sim.initialize_simulants()          # noqa: E702
                out["t0"], out["stop"], out["h"] = tick(sim._clock.time), tick(sim._clock.stop_time), tick(sim._clock.step_size)
                sim.run(); sim.finalize(); sim.report(print_results=False)   # noqa: E702
            else:
                sim.setup(); sim.initialize_simulants()          # noqa: E702
                out["t0"], out["stop"], out["h"] = tick(sim._clock.time), tick(sim._clock.stop_time), tick(sim._clock.step_size)
                while sim.current_time < sim._clock.stop_time:
                    sim.step()
                sim.finalize()
                sim.report(print_results=False)
        else:
            sim = InteractiveContext(components=comps, configuration=cfg, plugin_configuration=plug, logging_verbosity=0)
            out["t0"], out["stop"], out["h"] = tick(sim._clock.time), tick(sim._clock.stop_time), tick(sim._clock.step_size)
            if mode == "interactive_run":
                out["returned_steps"] = sim.run(with_logging=False)
            elif mode == "interactive_until":
                out["returned_steps"] = sim.run_until(sim._clock.stop_time, with_logging=False)
            elif mode == "interactive_for":
                out["returned_steps"] = sim.run_for(sim._clock.stop_time - sim._clock.time, with_logging=False)
            else:
                n = math.ceil(Fraction(out["stop"] - out["t0"], out["h"]))
                sim.take_steps(max(n, 0), with_logging=False)
            sim.finalize()
            sim.report(print_results=False)
        out["final_clock"] = tick(sim._clock.time)
    except Exception as e:  # noqa: BLE001
        out["error"] = f"{type(e).__name__}: {e}"
    out["log"], out["init"] = LOG, INIT
    return out


def _canon(calls):
    """group consecutive calls of one emission (same channel, same clock) and sort inside a priority level"""
    out, i = [], 0
    while i < len(calls):
        j = i
        while j < len(calls) and calls[j][0] == calls[i][0] and calls[j][3] == calls[i][3]:
            j += 1
        grp = calls[i:j]
        # stable within priority, then by id
        k = 0
        while k < len(grp):
            m = k
            while m < len(grp) and grp[m][2] == grp[k][2]:
                m += 1
            out += sorted(grp[k:m], key=lambda c: c[1])
            k = m
        i = j
    return out


class C08(Prop):
    id = "C08"
    lean_modules = ["VivModel.Props.C08"]
    build_targets = ["VivModel.Model.Events", "VivModel.Model.Proto"]
    driver = "C08"
    technique = "Lean 4 proof (induction over registration lists and over the run loop; decide/rfl over skeletons regenerated from engine.py/event.py) + translator + exact listener-log correspondence on real simulations"
    n_quick = 120
    n_thorough = 2500
    workers = 4
    rule = ("each case is a whole simulation: 1-4 probe components, each with 5 hook listeners (own priorities) and 0-3 explicitly "
            "registered listeners (any channel, priority 0-9 or default), SimpleClock or DateTimeClock (whole, dyadic-fractional and other "
            "fractional day steps, ends not a multiple of the step), driven by run / manual step() / InteractiveContext run, run_until, "
            "run_for, take_steps; distinct by case hash; non-trivial = at least one step taken and two different priorities on one channel")

    def _comp(self, rng, k, lid):
        hooks = []
        for _ in range(5):
            hooks.append([rng.randint(0, 9) if rng.random() < 0.8 else 5, lid[0]])
            lid[0] += 1
        explicit = []
        for _ in range(rng.randint(0, 3)):
            explicit.append([rng.choice(CH + CH + ["simulation_end", "post_setup", "report"]), rng.choice([None] + list(range(10))), lid[0]])
            lid[0] += 1
        return {"name": f"c{k}", "hooks": hooks, "explicit": explicit}

    def generate(self, rng: random.Random, i: int, tier: str):
        lid = [0]
        comps = [self._comp(rng, k, lid) for k in range(rng.randint(1, 4))]
        mode = rng.choice(["run_simulation", "manual", "interactive_run", "interactive_until", "interactive_for", "interactive_take"])
        pop = rng.choice([0, 1, 2, 5])
        if rng.random() < 0.45:
            st = rng.randint(0, 5)
            h = rng.randint(1, 4)
            en = st + rng.randint(0, 13)
            std = rng.choice([None, None, h, h + rng.randint(1, 3), max(1, h - 1)])
            return {"clock": "simple", "start": st, "stop": en, "step": h, "std": std, "comps": comps, "mode": mode, "pop": pop}
        num, den = rng.choice([(1, 1), (1, 2), (9, 4), (61, 2), (7, 1), (3, 8), (1, 3), (5, 1), (10, 3),
                               (1, 16), (3, 32), (3, 10), (1, 10), (13, 10), (7, 10), (13, 50), (21, 16)])
        days = rng.randint(0, 40)
        return {"clock": "datetime", "start": [2020, 1, 1], "stop": [2020, 1 + days // 28, 1 + days % 28],
                "step": [num, den], "std": rng.choice([None, None, None, 2, 5]), "comps": comps, "mode": mode, "pop": pop}

    def boundary(self):
        lid = [0]
        rng = random.Random(8)
        comps = [self._comp(rng, 0, lid), self._comp(rng, 1, lid)]
        out = []
        for mode in ["run_simulation", "manual", "interactive_run", "interactive_until", "interactive_for", "interactive_take"]:
            out.append({"clock": "simple", "start": 0, "stop": 10, "step": 3, "comps": comps, "mode": mode, "pop": 2})   # end not a multiple
            out.append({"clock": "simple", "start": 2, "stop": 8, "step": 2, "comps": comps, "mode": mode, "pop": 1})    # exact multiple
            out.append({"clock": "datetime", "start": [2020, 1, 1], "stop": [2020, 1, 4], "step": [1, 2], "comps": comps, "mode": mode, "pop": 2})
        out.append({"clock": "simple", "start": 5, "stop": 5, "step": 1, "comps": comps, "mode": "run_simulation", "pop": 2})   # nothing to do
        for mode in ("run_simulation", "interactive_run"):     # the clock's step is the STANDARD step, not the minimum one
            out.append({"clock": "simple", "start": 0, "stop": 10, "step": 1, "std": 3, "comps": comps[:1], "mode": mode, "pop": 2})
            out.append({"clock": "simple", "start": 2, "stop": 11, "step": 2, "std": 1, "comps": comps[:1], "mode": mode, "pop": 1})
        for st in ([1, 16], [3, 10], [13, 10], [1, 10]):      # day fractions that are not a whole number of hours
            out.append({"clock": "datetime", "start": [2020, 1, 1], "stop": [2020, 1, 3], "step": st, "comps": comps[:1],
                        "mode": "run_simulation", "pop": 1})
        # all ten priorities on one channel, registered in descending order
        allp = {"name": "allp", "hooks": [[5, 100 + k] for k in range(5)],
                "explicit": [["time_step", 9 - p, 200 + p] for p in range(10)] + [["time_step", 9 - p, 300 + p] for p in range(10)]}
        out.append({"clock": "simple", "start": 0, "stop": 2, "step": 1, "comps": [allp], "mode": "run_simulation", "pop": 2})
        return out

    def shrink(self, case):
        if case.get("std"):
            yield dict(case, std=None)
        if len(case["comps"]) > 1:
            for i in range(len(case["comps"])):
                yield dict(case, comps=case["comps"][:i] + case["comps"][i + 1:])
        for i, c in enumerate(case["comps"]):
            if c["explicit"]:
                yield dict(case, comps=case["comps"][:i] + [dict(c, explicit=c["explicit"][:-1])] + case["comps"][i + 1:])
        if case["clock"] == "simple" and case["stop"] - case["start"] > case["step"]:
            yield dict(case, stop=case["start"] + case["step"])
        if case["mode"] != "run_simulation":
            yield dict(case, mode="run_simulation")

    def run_impl(self, case):
        return _run(case)

    def _regs(self, case):
        """registrations per channel as (channel, priority, id); order inside a priority level is canonicalised away"""
        regs = []
        for c in case["comps"]:
            for ch, pr, lid in c["explicit"]:
                regs.append((ch, 5 if pr is None else pr, lid))
            for k, ch in enumerate(CH + ["simulation_end"]):
                regs.append((ch, c["hooks"][k][0], c["hooks"][k][1]))
        return regs

    def model_lines(self, case, obs):
        if obs.get("t0") is None:
            return []
        L = [f"reg {ch} {p} {i}" for ch, p, i in self._regs(case)]
        L.append(f"sim {obs['t0']} {obs['h']} {obs['stop']}")
        L.append(f"steps {obs['t0']} {obs['h']} {obs['stop']}")
        L.append(f"until {obs['t0']} {obs['h']} {obs['stop']}")
        return L

    def compare(self, case, obs, replies):
        dis = []
        n = len(self._regs(case))
        if any(r != "ok" for r in replies[:n]):
            dis.append("model refused a registration")
        t = replies[n].split()
        if obs["error"] or t[0] != "ok":
            # a run of zero steps cannot be finalized (the lifecycle needs one pass through the main loop): both refuse
            if obs["error"] and obs["error"].startswith("InvalidTransitionError") and t[0] == "err":
                return dis
            return dis + [f"implementation: {obs['error']}; model: {replies[n][:60]}"]
        mclock, mcreates = int(t[1]), ([] if t[2] == "-" else [int(x) for x in t[2].split(",")])
        mcalls = [] if t[3] == "-" else [c.split(":") for c in t[3].split(",")]
        mcalls = [[c[0], int(c[1]), int(c[2]), int(c[3]), int(c[4]), int(c[5])] for c in mcalls]
        icalls = [c[:6] for c in obs["log"]]
        if _canon(icalls) != _canon(mcalls):
            a, b = _canon(icalls), _canon(mcalls)
            k = next((k for k, (x, y) in enumerate(zip(a, b)) if x != y), min(len(a), len(b)))
            dis.append(f"listener log differs at call #{k}: impl {a[k] if k < len(a) else None}, model {b[k] if k < len(b) else None} "
                       f"(lengths {len(a)}/{len(b)})")
        if obs["final_clock"] != mclock:
            dis.append(f"final clock: impl {obs['final_clock']}, model {mclock}")
        if {i[1] for i in obs["init"]} != set(mcreates) and obs["init"]:
            dis.append(f"creation clock: impl {sorted({i[1] for i in obs['init']})}, model {mcreates}")
        nsteps = int(replies[n + 1].split()[0])
        if "returned_steps" in obs and obs["returned_steps"] != nsteps:
            dis.append(f"steps returned by the interactive API {obs['returned_steps']} vs model run loop {nsteps}")
        if "returned_steps" in obs and obs["returned_steps"] != max(int(replies[n + 2]), 0):
            dis.append(f"steps returned by the interactive API {obs['returned_steps']} vs model ceilDiv {replies[n + 2]}")
        return dis

    def oracle(self, case, obs):
        f = []
        if obs["error"]:
            if obs.get("t0") is not None and obs["stop"] <= obs["t0"] and obs["error"].startswith("InvalidTransitionError"):
                return []   # zero steps: simulation_end is not a legal successor of population_creation (C06); excluded
            return [{"sig": "simulation-raised", "msg": obs["error"]}]
        t0, stop, h = obs["t0"], obs["stop"], obs["h"]
        if h <= 0:
            return [{"sig": "nonpositive-step", "msg": str(h)}]
        # start, end and step as CONFIGURED (not as read back from the clock)
        if case["clock"] == "simple":
            want_t0, want_stop, want_h = case["start"], case["stop"], (case.get("std") or case["step"])
            if (t0, stop, h) != (want_t0, want_stop, want_h):
                f.append({"sig": "configured-times", "msg": f"clock after creation {t0}, stop {stop}, step {h}; configured start {want_t0}, "
                          f"end {want_stop}, step {want_h}"})
        else:
            import datetime
            epoch = datetime.datetime(1970, 1, 1)
            want_t0 = int((datetime.datetime(*case["start"]) - epoch).total_seconds()) * 1_000_000_000
            want_stop = int((datetime.datetime(*case["stop"]) - epoch).total_seconds()) * 1_000_000_000
            if (t0, stop) != (want_t0, want_stop):
                f.append({"sig": "configured-times", "msg": f"clock after creation {t0}, stop {stop}; configured start {want_t0}, end {want_stop}"})
        # configuration -> step conversion on exactly representable day fractions
        if case["clock"] == "datetime":
            num, den = case["step"]
            want = Fraction(num, den) * DAY_NS
            exact = den & (den - 1) == 0          # dyadic day fraction: every float operation of the conversion is exact
            if (exact and want != h) or abs(want - h) > 1000:   # otherwise: within 1 microsecond of the configured step
                f.append({"sig": "step-conversion", "msg": f"configured {num}/{den} days = {float(want)} ns, clock step {h} ns"})
        n = max(0, math.ceil(Fraction(stop - t0, h)))
        regs = self._regs(case)
        calls = obs["log"]
        # expected emissions in order: post_setup (once, before the population exists), the steps, simulation_end, report
        pos = 0
        want_ps = sorted([(p, i) for c, p, i in regs if c == "post_setup"])
        grp = calls[:len(want_ps)]
        pos = len(want_ps)
        if sorted((c[2], c[1]) for c in grp) != want_ps or any(c[0] != "post_setup" for c in grp):
            f.append({"sig": "listener-set", "msg": f"post_setup: called {[(c[0], c[1], c[2]) for c in grp]}, registered {want_ps}"})
            return f
        if any(a[2] > b[2] for a, b in zip(grp, grp[1:])):
            f.append({"sig": "priority-order", "msg": f"post_setup: priorities {[c[2] for c in grp]}"})
        for k in range(n):
            clock = t0 + k * h
            for ch in CH:
                want = sorted([(p, i) for c, p, i in regs if c == ch])
                grp = calls[pos:pos + len(want)]
                pos += len(want)
                if sorted((c[2], c[1]) for c in grp) != want or any(c[0] != ch for c in grp):
                    f.append({"sig": "listener-set", "msg": f"step {k} {ch}: called {[(c[0], c[1], c[2]) for c in grp]}, registered {want}"})
                    return f
                if any(a[2] > b[2] for a, b in zip(grp, grp[1:])):
                    f.append({"sig": "priority-order", "msg": f"step {k} {ch}: priorities {[c[2] for c in grp]}"})
                for c in grp:
                    if c[3] != clock or c[4] != clock + h or c[5] != h:
                        f.append({"sig": "event-fields", "msg": f"step {k} {ch}: clock {c[3]} time {c[4]} step {c[5]}; expected {clock} {clock + h} {h}"})
                        return f
        want_end = sorted([(p, i) for c, p, i in regs if c == "simulation_end"])
        want_rep = sorted([(p, i) for c, p, i in regs if c == "report"])
        grp = calls[pos:pos + len(want_end)]
        rep = calls[pos + len(want_end):]
        if sorted((c[2], c[1]) for c in grp) != want_end or any(c[0] != "simulation_end" for c in grp):
            f.append({"sig": "end-events", "msg": f"after {n} steps: calls {[(c[0], c[1]) for c in grp][:8]} (expected simulation_end once per listener)"})
        elif sorted((c[2], c[1]) for c in rep) != want_rep or any(c[0] != "report" for c in rep):
            f.append({"sig": "end-events", "msg": f"after simulation_end: calls {[(c[0], c[1]) for c in rep][:8]} (expected report once per listener)"})
        for g in (grp, rep):
            if any(a[2] > b[2] for a, b in zip(g, g[1:])):
                f.append({"sig": "priority-order", "msg": f"end events: priorities {[c[2] for c in g]}"})
        if obs["final_clock"] != t0 + n * h:
            f.append({"sig": "final-clock", "msg": f"final clock {obs['final_clock']}, expected {t0 + n * h} after {n} steps"})
        for name, clock, ctime, cwin, cnt in obs["init"]:
            if clock != t0 - h or ctime != t0 - h or cwin != h:
                f.append({"sig": "fencepost", "msg": f"initializer {name}: clock {clock}, creation_time {ctime}, window {cwin}; expected {t0 - h}, {t0 - h}, {h}"})
        if "returned_steps" in obs and obs["returned_steps"] != n:
            f.append({"sig": "returned-steps", "msg": f"interactive API returned {obs['returned_steps']} steps, expected {n}"})
        return f

    def nontrivial(self, case, obs):
        if obs["error"] or not obs["log"]:
            return False
        regs = self._regs(case)
        return any(len({p for c, p, _ in regs if c == ch}) > 1 for ch in CH)

    def tags(self, case, obs):
        t = [case["clock"], case["mode"], f"pop{case['pop']}", "standard-step-set" if case.get("std") else "standard-step-unset"]
        if obs.get("t0") is not None and obs["h"] > 0:
            n = max(0, math.ceil(Fraction(obs["stop"] - obs["t0"], obs["h"])))
            t.append("steps:" + ("0" if n == 0 else "1" if n == 1 else "2-5" if n <= 5 else "6+"))
            t.append("end-multiple" if (obs["stop"] - obs["t0"]) % obs["h"] == 0 else "end-not-multiple")
        if case["clock"] == "datetime":
            t.append("step-fraction" if case["step"][1] != 1 else "step-whole-days")
        t.append("default-priority" if any(e[1] is None for c in case["comps"] for e in c["explicit"]) else "explicit-priorities")
        return t

    def sample_view(self, case, obs):
        return {"case": case, "log_head": obs["log"][:6], "n_calls": len(obs["log"]), "init": obs["init"][:2],
                "t0": obs.get("t0"), "stop": obs.get("stop"), "h": obs.get("h"), "final_clock": obs.get("final_clock")}


PROP = C08()
