"""C09 — simulant initializers run in dependency order or not at all.

Tie: certified check per run + outcome class + edge set. `networkx` is external, so nothing is predicted
about WHICH topological order comes out; instead

* programs of probe components declare requirements through the REAL services (`columns_created` /
  `initialization_requirements` on `Component`, `builder.population.initializes_simulants`,
  `builder.value.register_value_producer` / `register_value_modifier` / `get_value`,
  `builder.randomness.get_stream`, `builder.resources.add_resources`), in many supply orders;
* every probe initializer logs (label, index received, columns populated for that index at call time),
  at the initial creation and at later births issued by a time-step listener;
* `Driver/C09.lean` builds the graph from the same declarations (model `Viv.Topo`) and evaluates the
  proved checker on the OBSERVED order (`order …` = `checkObserved`, plus `checkOrder` on the full
  extension), answers the outcome class (ok / duplicate / cycle / badtype) and dumps node and edge set,
  which are compared with `sim._resource.graph` by resource name (an order check alone can be lucky);
* kind "bare": random `add_resources` / `graph` / iteration sequences on a bare `ResourceManager`
  (going on after refusals, late registrations after the graph was cached).

Equality with the model's own Kahn order is reported (tags `order-exact` / `order-by-generation`), never
alarmed. The oracle reads the declarations on its own (Python closure over "X declared Y as required";
nothing from Lean) and checks the property on the log.
"""
from __future__ import annotations

import functools
import itertools
import random
import types

from .. import impl
from ..runner import Prop

CLOCK = "datetime_clock"
PM = "population_manager"
TYPES = ["value", "value_source", "missing_value_source", "value_modifier", "column", "stream"]


# ------------------------------------------------------------------------------------------ declarations
def L(xs):
    return ",".join(xs) if xs else "-"


def callable_token(comp: str, j: int, kind: str, ntab: int = 0) -> str:
    """how `_get_modifier_name` / `_convert_dependencies` will see the callable the harness builds"""
    if kind == "func":
        return f"f:fn{j}_{comp}"
    if kind == "method":
        return f"m:{comp}:meth{j}"
    if kind == "named":
        return f"n:tbl{j}_{comp}"
    if kind == "object":            # instance of a class `Anon` with __call__ and no name
        return "o:Anon"
    if kind == "partial":           # functools.partial: no name, no __name__
        return "o:partial"
    if kind in ("table", "stable"):  # a real LookupTable: named after the number of tables built before it
        return f"n:lookup_table_{ntab}"
    if kind == "sfunc":             # ONE function object per component, handed to several registrations
        return f"f:fnS_{comp}"
    return "p:" + kind[5:]          # "pipe:<key>"


def flatten(case, order):
    """the registrations of one simulation in the order the real setup performs them: components in supply
    order (a parent before its sub-components, depth first); inside a component `setup()` first, then the
    Component-level initializer (`Component.setup_component`). `rate` (register_rate_producer) is a source,
    `stepmod` (builder.time.register_step_size_modifier) a modifier of `simulant_step_size`. The edge-set
    comparison validates this reading on every run."""
    regs, ntab, shared_tab = [], 0, {}
    for ci in order:
        c = case["comps"][ci]
        n = c["name"]
        for j, op in enumerate(c["setup"]):
            k = op[0]
            if k == "stepmod":
                op = ["mod", "simulant_step_size"] + list(op[1:])
                k = "mod"
            if k == "rate":
                k = "src"
            if k == "init":
                regs.append({"op": "init", "comp": n, "label": f"{n}.init{j}", "creates": op[1], "rc": op[2], "rv": op[3], "rs": op[4]})
            elif k in ("src", "mod"):
                if op[2].startswith("pipe:"):
                    regs.append({"op": "getv", "key": op[2][5:]})
                tab = ntab
                if op[2] == "stable":       # the component's one shared table: built at its first use
                    if n not in shared_tab:
                        shared_tab[n] = ntab
                        ntab += 1
                    tab = shared_tab[n]
                regs.append({"op": k, "key": op[1], "label": f"{n}.{k}{j}", "callable": callable_token(n, j, op[2], tab),
                             "rc": op[3], "rv": op[4], "rs": op[5]})
                ntab += op[2] == "table"
            elif k == "getv":
                regs.append({"op": "getv", "key": op[1]})
            elif k == "strm":
                regs.append({"op": "strm", "name": op[1], "crn": bool(op[2])})
            elif k == "raw":
                regs.append({"op": "raw", "type": op[1], "names": op[2], "label": f"{n}.raw{j}", "deps": op[3]})
        h = c.get("hook")
        if h is not None:
            regs.append({"op": "init", "comp": n, "label": n, "creates": h["creates"], "rc": h["rc"], "rv": h["rv"], "rs": h["rs"]})
    return regs


def late_regs(case, order):
    """`builder.resources.add_resources` calls made AFTER setup: from a component's post_setup listener (still before the
    first sort: the code takes them into account) and from its first time_step__prepare listener (after the graph and the
    order were cached: the code ignores them for good). Entries of `comp["late"]`: [when, type, names, deps]."""
    post, step = [], []
    for ci in order:
        c = case["comps"][ci]
        for j, (when, rtype, names, deps) in enumerate(c.get("late") or []):
            (post if when == "post" else step).append({"op": "raw", "type": rtype, "names": names, "label": f"{c['name']}.late{j}", "deps": deps})
    return post, step


def birth_plan(case):
    """per step the list of (phase 0..3, count): an int entry means `count` births in the time_step phase"""
    return [sorted(([1, e] if isinstance(e, int) else list(e)) for e in step) for step in (case.get("births") or [])]


def render(r) -> str:
    k = r["op"]
    if k == "init":
        return f"init {r['comp']} {r['label']} {L(r['creates'])} {L(r['rc'])} {L(r['rv'])} {L(r['rs'])}"
    if k == "src":
        return f"src {r['key']} {r['label']} {r['callable']} {L(r['rc'])} {L(r['rv'])} {L(r['rs'])}"
    if k == "mod":
        return f"mod {r['key']} {r['callable']} {L(r['rc'])} {L(r['rv'])} {L(r['rs'])}"
    if k == "getv":
        return f"getv {r['key']}"
    if k == "strm":
        return f"strm {r['name']} {1 if r['crn'] else 0}"
    return f"raw {r['type']} {L(r['names'])} {r['label']} {L(r['deps'])}"


PRELUDE = [  # what PopulationManager.setup and SimulationClock.setup register (oracle's reading)
    {"op": "init", "comp": PM, "label": PM, "creates": ["tracked"], "rc": [], "rv": [], "rs": []},
    {"op": "src", "key": "simulant_step_size", "label": CLOCK + ".src", "callable": "f:lambda", "rc": [], "rv": [], "rs": []},
    {"op": "init", "comp": CLOCK, "label": CLOCK, "creates": ["next_event_time", "step_size"], "rc": [], "rv": [], "rs": []},
]


def analyse(regs, keys):
    """The oracle's own reading of the declarations: who produces what, who declared what as required,
    the transitive 'must run before' sets, cycles and duplicate producers. A Pipeline object used as
    source / modifier stands for that pipeline (whether or not it had a source yet when it was obtained:
    finding F17, repaired)."""
    dups, producers, things, pipes, order_of_things = [], {}, {}, {}, []
    seen_streams, seen_comps = set(), set()
    double_init = badtype = False
    nulls = [0]

    def node_of(names_long):
        """the resource the thing's graph node is known by (`null.<k>` for a producer of nothing)"""
        if names_long:
            return names_long[0]
        nulls[0] += 1
        return f"null.{nulls[0] - 1}"

    def produce(name, tid):
        if name in producers:
            dups.append(name)
        else:
            producers[name] = tid

    def declared(r):
        return [("column." + x, False) for x in r["rc"]] + [("value." + x, False) for x in r["rv"]] + [("stream." + x, False) for x in r["rs"]]

    def of_callable(r):
        if r["callable"].startswith("p:"):
            k = r["callable"][2:]
            return [("value." + k, False)]      # a Pipeline object stands for that pipeline, named or not
        return declared(r)

    for r in regs:
        k = r["op"]
        if k == "init":
            if r["comp"] in seen_comps:
                double_init = True
            seen_comps.add(r["comp"])
            tid = r["label"]
            req = declared(r)
            things[tid] = {"init": True, "req": req, "tracked": "tracked" not in r["creates"], "creates": list(r["creates"]), "direct": r,
                           "node": node_of(["column." + c for c in r["creates"]])}
            order_of_things.append(tid)
            for c in r["creates"]:
                produce("column." + c, tid)
        elif k == "getv":
            pipes.setdefault(r["key"], {"src": None, "mods": [], "named": False})
        elif k == "src":
            p = pipes.setdefault(r["key"], {"src": None, "mods": [], "named": False})
            if p["src"] is not None:
                dups.append("value_source." + r["key"])
                continue
            p["named"] = True
            tid = "src:" + r["key"]
            things[tid] = {"init": False, "req": of_callable(r)}
            p["src"] = tid
        elif k == "mod":
            p = pipes.setdefault(r["key"], {"src": None, "mods": [], "named": False})
            tid = f"mod:{r['key']}:{len(p['mods'])}"
            things[tid] = {"init": False, "req": of_callable(r)}
            p["mods"].append(tid)
        elif k == "strm":
            if r["name"] in seen_streams:
                dups.append("stream." + r["name"])
                continue
            seen_streams.add(r["name"])
            if not r["crn"]:
                tid = "strm:" + r["name"]
                things[tid] = {"init": False, "req": [("column." + c, False) for c in keys]}
                produce("stream." + r["name"], tid)
        elif k == "raw":
            if r["type"] not in TYPES:
                badtype = True
                break
            tid = r["label"]
            is_init = (not r["names"]) or r["type"] == "column"
            things[tid] = {"init": is_init, "req": [(d, False) for d in r["deps"]], "tracked": False,
                           "creates": list(r["names"]) if r["type"] == "column" else [],
                           "node": node_of([r["type"] + "." + x for x in r["names"]])}
            if is_init:
                order_of_things.append(tid)
            for nme in r["names"]:
                produce(r["type"] + "." + nme, tid)
    for key, p in pipes.items():
        tid = "val:" + key
        things[tid] = {"init": False, "req": [], "parts": ([p["src"]] if p["src"] else []) + p["mods"]}
        produce("value." + key, tid)

    def succ(tid):
        t = things[tid]
        out = list(t.get("parts", []))
        for name, _ in t["req"]:
            if name in producers:
                out.append(producers[name])
        if t.get("tracked") and "column.tracked" in producers:
            out.append(producers["column.tracked"])
        return out

    cyc, reach = _reach({t: succ(t) for t in things})
    before = {t: {s for s in reach.get(t, set()) if things[s]["init"]} for t in things if things[t]["init"]}
    return {"dups": dups, "badtype": badtype, "double_init": double_init, "cyclic": cyc, "before": before,
            "inits": order_of_things, "things": things}


# ------------------------------------------------------------------------------------------ real runs
def _run_sim(case, order):
    impl.load()
    import numpy as np
    import pandas as pd
    from vivarium import Component
    from vivarium.exceptions import VivariumError
    from vivarium.framework.engine import SimulationContext

    LOG, ref = [], {}

    def record(label, d):
        df = ref["pm"]._population
        idx = d.index
        ready = sorted(str(c) for c in df.columns if bool(df.loc[idx, c].notna().all())) if df is not None else []
        LOG.append([label, [int(i) for i in idx], ready])

    def write(view, cols, d):
        if view is not None and cols:
            view.update(pd.DataFrame({c: 1.0 for c in cols}, index=d.index))

    SHARE = bool(case.get("share"))
    memo = {}

    def seq(x, form):
        """the container / call form the declaration is made in (the API takes a string or any sequence); in `share`
        mode equal declarations are made with THE SAME list object throughout one simulation"""
        if form == "tuple":
            return tuple(x)
        if form == "str" and len(x) == 1:
            return x[0]
        if SHARE:
            return memo.setdefault(("list",) + tuple(x), list(x))
        return list(x)

    class Anon:
        """a callable object without `name` / `__name__` (finding F25, repaired)"""
        def __init__(self, value):
            self.value = value

        def __call__(self, index, *a):
            return pd.Series(self.value, index=index)

    class Base(Component):
        def __init__(self, spec):
            super().__init__()
            self.spec = spec
            self.shared = {}
            self.late = []

        @property
        def name(self):
            return self.spec["name"]

        def _late(self, when):
            for w, rtype, names, deps, producer in self.late:
                if w == when:
                    self.builder_resources.add_resources(rtype, list(names), producer, list(deps))
            self.late = [x for x in self.late if x[0] != when]

        def on_post_setup(self, e):
            self._late("post")

        def on_time_step_prepare(self, e):
            self._late("step")

        def _callable(self, b, j, kind, value=1.0):
            if kind.startswith("pipe:"):
                return b.value.get_value(kind[5:])
            if kind == "table":
                return b.lookup.build_table(1.0)
            if kind == "stable":        # one table for all `stable` registrations of this component
                if "stable" not in self.shared:
                    self.shared["stable"] = b.lookup.build_table(1.0)
                return self.shared["stable"]
            if kind == "sfunc":         # one function object for all `sfunc` registrations of this component
                if "sfunc" not in self.shared:
                    def shared_fn(index, *a):
                        return pd.Series(value, index=index)
                    shared_fn.__name__ = f"fnS_{self.name}"
                    self.shared["sfunc"] = shared_fn
                return self.shared["sfunc"]
            if kind == "object":
                return self.shared.setdefault(("object", str(value)), Anon(value)) if SHARE else Anon(value)
            if kind == "partial":
                mk = lambda: functools.partial(lambda v, index, *a: pd.Series(v, index=index), value)   # noqa: E731
                return self.shared.setdefault(("partial", str(value)), mk()) if SHARE else mk()

            def fn(index, *a):
                return pd.Series(value, index=index)

            if kind == "func":
                fn.__name__ = f"fn{j}_{self.name}"
                return fn
            if kind == "method":
                def meth(this, index, *a):
                    return pd.Series(value, index=index)
                meth.__name__ = f"meth{j}"
                return types.MethodType(meth, self)

            class Tbl:
                def __init__(self, nm):
                    self.name = nm

                def __call__(self, index, *a):
                    return pd.Series(value, index=index)
            return Tbl(f"tbl{j}_{self.name}")

        def setup(self, b):
            self.builder_resources = b.resources
            for j, (when, rtype, names, deps) in enumerate(self.spec.get("late") or []):
                label = f"{self.name}.late{j}"
                view = b.population.get_view(list(names)) if (rtype == "column" and names) else None

                def late_producer(d, label=label, names=names, view=view):
                    record(label, d)
                    write(view, names, d)
                self.late.append((when, rtype, names, deps, late_producer))
            for j, op in enumerate(self.spec["setup"]):
                k = op[0]
                form = ["list", "tuple", "str"][(j + len(self.name)) % 3]
                if k == "init":
                    creates, rc, rv, rs = op[1:5]
                    call = op[5] if len(op) > 5 else "kw"
                    label = f"{self.name}.init{j}"
                    view = b.population.get_view(list(creates)) if creates else None

                    def f(this, d, label=label, creates=creates, view=view):
                        record(label, d)
                        write(view, creates, d)
                    f.__name__ = f"init{j}"
                    m = types.MethodType(f, self)
                    if call == "pos":       # every argument positional
                        b.population.initializes_simulants(m, seq(creates, form), seq(rc, form), seq(rv, form), seq(rs, form))
                    elif call == "sparse":  # only the keywords that say something
                        kw = {key: seq(val, form) for key, val in (("creates_columns", creates), ("requires_columns", rc),
                                                                   ("requires_values", rv), ("requires_streams", rs)) if val}
                        b.population.initializes_simulants(m, **kw)
                    else:
                        b.population.initializes_simulants(m, creates_columns=seq(creates, form), requires_columns=seq(rc, form),
                                                           requires_values=seq(rv, form), requires_streams=seq(rs, form))
                elif k in ("src", "rate"):
                    reg = b.value.register_value_producer if k == "src" else b.value.register_rate_producer
                    cont = tuple if form == "tuple" else list
                    reg(op[1], source=self._callable(b, j, op[2]), requires_columns=cont(op[3]),
                        requires_values=cont(op[4]), requires_streams=cont(op[5]))
                elif k == "mod":
                    cont = tuple if form == "tuple" else list
                    if form == "str":       # positional call form
                        b.value.register_value_modifier(op[1], self._callable(b, j, op[2]), list(op[3]), list(op[4]), list(op[5]))
                    else:
                        b.value.register_value_modifier(op[1], self._callable(b, j, op[2]), requires_columns=cont(op[3]),
                                                        requires_values=cont(op[4]), requires_streams=cont(op[5]))
                elif k == "stepmod":        # a step-size modifier must return step sizes
                    b.time.register_step_size_modifier(self._callable(b, j, op[1], pd.Timedelta(days=1)), requires_columns=list(op[2]),
                                                       requires_values=list(op[3]), requires_streams=list(op[4]))
                elif k == "getv":
                    b.value.get_value(op[1])
                elif k == "strm":
                    if op[2]:
                        b.randomness.get_stream(op[1], initializes_crn_attributes=True)
                    elif form == "str":
                        b.randomness.get_stream(op[1], False)
                    else:
                        b.randomness.get_stream(op[1])
                elif k == "raw":
                    _, rtype, names, deps = op
                    label = f"{self.name}.raw{j}"
                    view = b.population.get_view(list(names)) if (rtype == "column" and names) else None

                    def producer(d, label=label, names=names, view=view):
                        record(label, d)
                        write(view, names, d)
                    b.resources.add_resources(rtype, list(names), producer, list(deps))

    class Hook(Base):
        @property
        def columns_created(self):
            return list(self.spec["hook"]["creates"])

        @property
        def columns_required(self):
            cr = self.spec["hook"].get("colreq")
            return None if cr is None else list(cr)

        @property
        def initialization_requirements(self):
            h = self.spec["hook"]
            form = h.get("form", "list")        # list | tuple | str | omit (keys without requirements left out)
            d = {"requires_columns": h["rc"], "requires_values": h["rv"], "requires_streams": h["rs"]}
            if form == "omit":
                return {key: list(val) for key, val in d.items() if val}
            return {key: seq(val, form) for key, val in d.items()}

        def on_initialize_simulants(self, d):
            record(self.name, d)
            if self.spec["hook"]["creates"]:
                write(self.population_view, self.spec["hook"]["creates"], d)

    class Parent(Component):
        """registers nothing; only changes the SHAPE in which the components are supplied"""
        name = "zz_parent"

        def __init__(self, subs):
            super().__init__()
            self._subs = subs

        @property
        def sub_components(self):
            return self._subs

    class Birth(Component):
        """creates simulants from every main-loop phase (count 0 included); may untrack simulant 0 first"""
        name = "zz_birth"

        def __init__(self, plan, untrack):
            super().__init__()
            self.plan, self.k, self.untrack = plan, 0, untrack

        def setup(self, b):
            self.creator = b.population.get_simulant_creator()
            self.tracked = b.population.get_view(["tracked"])

        def _phase(self, ph, e):
            if ph == 0 and self.k == 0 and self.untrack and 0 in ref["pm"]._population.index:
                self.tracked.update(pd.Series(False, index=pd.Index([0]), name="tracked"))
            if self.k < len(self.plan):
                for p, cnt in self.plan[self.k]:
                    if p == ph:
                        ref["sim"].get_population()                     # reads interleaved with creation
                        before = len(ref["pm"].get_population(True))
                        LOG.append(["#", cnt])
                        idx = self.creator(np.int64(cnt), {"sim_state": "birth"}) if p % 2 else self.creator(cnt)
                        LOG.append(["#ret", [int(i) for i in idx]])
                        LOG.append(["#len", before, len(ref["pm"].get_population(True)), len(self.tracked.get(idx))])
            if ph == 3:
                self.k += 1

        def on_time_step_prepare(self, e):
            self._phase(0, e)

        def on_time_step(self, e):
            self._phase(1, e)

        def on_time_step_cleanup(self, e):
            self._phase(2, e)

        def on_collect_metrics(self, e):
            self._phase(3, e)

    comps = [(Hook if case["comps"][i].get("hook") is not None else Base)(case["comps"][i]) for i in order]
    shape = case.get("shape")
    if shape and len(comps) >= 2:
        lo, hi = shape["span"][0] % len(comps), shape["span"][1] % (len(comps) + 1)
        lo, hi = min(lo, hi), max(lo, hi)
        inner = comps[lo:hi]
        if shape.get("nested") and len(inner) >= 2:
            inner = [inner[0], list(inner[1:-1]), (inner[-1],)]
        if inner:
            comps = comps[:lo] + [Parent(inner)] + comps[hi:]
    births = birth_plan(case)
    if births:
        comps.append(Birth(births, bool(case.get("untrack"))))
    out = {"error": None, "graph": None}
    phase = "construct"
    sim = None
    SimulationContext._clear_context_cache()
    try:
        sim = SimulationContext(components=comps, logging_verbosity=0,
                                configuration={"population": {"population_size": case["pop"]},
                                               "randomness": {"key_columns": list(case["keys"])}})
        ref["pm"] = sim._population
        ref["sim"] = sim
        phase = "setup"
        sim.setup()
        phase = "create"
        LOG.append(["#", case["pop"]])
        sim.initialize_simulants()
        phase = "birth"
        for _ in births:
            sim.step()
        phase = "done"
    except Exception as e:  # noqa: BLE001 - the outcome class is the observation
        out["error"] = [phase, type(e).__name__, isinstance(e, VivariumError)]
    if sim is not None and phase not in ("construct", "setup"):
        try:
            g = sim._resource.graph
            out["graph"] = {"nodes": sorted(["+".join(n.names), n.type] for n in g.nodes),
                            "edges": sorted({("+".join(u.names), "+".join(v.names)) for u, v in g.edges})}
            out["graph"]["edges"] = [list(e) for e in out["graph"]["edges"]]
        except Exception as e:  # noqa: BLE001
            out["graph"] = {"error": type(e).__name__}
    creations = []
    for ent in LOG:
        if ent[0] == "#":
            creations.append({"count": ent[1], "calls": [], "ret": None})
        elif ent[0] == "#ret":
            creations[-1]["ret"] = ent[1]
        elif ent[0] == "#len":
            creations[-1]["len"] = ent[1:]
        else:
            creations[-1]["calls"].append(ent)
    out["creations"] = creations
    return out


class _Quiet:
    def warning(self, *a, **k):
        pass

    debug = info = error = warning


def _run_bare(case):
    impl.load()
    from vivarium.framework.resource import ResourceManager
    rm = ResourceManager()
    rm.logger = _Quiet()
    res = []
    for op in case["ops"]:
        try:
            if op[0] == "add":
                rm.add_resources(op[1], list(op[2]), op[3], list(op[4]))
                res.append(["ok"])
            elif op[0] == "graph":
                g = rm.graph
                res.append(["ok", sorted(["+".join(n.names), n.type] for n in g.nodes),
                            [list(e) for e in sorted({("+".join(u.names), "+".join(v.names)) for u, v in g.edges})]])
            else:
                res.append(["ok", [str(p) for p in rm]])
        except Exception as e:  # noqa: BLE001
            res.append(["err", type(e).__name__])
    return {"ops": res}


def _with_pm(calls):
    """the population manager's own initializer is not a probe: its place in the order is read off the
    state (first probe call that found `tracked` populated for the new index)"""
    labels = [c[0] for c in calls]
    k = next((i for i, c in enumerate(calls) if "tracked" in c[2]), len(calls))
    return labels[:k] + [PM] + labels[k:]


def _impl_class(run):
    e = run["error"]
    if e is None:
        return "ok"
    phase, cls, viv = e
    if viv and phase == "setup":
        return "refused-setup"
    if viv and phase == "create" and cls == "ResourceError":
        return "refused-create"
    return f"crash:{phase}:{cls}"


MODEL_CLASS = {"ok": "ok", "duplicate": "refused-setup", "badtype": "refused-setup", "cycle": "refused-create"}


# ------------------------------------------------------------------------------------------ generators
def _comp(name, hook=None, setup=None):
    return {"name": name, "hook": hook, "setup": setup or []}


def _hook(creates=(), rc=(), rv=(), rs=(), colreq=None):
    return {"creates": list(creates), "rc": list(rc), "rv": list(rv), "rs": list(rs), "colreq": colreq}


def _orders(rng, n, tier, k=None):
    if n <= 4:
        return [list(p) for p in itertools.permutations(range(n))]
    k = k or (3 if tier == "quick" else 6)
    out = [list(range(n))]
    while len(out) < k:
        p = list(range(n))
        rng.shuffle(p)
        if p not in out:
            out.append(p)
    return out


def _add_req(comp, kind, name):
    """append a requirement (kind rc/rv/rs) to the initializer of a component spec"""
    pos = {"rc": 2, "rv": 3, "rs": 4}[kind]
    if comp["hook"] is not None:
        comp["hook"][kind].append(name)
        return True
    for op in comp["setup"]:
        if op[0] == "init":
            op[pos].append(name)
            return True
    return False


def _creates_of(comp):
    if comp["hook"] is not None:
        return comp["hook"]["creates"]
    for op in comp["setup"]:
        if op[0] == "init":
            return op[1]
    return None


def gen_dag(rng, n_init=None, n_pipe=None, n_strm=None, raw_ok=True):
    """a random acyclic program: every thing gets a distinct rank and only requires things of lower rank"""
    n_init = n_init if n_init is not None else rng.randint(2, 8)
    n_pipe = n_pipe if n_pipe is not None else rng.randint(0, 4)
    n_strm = n_strm if n_strm is not None else rng.randint(0, 3)
    n_raw = rng.choice([0, 0, 0, 1, 2]) if raw_ok else 0
    things = [("init", i) for i in range(n_init)] + [("strm", s) for s in range(n_strm)] + [("raw", t) for t in range(n_raw)]
    pipes = {}
    for v in range(n_pipe):
        sourced = rng.random() < 0.85
        nm = rng.randint(0, 3)
        if not sourced and nm == 0:
            nm = 1
        pipes[v] = {"sourced": sourced, "nm": nm}
        if sourced:
            things.append(("src", v))
        things += [("mod", v, j) for j in range(nm)]
    # step-size modifiers (builder.time.register_step_size_modifier) modify the framework's own pipeline "S"
    n_step = rng.choice([0, 0, 0, 1, 2])
    if n_step:
        pipes["S"] = {"sourced": False, "nm": n_step}
        things += [("mod", "S", j) for j in range(n_step)]
    rng.shuffle(things)
    rank = {t: r for r, t in enumerate(things)}
    cols = {}
    for i in range(n_init):
        k = rng.choice([0, 1, 1, 1, 2])
        cols[("init", i)] = [f"c{i}", f"c{i}b"][:k]
    for t in range(n_raw):
        cols[("raw", t)] = [f"r{t}"] if rng.random() < 0.7 else []
    first_stream = min([rank[("strm", s)] for s in range(n_strm)], default=len(things))
    keycand = [c for t, cs in cols.items() if rank[t] < first_stream for c in cs]
    keys = rng.sample(keycand, min(len(keycand), rng.randint(1, 2))) if keycand and rng.random() < (0.7 if n_strm else 0.2) else []
    if n_strm and rng.random() < 0.25:          # a key column nobody creates, and the framework's own column, listed first
        keys = rng.choice([["zz_nokey"], ["tracked"], ["zz_nokey", "tracked"]]) + keys
    crn = {s: rng.random() < 0.15 for s in range(n_strm)}

    def pname(v):
        return "simulant_step_size" if v == "S" else f"v{v}"

    def pipe_rank(v):
        parts = ([("src", v)] if pipes[v]["sourced"] else []) + [("mod", v, j) for j in range(pipes[v]["nm"])]
        return max(rank[p] for p in parts)

    def salt(xs, unmet, p):
        """an unmet requirement at a random place (first included), sometimes a repeated name"""
        if rng.random() < p:
            xs.insert(rng.randint(0, len(xs)), unmet)
        if xs and rng.random() < 0.05:
            xs.insert(rng.randint(0, len(xs)), rng.choice(xs))
        return xs

    def pick_reqs(r, dens):
        ac = [c for t, cs in cols.items() if rank[t] < r for c in cs]
        av = [pname(v) for v in pipes if pipe_rank(v) < r] + ([] if "S" in pipes else ["simulant_step_size"])
        as_ = [f"s{s}" for s in range(n_strm) if rank[("strm", s)] < r]
        rc = rng.sample(ac, min(len(ac), rng.choice([0, 1, 1, 2]))) if rng.random() < dens else []
        rv = rng.sample(av, min(len(av), rng.choice([1, 1, 2]))) if rng.random() < dens else []
        rs = rng.sample(as_, min(len(as_), 1)) if rng.random() < dens * 0.7 else []
        return salt(rc, "zz_nocol", 0.1), salt(rv, "zz_noval", 0.08), salt(rs, "zz_nostrm", 0.06)

    dens = rng.choice([0.35, 0.6, 0.85])
    comps, by_init = [], {}
    for i in range(n_init):
        rc, rv, rs = pick_reqs(rank[("init", i)], dens)
        cr = cols[("init", i)]
        if rng.random() < 0.7:
            # `columns_required` only shapes the component's population view, it is no initialization requirement;
            # [] (= a view on all columns) cannot be used to create columns, so only column-less probes use it
            colreq = rng.choice([None, None, None if cr else [], [c for cs in cols.values() for c in cs if c not in cr][:2] or None])
            c = _comp(f"I{i}", _hook(cr, rc, rv, rs, colreq))
            c["hook"]["form"] = rng.choice(["list", "list", "tuple", "str", "omit"])
        else:
            c = _comp(f"I{i}", None, [["init", list(cr), rc, rv, rs, rng.choice(["kw", "kw", "pos", "sparse"])]])
        comps.append(c)
        by_init[i] = c
    plain = []

    def home():
        if rng.random() < 0.4:
            return rng.choice(comps)
        if plain and rng.random() < 0.4:
            return rng.choice(plain)
        c = _comp(f"P{len(plain)}")
        plain.append(c)
        return c

    others = [t for t in things if t[0] != "init"]
    rng.shuffle(others)
    def kind_of(t, r):
        """mostly plain callables; sometimes the Pipeline object of a pipeline of lower rank (obtained with get_value in
        whatever component this lands in, i.e. possibly before that pipeline has a source: finding F17)"""
        av = [v for v in pipes if v != t[1] and pipe_rank(v) < r]
        if t[1] == "S":             # a step-size modifier is really called by the clock: it must return step sizes
            return rng.choice(["func", "method", "named", "object", "partial"])
        if av and rng.random() < 0.15:
            return f"pipe:{pname(rng.choice(av))}"
        return rng.choice(["func", "method", "named", "object", "partial", "table"])

    for t in others:
        r = rank[t]
        if t[0] == "src":
            rc, rv, rs = pick_reqs(r, dens)
            home()["setup"].append([rng.choice(["src", "src", "rate"]), f"v{t[1]}", kind_of(t, r), rc, rv, rs])
        elif t[0] == "mod" and t[1] == "S":
            rc, rv, rs = pick_reqs(r, dens)
            home()["setup"].append(["stepmod", kind_of(t, r), rc, rv, rs])
        elif t[0] == "mod":
            rc, rv, rs = pick_reqs(r, dens)
            home()["setup"].append(["mod", f"v{t[1]}", kind_of(t, r), rc, rv, rs])
        elif t[0] == "strm":
            home()["setup"].append(["strm", f"s{t[1]}", crn[t[1]]])
        else:
            rc, rv, rs = pick_reqs(r, dens)
            deps = ["column." + c for c in rc] + ["value." + v for v in rv] + ["stream." + s for s in rs]
            names = cols[t]
            home()["setup"].append(["raw", "column" if names else rng.choice(["column", "stream", "value"]), list(names), deps])
    comps += plain
    # get_value of an existing pipeline, or of one nobody sources or modifies (it still becomes a `value` resource)
    for _ in range(rng.choice([0, 0, 0, 1, 2])):
        rng.choice(comps)["setup"].append(["getv", rng.choice([pname(v) for v in pipes] + ["vg0", "vg1"])])
    if rng.random() < 0.1:
        _add_req(rng.choice(list(by_init.values())), "rv", rng.choice(["vg0", "vg1"]))
    # registrations made after setup: in post_setup (still counted) and during the first step (too late: order is cached)
    allcols = [c for cs in cols.values() for c in cs]
    for k in range(rng.choice([0, 0, 0, 1, 2])):
        when = rng.choice(["post", "step"])
        deps = ["column." + c for c in rng.sample(allcols, min(len(allcols), rng.randint(0, 2)))]
        if rng.random() < 0.5:
            names, rtype = [], rng.choice(["column", "stream"])
        else:
            names, rtype = [f"l{when[0]}{k}" if when == "post" or rng.random() < 0.5 else "zz_nocol"], "column"
        if names == ["zz_nocol"] and any(x.get("late") and any(l[2] == names for l in x["late"]) for x in comps):
            names = [f"ls{k}"]
        rng.choice(comps).setdefault("late", []).append([when, rtype, names, deps])
    # the initializer op of an explicit component goes to a random place among its setup ops
    for c in comps:
        rng.shuffle(c["setup"])
    rng.shuffle(comps)
    return {"kind": "sim", "keys": keys, "pop": rng.choice([0, 1, 2, 3]), "births": [], "comps": comps, "why": "dag"}


def _pick_with_column(rng, case):
    cand = [c for c in case["comps"] if _creates_of(c)]
    if not cand:
        c = _comp("IX", _hook(["cx"]))
        case["comps"].append(c)
        return c
    return rng.choice(cand)


CYCLES = ["col2", "col3", "self", "src", "mod", "stream", "valueonly", "srcpipe", "twopipes", "rawonly", "downstream", "stepmod"]


def inject_cycle(rng, case, kind):
    x = _pick_with_column(rng, case)
    cx = _creates_of(x)[0]
    comps = case["comps"]
    if kind == "col2":
        comps.append(_comp("CY", _hook(["cyc_y"], rc=[cx])))
        _add_req(x, "rc", "cyc_y")
    elif kind == "col3":
        comps.append(_comp("CY", _hook(["cyc_y"], rc=[cx])))
        comps.append(_comp("CZ", None, [["init", ["cyc_z"], ["cyc_y"], [], []]]))
        _add_req(x, "rc", "cyc_z")
    elif kind == "self":
        _add_req(x, "rc", cx)
    elif kind == "src":
        comps.append(_comp("CP", None, [["src", "cyc_v", "func", [cx], [], []]]))
        _add_req(x, "rv", "cyc_v")
    elif kind == "mod":
        comps.append(_comp("CP", None, [["src", "cyc_v", "func", [], [], []]]))
        comps.append(_comp("CM", None, [["mod", "cyc_v", rng.choice(["func", "method", "named"]), [cx], [], []]]))
        _add_req(x, "rv", "cyc_v")
    elif kind == "stream":
        if cx not in case["keys"]:
            case["keys"].append(cx)
        comps.append(_comp("CS", None, [["strm", "cyc_s", False]]))
        _add_req(x, "rs", "cyc_s")
    elif kind == "valueonly":
        comps.append(_comp("CP", None, [["src", "cyc_v", "func", [], ["cyc_w"], []]]))
        comps.append(_comp("CQ", None, [["src", "cyc_w", "method", [], [], []], ["mod", "cyc_w", "func", [], ["cyc_v"], []]]))
    elif kind == "srcpipe":
        comps.append(_comp("CP", None, [["src", "cyc_w", "func", [], ["cyc_v"], []], ["src", "cyc_v", "pipe:cyc_w", [], [], []]]))
    elif kind == "twopipes":
        comps.append(_comp("CP", None, [["src", "cyc_v", "func", [], ["cyc_w"], []]]))
        comps.append(_comp("CQ", None, [["src", "cyc_w", "func", [], [], []], ["mod", "cyc_w", "named", [cx], [], []]]))
        _add_req(x, "rv", "cyc_v")
    elif kind == "rawonly":       # two raw non-initializer resources that need each other; no initializer near
        comps.append(_comp("CR", None, [["raw", "stream", ["cyc_rs"], ["value.cyc_rv"]], ["raw", "value", ["cyc_rv"], ["stream.cyc_rs"]]]))
    elif kind == "downstream":    # a value cycle that depends on a column but that no initializer depends on
        comps.append(_comp("CP", None, [["src", "cyc_v", "func", [cx], ["cyc_w"], []]]))
        comps.append(_comp("CQ", None, [["rate", "cyc_w", "object", [], ["cyc_v"], []]]))
    elif kind == "stepmod":       # through the framework's own step-size pipeline
        comps.append(_comp("CT", None, [["stepmod", "func", ["zz_nocol", cx], [], []]]))
        _add_req(x, "rv", "simulant_step_size")
    rng.shuffle(comps)
    case["why"] = "cycle-" + kind
    return case


DUPS = ["col", "within", "tracked", "clockcol", "src", "stream", "streamcrn", "rawcol", "rawvalue", "rawstream", "hookexplicit", "badtype"]


def inject_dup(rng, case, kind):
    comps = case["comps"]
    x = _pick_with_column(rng, case)
    cx = _creates_of(x)[0]
    if kind == "col":
        if rng.random() < 0.5:
            comps.append(_comp("DY", _hook([cx, "dup_extra"])))
        else:
            comps.append(_comp("DY", None, [["init", ["dup_extra", cx], [], [], []]]))
    elif kind == "within":
        comps.append(_comp("DY", _hook(["dup_w", "dup_w"])))
    elif kind == "tracked":
        comps.append(_comp("DY", _hook(["tracked"])))
    elif kind == "clockcol":
        comps.append(_comp("DY", None, [["init", ["step_size"], [], [], []]]))
    elif kind == "src":
        comps.append(_comp("DP", None, [["src", "dup_v", "func", [], [], []]]))
        comps.append(_comp("DQ", None, [["src", "dup_v", "method", [], [], []]]))
    elif kind == "stream":
        comps.append(_comp("DP", None, [["strm", "dup_s", False]]))
        comps.append(_comp("DQ", None, [["strm", "dup_s", False]]))
    elif kind == "streamcrn":
        comps.append(_comp("DP", None, [["strm", "dup_s", True]]))
        comps.append(_comp("DQ", None, [["strm", "dup_s", rng.random() < 0.5]]))
    elif kind == "rawcol":
        comps.append(_comp("DR", None, [["raw", "column", [cx], []]]))
    elif kind == "rawvalue":
        comps.append(_comp("DP", None, [["src", "dup_v", "func", [], [], []]]))
        comps.append(_comp("DR", None, [["raw", "value", ["dup_v"], []]]))
    elif kind == "rawstream":
        comps.append(_comp("DP", None, [["strm", "dup_s", False]]))
        comps.append(_comp("DR", None, [["raw", "stream", ["dup_s"], []]]))
    elif kind == "hookexplicit":
        comps.append(_comp("DY", _hook(["dup_h"]), [["init", ["dup_e"], [], [], []]]))
    elif kind == "badtype":
        comps.append(_comp("DR", None, [["raw", rng.choice(["colum", "null", "Column", "pipeline"]), ["bt"], []]]))
    rng.shuffle(comps)
    case["why"] = "dup-" + kind
    return case


ADV = ["mod", "src", "stream", "srcpipe", "modpipe", "deepvalues", "unsourced", "stepmod", "rate", "tablemod", "objmod",
       "sharedsrc", "sharedmod", "sharedtable"]


def gen_adversarial(rng, kind, depth=None, null_consumer=None, explicit=None):
    """the implicit edge `kind` is the ONLY path from a deep producer chain D0 <- D1 <- … to the shallow
    consumer A (which, without that edge, would sit in generation 1 of the networkx sort)"""
    depth = depth or rng.randint(3, 5)
    comps = []
    for d in range(depth):
        rc = [f"d{d - 1}"] if d else []
        comps.append(_comp(f"D{d}", _hook([f"d{d}"], rc=rc)) if rng.random() < 0.7 else _comp(f"D{d}", None, [["init", [f"d{d}"], rc, [], []]]))
    z = f"d{depth - 1}"
    keys, rv, rs = [], [], []
    mk = rng.choice(["func", "method", "named", "object", "partial"])
    first = rng.random() < 0.5      # an unmet requirement listed BEFORE the one that matters, in the same list

    def hot(unmet="zz_nocol"):
        return [unmet, z] if first else [z]
    if kind == "mod":
        comps.append(_comp("PV", None, [["src", "v", "func", [], [], []]]))
        nm = rng.randint(1, 3)
        hot_j = rng.randrange(nm)
        for j in range(nm):
            comps.append(_comp(f"PM{j}", None, [["mod", "v", mk, hot() if j == hot_j else [], [], []]]))
        rv = ["v"]
    elif kind == "src":
        comps.append(_comp("PV", None, [["src", "v", mk, hot(), [], []]]))
        rv = ["v"]
    elif kind == "rate":          # the same through register_rate_producer
        comps.append(_comp("PV", None, [["rate", "v", mk, hot(), [], []]]))
        rv = ["v"]
    elif kind == "stepmod":       # A needs the step-size pipeline; a step-size modifier needs z
        comps.append(_comp("PT", None, [["stepmod", mk, hot(), [], []]]))
        rv = ["simulant_step_size"]
    elif kind == "tablemod":      # the modifier is a real LookupTable (named lookup_table_<n>)
        comps.append(_comp("PV", None, [["src", "v", "table", [], [], []], ["mod", "v", "table", hot(), [], []]]))
        rv = ["v"]
    elif kind == "objmod":        # the modifier is a callable object / functools.partial (no name at all)
        comps.append(_comp("PV", None, [["src", "v", "partial", [], [], []]]))
        comps.append(_comp("PM", None, [["mod", "v", rng.choice(["object", "partial"]), hot(), [], []]]))
        rv = ["v"]
    elif kind == "sharedsrc":     # ONE function object is the source of two pipelines; only the second registration needs z
        comps.append(_comp("PV", None, [["src", "u", "sfunc", [], [], []], [rng.choice(["src", "rate"]), "v", "sfunc", hot(), [], []]]))
        rv = ["v"]
    elif kind == "sharedmod":     # ONE function object modifies v twice; only the second registration needs z
        comps.append(_comp("PV", None, [["src", "v", "func", [], [], []], ["mod", "v", "sfunc", [], [], []], ["mod", "v", "sfunc", hot(), [], []]]))
        rv = ["v"]
    elif kind == "sharedtable":   # ONE LookupTable is the source of u and a modifier of v; only the second needs z
        comps.append(_comp("PV", None, [["src", "u", "stable", [], [], []], ["src", "v", "func", [], [], []], ["mod", "v", "stable", hot(), [], []]]))
        rv = ["v"]
    elif kind == "stream":
        keys = hot("zz_nokey")
        comps.append(_comp("PS", None, [["strm", "s", False]]))
        rs = ["s"]
    elif kind == "srcpipe":       # v's source IS the pipeline w (registered, hence named, in the same component)
        comps.append(_comp("PV", None, [["src", "w", "func", hot(), [], []], ["src", "v", "pipe:w", [], [], []]]))
        rv = ["v"]
    elif kind == "modpipe":       # v is modified by the pipeline w
        comps.append(_comp("PV", None, [["src", "w", "func", [z], [], []], ["src", "v", "func", [], [], []], ["mod", "v", "pipe:w", [], [], []]]))
        rv = ["v"]
    elif kind == "deepvalues":    # value -> value -> modifier -> stream -> key column
        keys = hot("zz_nokey")
        comps.append(_comp("PS", None, [["strm", "s", False]]))
        comps.append(_comp("PW", None, [["src", "w", "func", [], [], []]]))
        comps.append(_comp("PWM", None, [["mod", "w", mk, [], [], ["s"]]]))
        comps.append(_comp("PV", None, [["src", "v", "named", [], ["w"], []]]))
        rv = ["v"]
    elif kind == "unsourced":     # a pipeline nobody sources still orders through its modifier
        comps.append(_comp("PM", None, [["mod", "v", mk, hot(), [], []]]))
        rv = ["v"]
    if first:                     # … and before A's own requirement
        rv = ["zz_noval"] + rv if rv else rv
        rs = ["zz_nostrm"] + rs if rs else rs
    null_consumer = rng.random() < 0.3 if null_consumer is None else null_consumer
    explicit = rng.random() < 0.3 if explicit is None else explicit
    cr = [] if null_consumer else ["a"]
    comps.append(_comp("A", None, [["init", cr, [], rv, rs, rng.choice(["kw", "pos", "sparse"])]]) if explicit else _comp("A", _hook(cr, rv=rv, rs=rs)))
    if not explicit:
        comps[-1]["hook"]["form"] = rng.choice(["list", "tuple", "str", "omit"])
    for k in range(rng.randint(0, 2)):
        comps.append(_comp(f"X{k}", _hook([f"x{k}"])))
    rng.shuffle(comps)
    return {"kind": "sim", "keys": keys, "pop": rng.choice([1, 2, 3]), "births": [], "comps": comps, "why": "adv-" + kind}


def gen_finding(rng, which=None):
    """a Pipeline object obtained with `get_value` BEFORE that pipeline has a source and then used as source /
    modifier, behind a deep chain (finding F17, repaired: the object had no name then and the dependency
    was recorded as `value.None`, so the order depended on the supply order)"""
    which = which or rng.choice(["src", "mod"])
    depth = rng.randint(2, 4)
    comps = [_comp(f"D{d}", _hook([f"d{d}"], rc=[f"d{d - 1}"] if d else [])) for d in range(depth)]
    z = f"d{depth - 1}"
    comps.append(_comp("PW", None, [["src", "w", "func", [z], [], []]]))
    if which == "src":
        comps.append(_comp("PV", None, [["src", "v", "pipe:w", [], [], []]]))
    else:
        comps.append(_comp("PV", None, [["src", "v", "func", [], [], []], ["mod", "v", "pipe:w", [], [], []]]))
    comps.append(_comp("A", _hook(["a"], rv=["v"])))
    rng.shuffle(comps)
    return {"kind": "sim", "keys": [], "pop": 2, "births": [], "comps": comps, "why": "pipeobj-" + which}


def gen_bare(rng, tier):
    n = rng.randint(2, 10 if tier == "quick" else 16)
    names = [f"r{i}" for i in range(n + 2)]
    ops, label = [], 0
    dens = rng.choice([0.1, 0.25, 0.45])
    acyclic = rng.random() < 0.6
    made = []
    for i in range(n):
        t = rng.choice(["column", "column", "column", "value", "stream", "value_source", "value_modifier", "missing_value_source"])
        if rng.random() < 0.05:
            t = rng.choice(["null", "col", ""]) or "x"
        k = rng.choice([0, 1, 1, 1, 2, 3])
        if rng.random() < 0.12 and made:
            ns = [rng.choice(made)[1]]          # an existing name: duplicate if the type matches too
            t = rng.choice(made)[0] if rng.random() < 0.7 else t
        else:
            ns = [f"{names[i]}{'abc'[q]}" for q in range(k)]
        if k >= 2 and rng.random() < 0.15 and made:
            ns[-1] = rng.choice(made)[1]        # duplicate at a later name: partial insertion
        pool = made[:] if acyclic else made + [(t, x) for x in ns] + [("column", f"{names[j]}a") for j in range(i, n)]
        deps = [f"{a}.{b}" for a, b in pool if rng.random() < dens]
        if rng.random() < 0.1:
            deps.append("column.nobody")
        rng.shuffle(deps)
        ops.append(["add", t, ns, f"p{label}", deps])
        label += 1
        made += [(t, x) for x in ns]
        if rng.random() < 0.06:
            ops.append([rng.choice(["graph", "iter"])])
        if rng.random() < 0.12:     # an earlier registration once more, verbatim, after the ones in between
            old = rng.choice([o for o in ops if o[0] == "add"])
            if old[2]:
                ops.append(list(old))
            else:                   # (a producer of nothing is a new group every time: give it its own label)
                ops.append(["add", old[1], [], f"p{label}", list(old[4])])
                label += 1
    ops.append(["graph"])
    ops.append(["iter"])
    if rng.random() < 0.3:
        ops.append(["add", "column", [f"late{label}"], f"p{label}", [f"column.{made[0][1]}"] if made else []])
        ops.append(["iter"])
        ops.append(["graph"])
    ops.append(["iter"])
    return {"kind": "bare", "ops": ops}


# ------------------------------------------------------------------------------------------ the property
class C09(Prop):
    id = "C09"
    lean_modules = ["VivModel.Props.C09", "VivModel.Props.C09Src"]
    build_targets = ["VivModel.Model.Topo", "VivModel.Model.Proto"]
    driver = "C09"
    technique = ("Lean 4 proof (certified order checker, soundness + completeness of the model's Kahn sort, cycle <-> no valid "
                 "order, observed-order check, duplicate producers, implicit edges of the registration services) + per-run "
                 "certified check of the order the REAL initializers ran in + outcome class + node/edge-set comparison with "
                 "the real networkx graph")
    partial = ("networkx.topological_sort is external: its output is validated by the proved checker on every explored program "
               "(initial creation and births), not proved; which of the valid orders it returns is reported, not compared")
    trusted_extra = ["networkx (external): only its output is checked, per run, by the proved checker",
                     "harness reading of Component.setup_component (setup() first, then the Component-level initializer); "
                     "cross-checked on every run by the node/edge-set comparison with the real graph"]
    n_quick = 220
    n_thorough = 2500
    workers = 6
    case_timeout = 120
    rule = ("sim case = one program of probe components (2-8 initializers declared by Component hooks or explicit "
            "initializes_simulants, 0-4 pipelines with 0-3 modifiers, 0-3 streams, raw add_resources, unmet requirements, "
            "injected cycles / duplicate producers, depth-adversarial programs per implicit edge) run under every permutation "
            "of the supply order (<= 4 components) or sampled ones, with births from a time-step listener; bare case = "
            "random add_resources/graph/iteration sequence on a bare ResourceManager; distinct by case hash; non-trivial = "
            "some run called >= 2 probe initializers under at least one ordering constraint, or was refused")

    # ---------------------------------------------------------------- generation
    def boundary(self):
        rng = random.Random(909)
        out = [{"kind": "types"}]
        # exp33: the four-deep chain behind a modifier, every consumer style
        for kind in ADV:
            c = gen_adversarial(rng, kind, depth=4, null_consumer=False, explicit=False)
            c["orders"] = _orders(rng, len(c["comps"]), "quick", k=3)
            c["births"] = [[1], [2]]
            out.append(c)
        c = gen_adversarial(rng, "mod", depth=5, null_consumer=True, explicit=True)
        c["orders"] = _orders(rng, len(c["comps"]), "quick", k=3)
        out.append(c)
        # every cycle and duplicate kind on a tiny program, all permutations
        for kind in CYCLES:
            c = inject_cycle(rng, {"kind": "sim", "keys": [], "pop": 2, "births": [], "comps": [_comp("I0", _hook(["c0"]))], "why": ""}, kind)
            c["orders"] = _orders(rng, len(c["comps"]), "quick")
            out.append(c)
        for kind in DUPS:
            c = inject_dup(rng, {"kind": "sim", "keys": [], "pop": 2, "births": [], "comps": [_comp("I0", _hook(["c0"]))], "why": ""}, kind)
            c["orders"] = _orders(rng, len(c["comps"]), "quick")
            out.append(c)
        # unmet requirements of every kind, a CRN stream, an unsourced pipeline, a pipeline nobody declared
        out.append({"kind": "sim", "keys": ["k"], "pop": 2, "births": [[1]], "why": "unmet",
                    "comps": [_comp("A", _hook(["a"], rc=["nocol"], rv=["noval", "got"], rs=["nostrm", "crn"])),
                              _comp("K", _hook(["k"])), _comp("S", None, [["strm", "crn", True], ["getv", "got"]])],
                    "orders": _orders(rng, 3, "quick")})
        # empty initial population, then births; an initializer that creates nothing and requires nothing
        out.append({"kind": "sim", "keys": [], "pop": 0, "births": [[2], [1, 1]], "why": "pop0",
                    "comps": [_comp("A", _hook(["a"], rc=["b"])), _comp("B", _hook(["b"])), _comp("N", _hook([]))],
                    "orders": _orders(rng, 3, "quick")})
        # every declaration form at once: requirements omitted / tuples / strings / positional / sparse keywords, an unmet
        # requirement listed FIRST in every list (and an unmet key column and `tracked` among the key columns), rate
        # producer, step-size modifier, lookup table and nameless callables, births from all four phases with count 0,
        # an untracked simulant, components supplied as nested sub-components
        out.append({"kind": "sim", "keys": ["zz_nokey", "tracked", "k"], "pop": 2, "why": "forms", "untrack": True,
                    "births": [[[0, 0], [1, 2], [2, 1], [3, 0]], [[3, 1], [0, 1]]], "shape": {"span": [0, 5], "nested": True},
                    "comps": [_comp("A", dict(_hook(["a"], rc=["zz_nocol", "b"], rv=["zz_noval", "v", "simulant_step_size"], rs=["zz_nostrm", "s"]), form="omit")),
                              _comp("B", None, [["init", ["b"], ["zz_nocol", "k"], [], [], "pos"], ["strm", "s", False]]),
                              _comp("K", None, [["init", ["k"], [], [], [], "sparse"], ["stepmod", "partial", ["zz_nocol", "b"], [], []]]),
                              _comp("V", dict(_hook([], rv=["v"]), form="str"),
                                    [["rate", "v", "table", ["zz_nocol", "b"], [], []], ["mod", "v", "object", [], [], ["zz_nostrm", "s"]],
                                     ["mod", "v", "table", ["b", "b"], [], []]]),
                              _comp("T", dict(_hook(["t"], rc=["a"]), form="tuple"))],
                    "orders": [[0, 1, 2, 3, 4], [4, 3, 2, 1, 0], [3, 0, 4, 2, 1]]})
        # registrations after setup: in post_setup (counted) and during the first step (the order is cached: ignored, even
        # though one of them would provide a requirement that was unmet and the other would close a cycle); shared list and
        # callable objects; the same simulation run a second time at the end
        out.append({"kind": "sim", "keys": [], "pop": 1, "why": "late", "share": True,
                    "births": [[[0, 1], [2, 0]], [[1, 2]]],
                    "comps": [dict(_comp("A", _hook(["a"], rc=["zz_nocol", "b"])), late=[["step", "column", ["zz_nocol"], ["column.a"]]]),
                              dict(_comp("B", None, [["init", ["b"], [], [], [], "sparse"], ["src", "u", "sfunc", [], [], []],
                                                     ["src", "v", "sfunc", ["b"], [], []]]),
                                   late=[["post", "column", ["lp"], ["column.a"]], ["post", "stream", [], ["column.lp", "value.v"]],
                                         ["step", "stream", [], ["column.a"]]]),
                              _comp("C", _hook(["c"], rv=["v"]))],
                    "orders": _orders(rng, 3, "quick") + [[0, 1, 2]]})
        # the finding, both kinds, all permutations
        for w in ("src", "mod"):
            c = gen_finding(random.Random(5), w)
            c["comps"] = [x for x in c["comps"]]
            c["orders"] = _orders(rng, len(c["comps"]), "quick", k=6)
            out.append(c)
        # bare manager: diamond, cycles of the repository's own tests, partial insertion, late registration
        out.append({"kind": "bare", "ops": [["add", "column", ["a"], "pa", []], ["add", "column", ["b"], "pb", ["column.a"]],
                                             ["add", "column", ["c"], "pc", ["column.a"]], ["add", "column", [], "pn", ["column.b", "column.c"]],
                                             ["add", "stream", [], "pn2", ["null.0"]], ["graph"], ["iter"], ["iter"]]})
        out.append({"kind": "bare", "ops": [["add", "column", ["a", "b"], "p0", ["column.c"]], ["add", "column", ["c"], "p1", ["column.b"]],
                                             ["iter"], ["graph"], ["iter"]]})
        out.append({"kind": "bare", "ops": [["add", "column", ["a"], "p0", []], ["add", "column", ["b", "a", "c"], "p1", []],
                                             ["add", "column", ["c"], "p2", ["column.b"]], ["add", "value", ["a"], "p3", ["column.a"]],
                                             ["add", "colum", ["z"], "p4", []], ["graph"], ["iter"],
                                             ["add", "column", ["late"], "p5", ["column.a"]], ["iter"], ["graph"]]})
        out.append({"kind": "bare", "ops": [["add", "column", ["a"], "p0", ["column.a"]], ["iter"]]})
        out.append({"kind": "bare", "ops": [["iter"], ["graph"]]})
        return out

    def generate(self, rng: random.Random, i: int, tier: str):
        r = rng.random()
        if r < 0.2:
            return gen_bare(rng, tier)
        if r < 0.42:
            c = gen_adversarial(rng, rng.choice(ADV))
        elif r < 0.45:
            c = gen_finding(rng)
        else:
            small = rng.random() < 0.3
            c = gen_dag(rng, *((rng.randint(1, 3), rng.randint(0, 1), rng.randint(0, 1), False) if small else ()))
            q = rng.random()
            if q < 0.22:
                c = inject_cycle(rng, c, rng.choice(CYCLES))
            elif q < 0.42:
                c = inject_dup(rng, c, rng.choice(DUPS))
        c["orders"] = _orders(rng, len(c["comps"]), tier)
        if rng.random() < 0.5:      # births from every main-loop phase, zero-count births included
            c["births"] = [[[rng.randrange(4), rng.choice([0, 1, 1, 2])] for _ in range(rng.randint(1, 3))] for _ in range(rng.randint(1, 2))]
            c["untrack"] = rng.random() < 0.3
        if rng.random() < 0.3:      # supplied as sub-components of a parent (flat or nested lists / tuples)
            c["shape"] = {"span": [rng.randrange(8), rng.randrange(9)], "nested": rng.random() < 0.5}
        c["share"] = rng.random() < 0.35    # equal declarations made with the same list / callable object
        if rng.random() < 0.5:      # the exact same simulation once more, after the others (state left behind in the process?)
            c["orders"] = c["orders"] + [list(c["orders"][0])]
        return c

    def shrink(self, case):
        if case["kind"] == "bare":
            for i in range(len(case["ops"]) - 1, -1, -1):
                yield dict(case, ops=case["ops"][:i] + case["ops"][i + 1:])
            return
        if case["kind"] != "sim":
            return
        if len(case["orders"]) > 1:
            for o in case["orders"]:
                yield dict(case, orders=[o])
        if case.get("births"):
            yield dict(case, births=[])
        n = len(case["comps"])
        for i in range(n):
            comps = case["comps"][:i] + case["comps"][i + 1:]
            orders = [[j - (j > i) for j in o if j != i] for o in case["orders"]]
            yield dict(case, comps=comps, orders=orders)
        for i, c in enumerate(case["comps"]):
            for j in range(len(c["setup"])):
                c2 = dict(c, setup=c["setup"][:j] + c["setup"][j + 1:])
                yield dict(case, comps=case["comps"][:i] + [c2] + case["comps"][i + 1:])

    # ---------------------------------------------------------------- implementation
    def run_impl(self, case):
        if case["kind"] == "types":
            impl.load()
            from vivarium.framework import resource
            return {"types": sorted(resource.RESOURCE_TYPES), "null": resource.NULL_RESOURCE_TYPE}
        if case["kind"] == "bare":
            return _run_bare(case)
        return {"runs": [_run_sim(case, o) for o in case["orders"]]}

    # ---------------------------------------------------------------- model
    def _plan(self, case, obs):
        P = []
        if case["kind"] == "types":
            return [("types", ("types",))]
        if case["kind"] == "bare":
            P.append(("bare new", ("new", 0)))
            for i, (op, res) in enumerate(zip(case["ops"], obs["ops"])):
                if op[0] == "add":
                    P.append((f"add {op[1] or 'x'} {L(op[2])} {op[3]} {L(op[4])}", ("add", i)))
                elif op[0] == "graph":
                    P += [("nodes", ("nodes", i)), ("edges", ("edges", i))]
                else:
                    P.append(("outcome", ("iter", i)))
                    if res[0] == "ok":
                        P.append((f"order {L(res[1])} -", ("order", i)))
                        P.append(("kahn", ("kahn", i)))
            return P
        for r, order in enumerate(case["orders"]):
            run = obs["runs"][r]
            P.append((f"sim new {L(case['keys'])} {CLOCK}", ("new", r)))
            P += [(render(reg), ("reg", r)) for reg in flatten(case, order)]
            P.append(("post", ("reg", r)))
            late_post, late_step = late_regs(case, order)
            P += [(render(reg), ("reg", r)) for reg in late_post]       # component post_setup listeners run after the values manager's
            P.append(("outcome", ("outcome", r)))                       # first access: the graph is cached from here on
            if birth_plan(case):
                P += [(render(reg), ("reg", r)) for reg in late_step]   # registered during the first step: too late, ignored
            if run["graph"] is not None and "error" not in run["graph"]:
                P += [("nodes", ("nodes", r)), ("edges", ("edges", r))]
            seen = []
            for k, cr in enumerate(run["creations"]):
                if run["error"] is not None and k == len(run["creations"]) - 1:
                    continue            # the creation that raised: the outcome class already differs or agrees
                o = _with_pm(cr["calls"])
                if o not in seen:
                    seen.append(o)
                    P.append((f"order {L(o)} {CLOCK}", ("order", r, k)))
            if seen:
                P.append(("kahn", ("kahn", r, seen[0])))
        return P

    def model_lines(self, case, obs):
        return [l for l, _ in self._plan(case, obs)]

    def compare(self, case, obs, replies):
        dis = []
        stats = obs.setdefault("_model", {"exact": 0, "bygen": 0, "orders": 0, "outcomes": []})
        for (line, tag), rep in zip(self._plan(case, obs), replies):
            t = tag[0]
            if rep == "bad-op":
                dis.append(f"driver refused line {line!r}")
            elif t == "types":
                a, b = rep.split()
                if sorted(a.split(",")) != obs["types"] or b != obs["null"]:
                    dis.append(f"RESOURCE_TYPES: impl {obs['types']} / {obs['null']}, model {rep}")
            elif t == "new" and rep != "ok":
                dis.append(f"model refused the framework's own registrations: {rep}")
            elif t == "add":
                res = obs["ops"][tag[1]]
                if (res[0] == "ok") != (rep == "ok"):
                    dis.append(f"add #{tag[1]} {case['ops'][tag[1]]}: impl {res}, model {rep}")
            elif t == "iter":
                res = obs["ops"][tag[1]]
                want = "ok" if res[0] == "ok" else "cycle"
                stats["outcomes"].append(rep)
                if rep != want or (res[0] == "err" and res[1] != "ResourceError"):
                    dis.append(f"iteration #{tag[1]}: impl {res[:2] if res[0] == 'err' else 'ok'}, model {rep}")
            elif t == "outcome":
                run = obs["runs"][tag[1]]
                stats["outcomes"].append(rep)
                if MODEL_CLASS.get(rep) != _impl_class(run):
                    dis.append(f"outcome (supply order {case['orders'][tag[1]]}): impl {_impl_class(run)} {run['error']}, model {rep}")
            elif t in ("nodes", "edges"):
                if case["kind"] == "bare":
                    res = obs["ops"][tag[1]]
                    if res[0] != "ok":
                        dis.append(f"graph #{tag[1]}: impl {res}")
                        continue
                    g = {"nodes": res[1], "edges": res[2]}
                else:
                    g = obs["runs"][tag[1]]["graph"]
                items = [] if rep == "-" else rep.split(",")
                if t == "nodes":
                    mine = sorted([x.split("|")[0], x.split("|")[1]] for x in items)
                    if mine != g["nodes"]:
                        dis.append(f"node set differs ({tag[1]}): impl-only {[x for x in g['nodes'] if x not in mine][:4]}, model-only {[x for x in mine if x not in g['nodes']][:4]}")
                else:
                    mine = sorted({tuple(x.split(">")) for x in items})
                    theirs = sorted(tuple(e) for e in g["edges"])
                    if mine != theirs:
                        dis.append(f"edge set differs ({tag[1]}): impl-only {[e for e in theirs if e not in mine][:4]}, model-only {[e for e in mine if e not in theirs][:4]}")
            elif t == "order":
                stats["orders"] += 1
                if not rep.startswith("valid 1"):
                    dis.append(f"observed order fails the certified check ({tag[1:]}): {line[:160]} -> {rep}")
                elif rep == "valid 1 1":
                    stats["exact"] += 1
            elif t == "kahn":
                if rep != "cycle" and len(rep.split()) == 2:
                    gens = [g.split(",") for g in rep.split()[1].split(";")]
                    obs_o = tag[2] if case["kind"] == "sim" else obs["ops"][tag[1]][1]
                    flat, ok = [x for x in obs_o if x != CLOCK], True
                    pos = 0
                    for g in gens:
                        g = [x for x in g if x != CLOCK]
                        if sorted(flat[pos:pos + len(g)]) != sorted(g):
                            ok = False
                        pos += len(g)
                    stats["bygen"] += ok
        return dis

    # ---------------------------------------------------------------- oracle (the property itself)
    def oracle(self, case, obs):
        if case["kind"] == "types":
            return []
        if case["kind"] == "bare":
            return self._oracle_bare(case, obs)
        fails = []
        for order, run in zip(case["orders"], obs["runs"]):
            fails += self._oracle_run(case, order, run)
            if fails:
                break
        return fails

    def _oracle_run(self, case, order, run):
        late_post, late_step = late_regs(case, order)
        A = analyse(PRELUDE + flatten(case, order) + late_post, case["keys"])
        dontcare = {r["label"] for r in late_step}      # registered after the order was fixed: the property is silent
        if A["badtype"]:
            return []
        f = []
        where = f"supply order {[case['comps'][i]['name'] for i in order]}"
        ncalls = sum(len(c["calls"]) for c in run["creations"])
        err = run["error"]
        if err is not None and not err[2]:
            return [{"sig": "unexpected-exception", "msg": f"{where}: {err}"}]
        if A["dups"] or A["cyclic"]:
            what = "duplicate-producer" if A["dups"] else "cycle"
            if err is None or ncalls:
                f.append({"sig": what + "-not-refused", "msg": f"{where}: declarations contain a {what} ({A['dups'][:3]}), outcome {err}, "
                                                                f"{ncalls} initializer calls: {[c[0] for cr in run['creations'] for c in cr['calls']][:12]}"})
            return f
        if err is not None:
            # a valid program (no cycle, no duplicate producer) must create its simulants
            last = run["creations"][-1] if run["creations"] else None
            if last is not None and last["calls"]:
                f.append({"sig": "partial-creation", "msg": f"{where}: {err} after {[c[0] for c in last['calls']]} had run"})
            elif err[0] == "birth" or (err[0] == "create" and err[1] != "ResourceError"):
                f.append({"sig": "creation-failed", "msg": f"{where}: valid declarations, yet creating simulants raised {err} "
                                                            f"(creation #{len(run['creations']) - 1}) before the probe initializers were called"})
            elif not A["double_init"]:
                # e.g. state left over from an earlier registration / an earlier simulation of the same process
                f.append({"sig": "valid-program-refused", "msg": f"{where}: the declarations contain neither a cycle nor two producers of "
                                                                  f"one resource, yet the simulation refused with {err}"})
            return f
        probes = [t for t in A["inits"] if t not in (PM, CLOCK)]
        # the dependency graph the order is read from must contain a path producer -> consumer for every requirement
        # the declarations imply (an edge that cannot change the order networkx returns is otherwise invisible)
        g = run.get("graph")
        if g and "edges" in g:
            part = {x: n for n, _ in g["nodes"] for x in n.split("+")}
            adj = {}
            for u, v in g["edges"]:
                adj.setdefault(u, []).append(v)
            _, reach = _reach({n: adj.get(n, []) for n, _ in g["nodes"]})
            for lab in probes:
                nx_ = part.get(A["things"][lab]["node"])
                for p_ in sorted(A["before"].get(lab, ())):
                    np_ = part.get(A["things"][p_]["node"])
                    if nx_ is None or np_ is None or nx_ not in reach.get(np_, ()):
                        f.append({"sig": "declared-dependency-not-in-graph",
                                  "msg": f"{where}: {lab} (node {A['things'][lab]['node']}) requires {p_} (node {A['things'][p_]['node']}) "
                                         f"but the resource graph has no path between them"})
                        return f
        total = 0
        for k, cr in enumerate(run["creations"]):
            labels = [c[0] for c in cr["calls"] if c[0] not in dontcare]
            if sorted(labels) != sorted(probes):
                f.append({"sig": "initializer-not-once", "msg": f"{where} creation {k}: called {labels}, registered {probes}"})
                return f
            want = list(range(total, total + cr["count"]))
            total += cr["count"]
            for lab, idx, ready in cr["calls"]:
                if lab in dontcare:
                    continue
                if idx != want:
                    f.append({"sig": "wrong-index", "msg": f"{where} creation {k}: {lab} received {idx}, new simulants are {want}"})
                    return f
            if cr["ret"] is not None and cr["ret"] != want:
                f.append({"sig": "wrong-index", "msg": f"{where} creation {k}: creator returned {cr['ret']}, new simulants are {want}"})
            if cr.get("len") is not None and (cr["len"][1] != total or cr["len"][0] != total - cr["count"]):
                f.append({"sig": "wrong-index", "msg": f"{where} creation {k}: population had {cr['len'][0]} rows before and {cr['len'][1]} after "
                                                       f"creating {cr['count']}; expected {total - cr['count']} and {total}"})
            pos = {lab: i for i, lab in enumerate(labels)}
            for lab, idx, ready in cr["calls"]:
                if lab in dontcare:
                    continue
                for p in sorted(A["before"].get(lab, ())):
                    if p == PM:
                        if "tracked" not in ready:
                            f.append({"sig": "ran-before-tracked", "msg": f"{where} creation {k}: {lab} ran before the tracked column was set"})
                        continue
                    if p == CLOCK:
                        continue
                    if pos[p] > pos[lab]:
                        f.append({"sig": "ran-before-producer",
                                  "msg": f"{where} creation {k}: {lab} ran before {p}, which it (transitively) requires; order {labels}"})
                        return f
                    missing = [c for c in A["things"][p]["creates"] if c not in ready]
                    if missing and idx:
                        f.append({"sig": "required-column-not-populated", "msg": f"{where} creation {k}: {lab} called while {missing} of {p} not populated"})
                        return f
        return f

    def _oracle_bare(self, case, obs):
        f = []
        prod, things, first_access, late, expected_edges = {}, {}, None, False, None
        for i, (op, res) in enumerate(zip(case["ops"], obs["ops"])):
            if op[0] == "add":
                _, t, names, label, deps = op
                if first_access is not None:
                    late = True
                if t not in TYPES:
                    continue
                long = [f"{t}.{n}" for n in names] if names else None
                dup = long is not None and (len(set(long)) < len(long) or any(x in prod for x in long))
                if dup:
                    if res[0] == "ok":
                        f.append({"sig": "duplicate-producer-not-refused", "msg": f"op #{i} {op}: accepted although {[x for x in long if x in prod]} already has a producer"})
                    # the names inserted before the refusal stay registered (as the code does); don't care for the order
                    for x in long:
                        if x in prod:
                            break
                        prod[x] = None
                    continue
                if res[0] != "ok":
                    f.append({"sig": "valid-registration-refused", "msg": f"op #{i} {op}: known type, every name free, yet refused with {res}"})
                    return f
                things[label] = {"deps": deps, "init": (not names) or t == "column"}
                for x in long or []:
                    prod[x] = label
                if long is None:
                    nulls = sum(1 for v in prod if v.startswith("null."))
                    prod[f"null.{nulls}"] = label
                    long = [f"null.{nulls}"]
                things[label]["node"] = "+".join(long)
            elif op[0] == "iter":
                if first_access is None:
                    first_access = i
                if late:
                    continue
                succ = {l: [prod[d] for d in t["deps"] if prod.get(d) in things] for l, t in things.items()}
                cyc, reach = _reach(succ)
                if cyc:
                    if res[0] == "ok":
                        f.append({"sig": "cycle-not-refused", "msg": f"op #{i}: iteration returned {res[1]} on cyclic declarations"})
                    continue
                if res[0] != "ok":
                    continue
                got = [l for l in res[1] if l in things]
                want = [l for l, t in things.items() if t["init"]]
                if sorted(got) != sorted(want):
                    f.append({"sig": "initializer-not-once", "msg": f"op #{i}: iterated {res[1]}, initializers {want}"})
                    continue
                pos = {l: k for k, l in enumerate(got)}
                for l in got:
                    for p in reach[l]:
                        if p in pos and pos[p] > pos[l]:
                            f.append({"sig": "ran-before-producer", "msg": f"op #{i}: {l} before {p} in {got}"})
                            return f
            else:
                if first_access is None:
                    first_access = i
                if late is False and expected_edges is None:
                    expected_edges = sorted({(things[prod[d]]["node"], t["node"]) for t in things.values()
                                             for d in t["deps"] if prod.get(d) in things})
                if expected_edges is not None and res[0] == "ok":
                    got = {tuple(e) for e in res[2]}
                    miss = [e for e in expected_edges if e not in got]
                    if miss:
                        f.append({"sig": "declared-dependency-not-in-graph", "msg": f"op #{i}: the graph lacks the declared dependencies {miss[:4]}"})
                        return f
        return f

    # ---------------------------------------------------------------- reporting
    def nontrivial(self, case, obs):
        if case["kind"] == "types":
            return False
        if case["kind"] == "bare":
            return any(r[0] == "ok" and len(r) == 2 and len(r[1]) >= 2 for r in obs["ops"]) or any(r[0] == "err" for r in obs["ops"])
        for order, run in zip(case["orders"], obs["runs"]):
            if run["error"] is not None:
                return True
            A = analyse(PRELUDE + flatten(case, order), case["keys"])
            if any(len(c["calls"]) >= 2 for c in run["creations"]) and any(v - {PM} for v in A["before"].values()):
                return True
        return False

    def tags(self, case, obs):
        t = ["kind:" + case["kind"]]
        if case["kind"] == "types":
            return t
        m = obs.get("_model", {})
        for o in m.get("outcomes", []):
            t.append("model-outcome:" + o)
        if m.get("orders"):
            t.append("order-exact" if m["exact"] == m["orders"] else "order-differs-from-model-kahn")
        if m.get("bygen"):
            t.append("order-by-generation")
        if case["kind"] == "bare":
            for op, r in zip(case["ops"], obs["ops"]):
                t.append(f"bare-{op[0]}:{r[0]}")
            if any(op[0] == "add" and not op[2] for op in case["ops"]):
                t.append("null-node")
            return t
        t.append("why:" + case["why"])
        t.append("perms:all" if len(case["comps"]) <= 4 else "perms:sampled")
        t.append(f"comps:{min(len(case['comps']), 9)}")
        t.append("births" if case.get("births") else "no-births")
        t.append(f"pop:{case['pop']}")
        if case["keys"]:
            t.append("key-columns")
        ops = {op[0] for c in case["comps"] for op in c["setup"]}
        t += ["op:" + o for o in sorted(ops)]
        if any(c["hook"] is not None for c in case["comps"]):
            t.append("op:hook-initializer")
        if any(op[0] in ("src", "mod") and op[2].startswith("pipe:") for c in case["comps"] for op in c["setup"]):
            t.append("pipeline-object-callable")
        for k in ("func", "method", "named", "object", "partial", "table"):
            if any((op[0] == "mod" and op[2] == k) or (op[0] == "stepmod" and op[1] == k) for c in case["comps"] for op in c["setup"]):
                t.append("modifier-kind:" + k)
            if any(op[0] in ("src", "rate") and op[2] == k for c in case["comps"] for op in c["setup"]):
                t.append("source-kind:" + k)
        for c in case["comps"]:
            if c["hook"] is not None:
                t.append("hook-form:" + c["hook"].get("form", "list"))
            for op in c["setup"]:
                if op[0] == "init":
                    t.append("init-call:" + (op[5] if len(op) > 5 else "kw"))
        for step in birth_plan(case):
            for ph, cnt in step:
                t.append(f"birth-phase:{ph}")
                t.append("birth-count:0" if cnt == 0 else "birth-count:1+")
        if case.get("untrack"):
            t.append("untracked-before-births")
        if case.get("share"):
            t.append("shared-containers-and-callables")
        if len(case["orders"]) >= 2 and case["orders"][-1] == case["orders"][0]:
            t.append("same-simulation-repeated")
        for c in case["comps"]:
            for l in c.get("late") or []:
                t.append("late-registration:" + l[0])
        if any(op[0] in ("src", "rate", "mod") and op[2] in ("sfunc", "stable") for c in case["comps"] for op in c["setup"]):
            t.append("one-callable-two-registrations")
        if case.get("shape"):
            t.append("shape:sub-components" + ("-nested" if case["shape"].get("nested") else ""))
        if any(k in ("zz_nokey", "tracked") for k in case["keys"]):
            t.append("key-column-unmet-or-tracked")
        for c in case["comps"]:
            lists = ([c["hook"][k] for k in ("rc", "rv", "rs")] if c["hook"] else []) + \
                    [x for op in c["setup"] if op[0] in ("init", "src", "rate", "mod", "stepmod") for x in op[1:] if isinstance(x, list)]
            if any(len(x) >= 2 and x[0].startswith("zz_no") for x in lists):
                t.append("unmet-requirement-listed-first")
        if any((c["hook"] is not None and not c["hook"]["creates"]) for c in case["comps"]):
            t.append("null-node")
        if any("zz_no" in x for c in case["comps"] if c["hook"] for k in ("rc", "rv", "rs") for x in c["hook"][k]) or \
                any("zz_no" in str(op) for c in case["comps"] for op in c["setup"]):
            t.append("unmet-requirement")
        for run in obs["runs"][:1]:
            t.append("impl:" + _impl_class(run).split(":")[0] + (":" + run["error"][1] if run["error"] else ""))
            if run["graph"] and "edges" in run["graph"]:
                kinds = set()
                for u, v in run["graph"]["edges"]:
                    a, b = u.split(".")[0], v.split(".")[0]
                    kinds.add(f"edge:{a}>{b}")
                t += sorted(kinds)
        return t

    def sample_view(self, case, obs):
        if case["kind"] != "sim":
            return {"case": case, "observed": obs}
        run = obs["runs"][0]
        return {"why": case["why"], "components": [c["name"] for c in case["comps"]], "supply_order": case["orders"][0],
                "n_supply_orders": len(case["orders"]), "outcome": _impl_class(run),
                "observed_orders": [[c[0] for c in cr["calls"]] for cr in run["creations"]][:3],
                "n_edges": len(run["graph"]["edges"]) if run["graph"] and "edges" in run["graph"] else None}


def _reach(succ):
    """(cyclic?, transitive successors) of a finite relation given as adjacency lists"""
    color, reach, cyc = {}, {}, False
    for root in succ:
        if root in color:
            continue
        stack = [(root, iter(succ[root]))]
        color[root] = 1
        while stack:
            node, it = stack[-1]
            nxt = next(it, None)
            if nxt is None:
                color[node] = 2
                r = set()
                for s in succ[node]:
                    r.add(s)
                    r |= reach.get(s, set())
                reach[node] = r
                stack.pop()
            elif color.get(nxt) == 1:
                cyc = True
            elif nxt not in color:
                color[nxt] = 1
                stack.append((nxt, iter(succ[nxt])))
    return cyc, reach


PROP = C09()
