"""C10 — per-simulant clocks: nobody is skipped, nobody is updated early.

Tie: differential correspondence. A real `SimulationContext` (driven by `run()`, `run(backup_path, backup_freq)`
or `run_simulation()`) or `InteractiveContext` (driven by `step()`, `step(step_size)`, `take_steps(n[, step_size])`,
`run_until`, `run_for`, `run`) with a `DateTimeClock`; one or two probe components register 0–3 scripted
step-size modifiers (through `builder.time.register_step_size_modifier` with / without keywords or through
`builder.value.register_value_modifier("simulant_step_size")`; lambdas, bound methods, callable objects,
partials; Series that are complete / NaT-filled / partial / permuted / a superset of the request), issue scripted
move-to-end requests (`builder.time.move_simulants_to_end()`; index sorted / reversed / RangeIndex / object /
float dtype), births, untracking and re-tracking from their listeners, and log for every main-loop event
`event.index`, `clock()`, `step_size()`, `event.time`, `event.step_size` and the `simulant_next_event_times` /
`simulant_step_sizes` of the WHOLE population (untracked simulants included). The same operations go to
`Driver/C10.lean` (model `Viv.Clock`); every logged number is compared exactly. Time unit = 1 hour (all inputs are
whole hours, so pandas' nanosecond arithmetic and the float division of the post-processor are exact).
Without any modifier (`mods == []`) the clock has no per-simulant columns; that mode is covered for the
DateTimeClock and the SimpleClock (unit = 1 tick).

Per-simulant clocks only exist with a DateTimeClock: the step-size pipeline's source is a
`timedelta64[ns]` NaT series, so a SimpleClock with a numeric modifier dies in `pd.DataFrame(values)`
(DTypePromotionError) – see notes/agent-reports/C10.md.

The oracle takes every expectation from the CASE (configured start / end / minimum / standard step, the
modifier script, the requests), never from values read back from the clock.

Lesson 16 (re-entrancy and faults): the scripted modifiers can call `move_simulants_to_end` THEMSELVES while
`step_forward` evaluates the pipeline (`nested`: for a part of the index they were called with, all of it, simulants
outside it; once or at every later update; also during the update of `initialize_simulants`), the probe's initializer
can issue requests during the creation of the initial population and of births (`birth_mte`), modifiers and listeners
can raise on purpose (`faults`), and with `catch` the harness plays a caller that wraps every public call in
try / except and carries on with the same objects. The model (`stepForwardRe`) says what a completed and what a failed
update leave behind; `InvalidTransitionError` after a listener fault before collect_metrics is a refusal of the
lifecycle (C06), recorded as outcome `refused:lifecycle`.
"""
from __future__ import annotations

import datetime
import random

from .. import impl
from ..runner import Prop

PHASES = ["time_step__prepare", "time_step", "time_step__cleanup", "collect_metrics"]
T0 = (2020, 1, 1)
HOUR_NS = 3_600_000_000_000
MAX_ITERS = 60      # no generated schedule needs more than ~60 iterations; a clock that stops advancing is cut off here

class IterationLimit(Exception):
    pass


class Planned(Exception):
    """raised on purpose by a scripted step-size modifier or listener (lesson 16: faults)"""


class Refused(Exception):
    """the lifecycle refuses to go on after a failed step (InvalidTransitionError): C06's business, the run ends here"""


# candidate findings of the round-7 audit (real code, nothing patched; `known_findings.json` is a shared file, so the
# clauses are switched off here and described in notes/agent-reports/C10.md):
#  * a move-to-end request made from inside a step-size modifier for a simulant that is NOT being updated kills the
#    step (`KeyError` in `.loc`) – signature `nested-request-raised`
FLAG_NESTED_REQUEST_RAISED = False
#  * `step_forward` moves the clock BEFORE it runs user code: after a modifier raised (and the caller caught it) the
#    clock sits on the event time, the simulants that were due are not rescheduled and the global step is stale, so
#    the next iteration does not go to the earliest pending next-event time – signature `stale-step-after-failed-step`
FLAG_STALE_STEP_AFTER_FAILED_STEP = False


# ---------------------------------------------------------------------------------------------- script
def mod_value(mod, sim: int, it: int):
    """what modifier `mod` returns for simulant `sim` when the pipeline is evaluated in update `it`
    (0 = initialize_simulants, k = end of main-loop iteration k); None = NaN / label not returned"""
    rows = mod["rows"]
    row = rows[it % len(rows)]
    return row[sim % len(row)]


def rule_step(case, sim: int, it: int) -> int:
    """the property's own rule for a simulant's step (hours), from the configured minimum / standard step"""
    mn = case["min"]
    std = case["std"] if case["std"] else mn
    vals = [v for v in (mod_value(m, sim, it) for m in case["mods"]) if v is not None]
    want = min(vals) if vals else std
    return max(mn, (want // mn) * mn)


def act_opts(a):
    return a[3] if len(a) > 3 and isinstance(a[3], dict) else {}


def acts_of(case, k: int, phase: int):
    """actions of (iteration, phase) in execution order: the first probe's listener runs before the second's"""
    lst = [a for a in case["acts"].get(str(k), []) if a[0] == phase]
    return sorted(lst, key=lambda a: act_opts(a).get("by", 0))


def listener_fault(case, k: int):
    """the scripted listener fault of iteration k: {"phase", "it", "by", "pos"} or None (the earliest one counts)"""
    fs = [f for f in case.get("faults") or [] if "phase" in f and f["it"] == k]
    return min(fs, key=lambda f: (f["phase"], f.get("by", 0))) if fs else None


def executed_acts(case, k: int, phase: int):
    """the actions of (iteration, phase) that are performed given the scripted listener faults; None = the event is
    not emitted at all (an earlier listener of the iteration raised)"""
    acts = acts_of(case, k, phase)
    f = listener_fault(case, k)
    if f is None or phase < f["phase"]:
        return acts
    if phase > f["phase"]:
        return None
    by = f.get("by", 0)
    return [a for a in acts if act_opts(a).get("by", 0) < by or (act_opts(a).get("by", 0) == by and f.get("pos") == "after")]


def is_simple(case):
    return case.get("clock", "datetime") == "simple"


def unit(case):
    """ticks per configured day (DateTimeClock: hours) or per configured unit (SimpleClock)"""
    return 1 if is_simple(case) else 24


def start_tick(case):
    return unit(case) * case.get("start_day", 0)


def stop_tick(case):
    return start_tick(case) + unit(case) * case["days"]


def _days(x, as_float=False):
    """hours -> the number the configuration takes (days; exact dyadic)"""
    if x % 24 == 0:
        return float(x // 24) if as_float else x // 24
    return x / 24


def iter_limit(case):
    """the probe-side cut-off for clocks that no longer advance: MAX_ITERS for the horizons of the quick tier (<= 14 days);
    for the long schedules of the thorough tier a bound from the case: a legal default iteration advances the clock to the
    next point of somebody's grid, every iteration with an explicit step size can put simulants on a new grid (phase),
    every scripted command / fault adds iterations that need not advance the clock"""
    if case["days"] <= 14:
        return MAX_ITERS
    d = case["drive"]
    cmds = sum((c[1] if c[0] == "take" else 1) for c in d[1]) if d[0] == "prog" else (d[1] if d[0] == "step" else 0)
    phases = 1 + (sum((c[1] if c[0] == "take" else 1) for c in d[1] if c[0] in ("step", "take") and c[2 if c[0] == "take" else 1] is not None)
                  if d[0] == "prog" else 0)
    n = (case["days"] * unit(case) // max(1, case["min"]) + 2) * phases + cmds + len(case.get("faults") or []) + 10
    return max(MAX_ITERS, min(600, n))


def interactive_cmds(case):
    """the interactive drive as (commands, finish_with_default_steps, extra_steps, chunk) – None for engine drives"""
    d = case["drive"]
    if d[0] == "step":
        return [], True, d[1], 1
    if d[0] == "take":
        return [], True, 0, d[1]
    if d[0] == "prog":
        return d[1], bool(d[2]), 0, 1
    return None


# ---------------------------------------------------------------------------------------------- run
def _tick(x):
    import numpy as np
    import pandas as pd
    if x is None or x is pd.NaT:
        return "NaT"
    if isinstance(x, pd.Timestamp):
        ns = (x - pd.Timestamp(*T0)).value
    elif isinstance(x, pd.Timedelta):
        ns = x.value
    elif isinstance(x, (int, np.integer)) and not isinstance(x, bool):
        return int(x)
    elif isinstance(x, (float, np.floating)):
        if x != x:
            return "NaT"
        return int(x) if float(x).is_integer() else f"f:{float(x)!r}"
    else:
        try:
            if pd.isna(x):
                return "NaT"
        except Exception:  # noqa: BLE001
            pass
        x = pd.Timedelta(x) if not hasattr(x, "value") else x
        ns = x.value
    return ns // HOUR_NS if ns % HOUR_NS == 0 else f"ns:{ns}"


class _CallObj:
    def __init__(self, f):
        self.f = f

    def __call__(self, index):
        return self.f(index)


def _call_base(base, index):
    return base(index)


class _Holder:
    def __init__(self, f):
        self.f = f

    def modify(self, index):
        return self.f(index)


def _mk_index(ids, kind):
    import pandas as pd
    if kind == "rev":
        return pd.Index(list(reversed(ids)), dtype="int64")
    if kind == "range" and ids and ids == list(range(ids[0], ids[-1] + 1)):
        return pd.RangeIndex(ids[0], ids[-1] + 1)
    if kind == "object":
        return pd.Index(list(ids), dtype=object)
    if kind == "float" and ids:
        return pd.Index([float(i) for i in ids], dtype="float64")
    return pd.Index(ids, dtype="int64")


def _config(case):
    simple = is_simple(case)
    if simple:
        time = {"start": start_tick(case), "end": stop_tick(case), "step_size": case["min"],
                "standard_step_size": case["std"]}
    else:
        y, m, dd = T0
        s = datetime.date(y, m, dd) + datetime.timedelta(days=case.get("start_day", 0))
        e = s + datetime.timedelta(days=case["days"])
        fl = bool(case.get("float_cfg"))
        time = {"start": {"year": s.year, "month": s.month, "day": s.day},
                "end": {"year": e.year, "month": e.month, "day": e.day},
                "step_size": _days(case["min"], fl),
                "standard_step_size": (None if case["std"] is None else _days(case["std"], fl))}
    cfg = {"population": {"population_size": case["pop"]}, "time": time}
    kw = {}
    if simple:
        kw["plugin_configuration"] = {"required": {"clock": {"controller": "vivarium.framework.time.SimpleClock",
                                                              "builder_interface": "vivarium.framework.time.TimeInterface"}}}
    return cfg, kw


def _build(case):
    """the probe components for one simulation of `case`"""
    impl.load()
    import functools

    import pandas as pd
    from vivarium import Component

    simple = is_simple(case)

    def dur(v):
        return v if simple else pd.Timedelta(hours=v)

    class Probe(Component):
        def __init__(self):
            super().__init__()
            self.it = 0            # main-loop iteration in progress (0 = before the loop)
            self.n = 0             # simulants created so far
            self.states = []       # snapshot at the start of every iteration
            self.iters = []        # per iteration: list of event records
            self.meta = []         # per iteration: explicit step size / command index
            self.created = []
            self.cur_explicit = None
            self.cur_cmd = None
            self.keep = []         # keeps callable objects alive
            self.callables = {}    # modifier number -> the registered callable
            self.sibling = None    # another simulation alive at the same time, stepped from this one's listeners
            self.calls = {}        # update number -> what every modifier call saw and did (index, nested request, fault)
            self.birth_reqs = {}   # creation batch -> labels an initializer moved to the end

        @property
        def name(self):
            return "c10_probe"

        def shared_base(self, j):
            """ONE callable object serving several registrations: at every evaluation of the pipeline it answers for its
            members in turn (first call = first registration, …), so a registration that is dropped, merged or served
            twice changes the answers"""
            members = [j] + [q for q, sp in enumerate(case["mods"]) if sp.get("share") == j]
            state = {"it": None, "pos": 0}

            def shared(idx):
                if state["it"] != self.it:
                    state["it"], state["pos"] = self.it, 0
                m = members[state["pos"] % len(members)]
                state["pos"] += 1
                return self.mod(m, idx)
            return shared

        def register(self, b, owner):
            for m, spec in enumerate(case["mods"]):
                if spec.get("owner", 0) != owner:
                    continue
                if spec.get("share") is not None:            # the very same object as an earlier registration
                    f = self.callables[spec["share"]]
                    self._register(b, spec, f)
                    continue
                shared = any(sp.get("share") == m for sp in case["mods"])
                base = self.shared_base(m) if shared else (lambda idx, m=m: self.mod(m, idx))        # noqa: E731
                fn = spec.get("fn", "lambda")
                if fn == "method":
                    h = _Holder(base)
                    self.keep.append(h)
                    f = h.modify
                elif fn == "obj":
                    f = _CallObj(base)
                elif fn == "partial":
                    f = functools.partial(_call_base, base) if shared else functools.partial(Probe.mod, self, m)
                else:
                    f = base
                self.callables[m] = f
                self._register(b, spec, f)

        @staticmethod
        def _register(b, spec, f):
            via = spec.get("via", "time")
            if via == "value":
                b.value.register_value_modifier("simulant_step_size", f)
            elif via == "time_kw":
                b.time.register_step_size_modifier(f, requires_columns=["tracked"], requires_values=[], requires_streams=[])
            else:
                b.time.register_step_size_modifier(f)

        def setup(self, b):
            self.register(b, 0)
            self.clock = b.time.clock()
            self.ss = b.time.step_size()
            self.net = b.time.simulant_next_event_times()
            self.sss = b.time.simulant_step_sizes()
            self.mte = b.time.move_simulants_to_end()
            self.creator = b.population.get_simulant_creator()
            self.view = b.population.get_view(["tracked"])

        def on_initialize_simulants(self, pop_data):
            self.n += len(pop_data.index)
            batch = len(self.created)
            new = [int(i) for i in pop_data.index]
            self.created.append(new)
            spec = (case.get("birth_mte") or {}).get(str(batch))
            if spec:
                # a move-to-end request issued from INSIDE an initializer (initial population: before the first clock
                # update; births: nested in the listener that calls the simulant creator)
                ids = {"all": new, "first": new[:1], "last": new[-1:]}.get(spec.get("new"), []) + [i for i in spec.get("ids", []) if i not in new]
                ids = sorted(set(ids))
                self.mte(_mk_index(ids, spec.get("kind", "sorted")))
                self.birth_reqs[str(batch)] = ids

        def side_effects(self, m, idx):
            """what the scripted modifier does besides answering: nested move-to-end requests, a fault"""
            labels = [int(i) for i in idx]
            entry = {"m": m, "idx": sorted(labels), "req": None, "raised": None, "clock": _tick(self.clock())}
            self.calls.setdefault(str(self.it), []).append(entry)
            fault = next((f for f in case.get("faults") or [] if f.get("mod") == m and f["it"] == self.it), None)
            if fault and fault.get("first") == "raise":
                entry["raised"] = "raise-first"
                raise Planned(f"modifier {m} at update {self.it}")
            for ns in case.get("nested") or []:
                if ns["mod"] != m or not (ns["it"] == self.it or (ns.get("repeat") and self.it >= ns["it"])):
                    continue
                scope = ns.get("scope", "in")
                ids = labels if scope == "idx" else [i for i in ns["ids"] if scope == "raw" or i in labels]
                if scope == "idx" and ns.get("kind") == "same":
                    self.mte(idx)                       # the very index object the modifier was called with
                else:
                    self.mte(_mk_index(sorted(ids), ns.get("kind", "sorted")))
                entry["req"] = sorted(set((entry["req"] or []) + ids))
            if fault:
                entry["raised"] = "request-first"
                raise Planned(f"modifier {m} at update {self.it}")

        def mod(self, m, idx):
            if case.get("nested") or case.get("faults"):
                self.side_effects(m, idx)
            spec = case["mods"][m]
            style = spec.get("style", "nan")
            if spec.get("styles"):
                style = spec["styles"][self.it % len(spec["styles"])]
            unit_ = spec["units"][self.it % len(spec["units"])] if spec.get("units") else "ns"
            labels = [int(i) for i in idx]
            if style == "superset":       # answers for more simulants than it was asked about
                labels = list(range(max(labels + [self.n - 1]) + 3))
            vals = {i: mod_value(spec, i, self.it) for i in labels}
            if style == "omit":           # uncovered simulants are simply not in the returned Series
                labels = [i for i in labels if vals[i] is not None]
            elif style == "perm":         # rows in another order than the request
                labels = labels[::-1]
            index = pd.Index(labels, dtype="int64")
            if unit_ == "object":         # pandas scalars in an object column
                return pd.Series([pd.NaT if vals[i] is None else pd.Timedelta(hours=vals[i]) for i in labels], index=index, dtype=object)
            if unit_ == "py":             # datetime.timedelta / None in an object column
                return pd.Series([None if vals[i] is None else datetime.timedelta(hours=vals[i]) for i in labels], index=index, dtype=object)
            out = pd.Series([pd.NaT if vals[i] is None else pd.Timedelta(hours=vals[i]) for i in labels],
                            index=index, dtype="timedelta64[ns]")
            return out if unit_ == "ns" else out.astype(f"timedelta64[{unit_}]")

        def everybody(self):
            return pd.Index(range(self.n), dtype="int64")

        def table(self):
            idx = self.everybody()
            ask = idx[::-1] if self.it % 2 else idx            # the observers are asked in either order, read by label
            net, sss = self.net(ask), self.sss(ask)
            return [[int(i), _tick(net.loc[i]), _tick(sss.loc[i])] for i in idx]

        def snapshot(self, clock_obj):
            snooze = getattr(clock_obj, "_simulants_to_snooze", None)       # private: compared only when it exists
            return {"now": _tick(clock_obj._clock_time), "step": _tick(clock_obj._clock_step_size), "sims": self.table(),
                    "pending": None if snooze is None else sorted(int(i) for i in snooze)}

        def perform(self, rec, p, by):
            for a in acts_of(case, self.it, p):
                o = act_opts(a)
                if o.get("by", 0) != by:
                    continue
                if a[1] == "mte":
                    self.mte(_mk_index(a[2], o.get("kind", "sorted")))
                    rec["acts"].append(["mte", a[2]])
                elif a[1] == "birth":
                    new = self.creator(a[2])
                    req = self.birth_reqs.get(str(len(self.created) - 1))
                    rec["acts"].append(["birth", sorted(int(i) for i in new)] + ([req] if req is not None else []))
                else:
                    self.view.update(pd.Series(a[1] == "retrack", index=pd.Index(a[2], dtype="int64"), name="tracked"))
                    rec["acts"].append([a[1], a[2]])

        def _phase(self, p, e):
            if p == 0:
                if self.it >= iter_limit(case):
                    raise IterationLimit(f"{iter_limit(case)} main-loop iterations without reaching the stop time")
                self.states.append(self.snapshot(self._clock_obj))
                if self.sibling is not None and self.sibling.current_time < self.sibling._clock.stop_time:
                    self.sibling.step()           # the other simulation moves on between this one's clock update and its next event
                self.it += 1
                self.iters.append([])
                self.meta.append({"explicit": self.cur_explicit, "cmd": self.cur_cmd})
            tracked = self.view.get(self.everybody())["tracked"]
            rec = {"now": _tick(self.clock()), "step": _tick(self.ss()), "time": _tick(e.time),
                   "estep": _tick(e.step_size), "index": sorted(int(i) for i in e.index),
                   "net": [r[1] for r in self.table()], "untracked": [int(i) for i in tracked.index[~tracked.astype(bool)]],
                   "acts": []}
            self.iters[-1].append(rec)
            f = listener_fault(case, self.it)
            f = f if (f and f["phase"] == p and f.get("by", 0) == 0) else None
            if f and f.get("pos") != "after":
                rec["fault"] = [0, "before"]
                raise Planned(f"listener of {PHASES[p]} in iteration {self.it}")
            self.perform(rec, p, 0)
            if f:
                rec["fault"] = [0, "after"]
                raise Planned(f"listener of {PHASES[p]} in iteration {self.it}")

        def on_time_step_prepare(self, e):
            self._phase(0, e)

        def on_time_step(self, e):
            self._phase(1, e)

        def on_time_step_cleanup(self, e):
            self._phase(2, e)

        def on_collect_metrics(self, e):
            self._phase(3, e)

    class Second(Component):
        """registers its own modifiers and acts through the handles the first probe obtained"""

        def __init__(self, first):
            super().__init__()
            self.first = first

        @property
        def name(self):
            return "c10_second"

        def setup(self, b):
            self.first.register(b, 1)

        def _do(self, p):
            if self.first.iters and len(self.first.iters[-1]) > p:
                rec = self.first.iters[-1][p]
                f = listener_fault(case, self.first.it)
                f = f if (f and f["phase"] == p and f.get("by", 0) == 1) else None
                if f and f.get("pos") != "after":
                    rec["fault"] = [1, "before"]
                    raise Planned(f"second listener of {PHASES[p]} in iteration {self.first.it}")
                self.first.perform(rec, p, 1)
                if f:
                    rec["fault"] = [1, "after"]
                    raise Planned(f"second listener of {PHASES[p]} in iteration {self.first.it}")

        def on_time_step_prepare(self, e):
            self._do(0)

        def on_time_step(self, e):
            self._do(1)

        def on_time_step_cleanup(self, e):
            self._do(2)

        def on_collect_metrics(self, e):
            self._do(3)

    d = Probe()
    comps = [d]
    if any(m.get("owner", 0) == 1 for m in case["mods"]) or any(act_opts(a).get("by") == 1 for l in case["acts"].values() for a in l) \
            or any(f.get("by") == 1 for f in case.get("faults") or []):
        comps.append(Second(d))
    return d, comps, dur


PRIOR = {"drive": ["run"], "min": 48, "std": 96, "days": 8, "pop": 4, "mods": [{"rows": [[48, 144, None, 96]], "style": "nan"}],
         "acts": {"1": [[1, "mte", [3]]], "2": [[2, "birth", 1]]}}


def variant_of(case):
    """the same clock configuration, population and event times – another modifier script and other requests"""
    v = {k: case[k] for k in ("min", "std", "days", "pop") if k in case}
    for k in ("start_day", "float_cfg", "clock"):
        if k in case:
            v[k] = case[k]
    v["drive"] = ["run"]
    v["mods"] = [{"rows": [list(reversed(r)) for r in reversed(m["rows"])], "style": "nan"} for m in case["mods"]]
    if case["mods"]:
        v["mods"].append({"rows": [[case["min"]], [3 * case["min"]]], "style": "nan"})
    v["acts"] = {"1": [[1, "mte", [0]]], "2": [[2, "birth", 1]]} if case["pop"] else {}
    return v


def _run_prior(case):
    """an earlier simulation in the same process that ends with a pending move-to-end request: a fixed different one
    (prior = True), the SAME program verbatim ("same") or the same configuration with another script ("variant")"""
    import pandas as pd
    from vivarium.framework.engine import SimulationContext
    kind = case.get("prior")
    pc = PRIOR if kind is True else (variant_of(case) if kind == "variant" else dict(case, drive=["run"], faults=[], catch=False))
    d, comps, _ = _build(pc)
    cfg, kw = _config(pc)
    SimulationContext._clear_context_cache()
    sim = SimulationContext(components=comps, configuration=cfg, logging_verbosity=0, **kw)
    d._clock_obj = sim._clock
    sim.setup()
    sim.initialize_simulants()
    try:
        sim.run()
    except KeyError:
        if kind is True or kind == "variant":      # ("same" may legitimately name a simulant that does not exist)
            raise
    if d.n >= 2:
        d.mte(pd.Index([0, 1], dtype="int64"))


def _run(case, twin_of=None):
    impl.load()
    import os
    import shutil
    import tempfile

    import pandas as pd
    from vivarium import InteractiveContext
    from vivarium.framework.engine import SimulationContext

    if case.get("prior") and twin_of is None:
        try:
            _run_prior(case)
        except Exception as e:  # noqa: BLE001 - the earlier simulation is a legal program too
            if type(e).__name__ == "CaseTimeout":
                raise
            return {"outcome": "err:" + type(e).__name__, "err_msg": "in the earlier simulation of the same process: " + str(e)[:150],
                    "init": None, "states": [], "iters": [], "final": None, "cmds": [], "meta": []}
    sib = None
    if case.get("sibling") and twin_of is None:
        # a second simulation ALIVE AT THE SAME TIME (same configuration, other script); the probe steps it from its listeners
        vc = variant_of(case)
        sd, scomps, _ = _build(vc)
        scfg, skw = _config(vc)
        SimulationContext._clear_context_cache()
        sib = InteractiveContext(components=scomps, configuration=scfg, logging_verbosity=0, setup=False, **skw)
        sd._clock_obj = sib._clock
        sib.setup()
    d, comps, dur = _build(case)
    d.sibling = sib
    cfg, kw = _config(case)
    simple = is_simple(case)

    def at(t):
        return t if simple else pd.Timestamp(*T0) + pd.Timedelta(hours=t)

    def dur_k(v, kind):
        """a duration in the representation the command asks for (pandas Timedelta / datetime.timedelta)"""
        return datetime.timedelta(hours=v) if (kind == "py" and not simple) else dur(v)

    SimulationContext._clear_context_cache()
    out = {"outcome": "ok", "init": None, "states": None, "iters": None, "final": None, "cmds": [], "caught": []}
    drive = case["drive"] if twin_of is None else ["run"]
    prog = interactive_cmds(case) if twin_of is None else None
    tmp = None
    catch = bool(case.get("catch"))

    def survived(e):
        """the harness plays a caller that wraps the public call in try / except and carries on with the same objects"""
        name = type(e).__name__
        if not catch or name in ("CaseTimeout", "IterationLimit", "Refused"):
            return False
        out["caught"].append({"it": d.it, "exc": name, "msg": str(e)[:120]})
        if name == "InvalidTransitionError":
            raise Refused(str(e)[:120]) from None
        return True

    def engine_run(call):
        for _ in range(iter_limit(case) + 2):
            try:
                call()
                return
            except Exception as e:  # noqa: BLE001
                if not survived(e):
                    raise
    try:
        if prog is None:
            sim = SimulationContext(components=comps, configuration=cfg, logging_verbosity=0, **kw)
            d._clock_obj = sim._clock
            if drive[0] != "run_simulation":
                sim.setup()
                sim.initialize_simulants()
                out["init"] = d.snapshot(sim._clock)
        else:
            sim = InteractiveContext(components=comps, configuration=cfg, logging_verbosity=0, setup=False, **kw)
            d._clock_obj = sim._clock
            sim.setup()
            out["init"] = d.snapshot(sim._clock)
        stop = sim._clock.stop_time if drive[0] != "run_simulation" else None
        if drive[0] == "run":
            engine_run(sim.run)
        elif drive[0] == "run_backup":
            tmp = tempfile.mkdtemp(prefix="c10bk")
            engine_run(lambda: sim.run(backup_path=os.path.join(tmp, "backup.pkl"), backup_freq=10 ** 9))
        elif drive[0] == "run_simulation":
            sim.run_simulation()
        else:
            cmds, finish, extra, chunk = prog

            def do(cmd):
                d.cur_cmd = len(out["cmds"])
                d.cur_explicit = None
                log = {"cmd": cmd, "first": d.it + 1, "now_before": _tick(sim._clock._clock_time),
                       "step_before": _tick(sim._clock._clock_step_size), "ret": None}
                out["cmds"].append(log)
                try:
                    if cmd[0] == "step":
                        d.cur_explicit = cmd[1]
                        if cmd[1] is None:
                            sim.step()
                        elif len(cmd) > 2 and cmd[2] == "kw":
                            sim.step(step_size=dur(cmd[1]))
                        else:
                            sim.step(dur_k(cmd[1], cmd[2] if len(cmd) > 2 else None))
                    elif cmd[0] == "take":
                        d.cur_explicit = cmd[2]
                        if cmd[2] is None:
                            sim.take_steps(cmd[1])
                        else:
                            sim.take_steps(number_of_steps=cmd[1], step_size=dur_k(cmd[2], cmd[3] if len(cmd) > 3 else None), with_logging=False)
                    elif cmd[0] == "until":
                        t = at(cmd[1])
                        log["ret"] = sim.run_until(t.to_pydatetime() if (len(cmd) > 2 and cmd[2] == "dt" and not simple) else t)
                    elif cmd[0] == "for":
                        log["ret"] = sim.run_for(dur_k(cmd[1], cmd[2] if len(cmd) > 2 else None), with_logging=False)
                    else:
                        log["ret"] = sim.run()
                except Exception as e:  # noqa: BLE001
                    if not survived(e):
                        raise
                    log["fault"] = type(e).__name__
                finally:
                    d.cur_explicit = None
                    log["n"] = d.it + 1 - log["first"]
                    log["now_after"] = _tick(sim._clock._clock_time)
                    if log["ret"] is not None:
                        log["ret"] = int(log["ret"])

            for cmd in cmds:
                do(cmd)
            if finish:
                while sim.current_time < stop and d.it < iter_limit(case) + 1:
                    do(["take", chunk, None] if chunk > 1 else ["step", None])
            for _ in range(extra):          # steps past the end of the simulation
                do(["step", None])
    except Exception as e:  # noqa: BLE001 - outcome class of the implementation
        if type(e).__name__ == "CaseTimeout":      # the runner's watchdog, not an outcome of the implementation
            raise
        out["outcome"] = "refused:lifecycle" if isinstance(e, Refused) else "err:" + type(e).__name__
        out["err_msg"] = str(e)[:200]
    finally:
        if tmp:
            shutil.rmtree(tmp, ignore_errors=True)
    out["states"], out["iters"], out["created"], out["meta"] = d.states, d.iters, d.created, d.meta
    out["calls"], out["birth_reqs"] = d.calls, d.birth_reqs
    try:
        out["final"] = d.snapshot(sim._clock)
    except Exception as e:  # noqa: BLE001
        out["final"] = {"error": type(e).__name__}
    if out["init"] is None and drive[0] == "run_simulation" and (out["outcome"] == "ok" or d.states):
        out["init"] = d.states[0] if d.states else out["final"]      # nothing changes between initialize_simulants and the first event
    if case.get("twin") and twin_of is None:
        try:
            t = _run(case, twin_of=True)
            out["twin"] = {"outcome": t["outcome"], "init": t["init"],
                           "iters": [[[e["now"], e["time"], e["index"]] for e in evs] for evs in t["iters"]]}
        except Exception as e:  # noqa: BLE001
            if type(e).__name__ == "CaseTimeout":
                raise
            out["twin"] = {"outcome": "err:" + type(e).__name__, "iters": []}
    return out


# ---------------------------------------------------------------------------------------------- prop
class C10(Prop):
    id = "C10"
    lean_modules = ["VivModel.Props.C10", "VivModel.Props.C10Src"]
    build_targets = ["VivModel.Model.Clock", "VivModel.Model.Proto"]
    driver = "C10"
    technique = ("Lean 4 proof (invariant J over every schedule of modifier outputs, births and move-to-end requests – incl. "
                 "requests from inside modifiers and updates that fail; post-processor arithmetic) + differential correspondence with the real SimulationContext / "
                 "InteractiveContext + DateTimeClock (exact event logs and per-simulant clock columns)")
    partial = ("pandas alignment / nanosecond and float arithmetic of the real post-processor and the `tracked` column "
               "(the clocks ignore it) are explored by the harness, not proved; SimpleClock only without modifiers")
    n_quick = 240             # 200 cases of the earlier rounds (same random stream) + 40 re-entrancy / fault cases (lesson 16)
    n_thorough = 3400
    workers = 8
    case_timeout = 120        # wall-clock alarm; a normal case takes 0.05–0.3 s, the probe cuts runaway clocks off itself
    rule = ("cases = random clock configurations x populations x modifier scripts (registration route, callable kind, "
            "Series shape) x listener action schedules (move-to-end, births, untracking; two components) x requests issued "
            "from inside step-size modifiers and initializers x modifiers / listeners that raise on purpose (caught by the "
            "harness, which then steps on), driven by every engine / interactive API incl. explicit step sizes; distinct by "
            "case hash; non-trivial = at least two events with different index sets or a global step different from the "
            "minimum step, or a mode without modifiers")

    # ------------------------------------------------------------------ generation
    def boundary(self):
        def case(**kw):
            base = {"drive": ["run"], "min": 24, "std": None, "days": 12, "pop": 3,
                    "mods": [{"rows": [[48, 72, 96]], "style": "nan"}], "acts": {}}
            base.update(kw)
            return base
        m23 = [{"rows": [[48, 72]], "style": "nan"}]
        out = [
            # the single simulant 0 (F1) on every driving API
            case(pop=1, mods=[{"rows": [[72]], "style": "nan"}]),
            case(pop=1, mods=[{"rows": [[72]], "style": "nan"}], drive=["step", 0]),
            case(pop=1, mods=[{"rows": [[60], [None], [30]], "style": "omit"}], std=48),
            # move-to-end of {0} alone, of somebody who is not due (F2), of everybody
            case(pop=1, mods=[{"rows": [[48]], "style": "nan"}], acts={"1": [[1, "mte", [0]]]}),
            case(pop=3, acts={"1": [[1, "mte", [0]]]}),
            case(pop=3, mods=[{"rows": [[24, 72, 96]], "style": "nan"}], acts={"2": [[1, "mte", [1]]]}),
            case(pop=3, acts={"2": [[0, "mte", [0, 1, 2]]]}),
            case(pop=3, acts={"1": [[3, "mte", []]], "2": [[2, "mte", [2]], [2, "mte", [2, 0]]]}),
            # interactive stepping vs run (F3), chunks overrunning the end, steps past the end
            case(pop=2, mods=m23, drive=["step", 0], twin=True),
            case(pop=2, mods=m23, drive=["take", 3]),
            case(pop=2, mods=m23, drive=["step", 2], acts={"2": [[1, "mte", [1]]]}),
            # landing exactly on stop + minimum step with a pending request; beyond it
            case(pop=1, days=3, mods=[{"rows": [[96]], "style": "nan"}], acts={"1": [[1, "mte", [0]]]}, drive=["step", 2]),
            case(pop=1, days=3, mods=[{"rows": [[168]], "style": "nan"}], acts={"1": [[1, "mte", [0]]]}, drive=["step", 2]),
            # post-processor edges: below the minimum, zero, exact multiple, just below a multiple, std below/not multiple of min
            case(pop=6, min=24, mods=[{"rows": [[0, 1, 23, 24, 47, 48]], "style": "nan"}]),
            case(pop=4, min=36, std=90, mods=[{"rows": [[None, 35, 36, 71]], "style": "nan"}]),
            case(pop=3, min=48, std=24, mods=[{"rows": [[None, None, 100]], "style": "omit"}]),
            case(pop=3, min=12, std=30, mods=[{"rows": [[None, 13, 100]], "style": "nan"},
                                              {"rows": [[None, None, 25], [7, None, None]], "style": "omit"},
                                              {"rows": [[None]], "style": "omit"}]),
            # births in every phase; an empty birth; a request for a newborn
            case(pop=2, acts={"1": [[0, "birth", 1], [1, "birth", 2]], "2": [[2, "birth", 1], [3, "birth", 0]],
                              "3": [[1, "birth", 1], [1, "mte", [6]]]}),
            # request naming a simulant that does not exist (KeyError in the real code)
            case(pop=2, acts={"2": [[1, "mte", [5]]]}),
            # shortest run
            case(pop=2, days=1, mods=[{"rows": [[12, 100]], "style": "nan"}], min=6),
            # ---- audit against LESSONS.md -------------------------------------------------------------
            # configuration: standard step with a fractional-day part different from the minimum step's (seeded C10-2),
            # fractional minimum, float-typed whole days, standard_step_size 0, start on a leap day / across a year end
            case(pop=2, min=24, std=60, mods=[{"rows": [[None, 200]], "style": "nan"}]),
            case(pop=2, min=36, std=72, mods=[{"rows": [[None, 200]], "style": "nan"}]),
            case(pop=2, min=18, std=48, days=4, mods=[{"rows": [[None, 40]], "style": "nan"}], start_day=59),
            case(pop=2, min=48, std=96, float_cfg=True, mods=[{"rows": [[None, 150]], "style": "omit"}], start_day=360),
            case(pop=2, min=24, std=0, mods=[{"rows": [[None, 50]], "style": "nan"}]),
            # nothing to simulate (end == start); empty initial population with later births
            case(pop=2, days=0), case(pop=2, days=0, drive=["step", 1]),
            case(pop=0, days=4, acts={"2": [[1, "birth", 2]], "3": [[2, "mte", [0]]]}),
            # untracked simulants stay clocked – engine and every interactive API (99bb0a52)
            case(pop=3, acts={"1": [[1, "untrack", [1, 2]]]}),
            case(pop=3, acts={"1": [[1, "untrack", [1, 2]]]}, drive=["step", 0], twin=True),
            case(pop=3, acts={"1": [[1, "untrack", [0, 1, 2]]], "3": [[2, "retrack", [1]]], "2": [[0, "mte", [2]]]}, drive=["take", 2], twin=True),
            case(pop=1, mods=[{"rows": [[72]], "style": "nan"}], acts={"1": [[0, "untrack", [0]]]}, drive=["prog", [["run"]], False], twin=True),
            # explicit step sizes: shorter than every gap (empty event, empty update set, pending request), longer than
            # several gaps (late inclusion), zero, then default steps; take_steps with a step size
            case(pop=3, drive=["prog", [["step", 5], ["step", None], ["step", 100, "kw"], ["step", None], ["step", 0]], True]),
            case(pop=3, drive=["prog", [["step", None], ["step", 5], ["step", 7]], True], acts={"2": [[1, "mte", [1]]]}),
            case(pop=3, drive=["prog", [["take", 3, 30], ["take", 2, None], ["take", 2, 24]], True]),
            case(pop=3, mods=m23 + [{"rows": [[None, None, 48]], "style": "omit"}], drive=["prog", [["step", 36], ["step", None]], False]),
            case(pop=0, days=6, drive=["prog", [["step", 7], ["step", None], ["take", 2, 30], ["step", None]], True],
                 acts={"5": [[1, "birth", 2]], "6": [[2, "mte", [0]]]}),
            case(pop=0, days=4, mods=[], drive=["prog", [["step", 7], ["step", None]], True], acts={"3": [[1, "birth", 1]]}),
            # run_until / run_for / run with a global step that changes during the run (c58c2efb, 430edeb4)
            case(pop=2, mods=m23, drive=["prog", [["until", 100], ["for", 30], ["run"]], False], twin=True),
            case(pop=2, mods=[{"rows": [[120, 24], [24, 24]], "style": "nan"}], days=10, drive=["prog", [["until", 60], ["until", 60], ["until", 10], ["run"]], False]),
            case(pop=3, mods=[{"rows": [[24, 24, 24], [72, 96, 120], [24, 48, 24]], "style": "nan"}], drive=["prog", [["for", 50], ["for", 1], ["run"], ["run"]], False], twin=True),
            case(pop=2, mods=m23, drive=["run_backup"]), case(pop=2, mods=m23, drive=["run_simulation"]),
            # no modifier at all: DateTimeClock (global step = minimum, standard ignored) and SimpleClock (global step = standard)
            case(pop=3, mods=[], std=72, acts={"1": [[1, "mte", [0]], [2, "birth", 1]], "2": [[1, "untrack", [1]]]}),
            case(pop=3, mods=[], min=36, drive=["prog", [["step", 10], ["step", None], ["until", 100]], True]),
            case(pop=3, mods=[], clock="simple", min=2, std=3, days=11, acts={"1": [[1, "mte", [0]]]}),
            case(pop=2, mods=[], clock="simple", min=2, std=None, days=7, drive=["prog", [["step", 5], ["take", 2, 1], ["for", 3]], True]),
            case(pop=1, mods=[], clock="simple", min=1, std=0, days=3, start_day=4, drive=["step", 1]),
            # who registers / who acts / how: second component, value-manager route, keywords, callable kinds, Series shapes
            case(pop=4, mods=[{"rows": [[48, None, 96, None]], "style": "perm", "fn": "obj", "via": "value", "owner": 1},
                              {"rows": [[None, 72, 30, None]], "style": "superset", "fn": "partial", "via": "time_kw"},
                              {"rows": [[100, 100, 100, 25]], "style": "omit", "fn": "method", "owner": 1}],
                 acts={"1": [[1, "mte", [3, 1], {"kind": "rev", "by": 1}]], "2": [[2, "mte", [0, 1], {"kind": "range"}], [2, "birth", 1, {"by": 1}]],
                       "3": [[0, "mte", [2], {"kind": "object"}], [3, "mte", [4], {"kind": "float", "by": 1}]]}),
            # ---- lessons 12-13: histories ----------------------------------------------------------------------
            # the same simulants due at consecutive updates while the answers grow / shrink / alternate; one callable
            # object registered twice (it answers for its registrations in turn)
            case(pop=2, mods=[{"rows": [[24], [48], [72], [96]], "style": "nan"}]),
            case(pop=1, mods=[{"rows": [[72], [24], [24], [96], [25]], "style": "omit"}], drive=["step", 0], twin=True),
            case(pop=3, mods=[{"rows": [[24], [72]], "style": "perm", "fn": "obj"},
                              {"rows": [[200], [30], [200], [200]], "style": "nan", "share": 0, "via": "value"}]),
            case(pop=2, mods=[{"rows": [[48, 24], [96, 96], [24, 120]], "style": "nan", "fn": "method", "owner": 1},
                              {"rows": [[30, 300], [300, 30]], "style": "omit", "share": 0, "owner": 1},
                              {"rows": [[500, 26], [27, 500]], "style": "nan", "share": 0, "owner": 1, "via": "time_kw"}]),
            # the same column in different resolutions / shapes at different updates of one history
            case(pop=3, mods=[{"rows": [[48, 72, None], [30, None, 100]], "style": "nan", "units": ["ns", "s", "us", "ms"],
                               "styles": ["nan", "omit", "perm", "superset"]}, {"rows": [[None, 50, 75]], "style": "omit", "units": ["ms", "ns"]}]),
            # the same move-to-end request: twice before the update (two components, two index kinds), again after the
            # simulants were parked, around an untrack / retrack of the same simulants
            case(pop=4, acts={"1": [[1, "mte", [1, 2]], [2, "mte", [1, 2], {"kind": "rev", "by": 1}]], "2": [[0, "untrack", [1, 2]]],
                              "3": [[1, "mte", [1, 2], {"kind": "float"}]], "4": [[3, "retrack", [1, 2]], [3, "mte", [1, 2]]],
                              "5": [[0, "mte", [1, 2, 3], {"kind": "object"}]]}),
            case(pop=2, mods=m23, acts={"1": [[0, "mte", [0]], [0, "mte", [0]], [3, "mte", [0]]], "3": [[2, "mte", [0]]]}, drive=["take", 2]),
            # births inside every event channel of consecutive steps
            case(pop=1, mods=[{"rows": [[48, 24, 72]], "style": "nan"}],
                 acts={"1": [[0, "birth", 1], [1, "birth", 1], [2, "birth", 2], [3, "birth", 1]],
                       "2": [[0, "birth", 1, {"by": 1}], [1, "birth", 1], [2, "birth", 1, {"by": 1}], [3, "birth", 1]]}),
            # F33 family: explicit steps repeated verbatim, as pandas and python objects, around default steps; empty
            # population, explicit step, births, explicit step again, default step
            case(pop=3, drive=["prog", [["step", 36], ["step", 36], ["step", None], ["step", 36, "py"], ["step", None], ["take", 2, 36, "py"], ["take", 2, 36]], True]),
            case(pop=0, days=8, drive=["prog", [["step", 7], ["step", None], ["step", None], ["step", 30], ["step", None], ["step", 30, "py"], ["step", None]], True],
                 acts={"2": [[1, "birth", 2]]}),
            case(pop=2, mods=m23, drive=["prog", [["until", 100, "dt"], ["until", 100], ["until", 100, "dt"], ["for", 30, "py"], ["for", 30], ["run"], ["run"]], False]),
            # another simulation in the same process: the same program verbatim before, the same configuration with another
            # script before, and one alive at the same time
            case(pop=3, prior="same"), case(pop=3, prior="variant", acts={"2": [[1, "mte", [1]]]}),
            case(pop=3, sibling=True, acts={"2": [[1, "mte", [1]], [2, "birth", 1]]}),
            case(pop=2, mods=m23, sibling=True, drive=["step", 0], twin=True),
            # an earlier, different simulation in the same process that ended with a pending request
            case(pop=3, prior=True), case(pop=2, mods=m23, prior=True, drive=["step", 0]),
            # ---- lesson 16: re-entrancy and faults ---------------------------------------------------------------
            # move-to-end requests issued from INSIDE a step-size modifier while step_forward evaluates the pipeline: for a
            # subset of the index it was called with, for the whole index (the very object / a copy), repeated at every later
            # update (the scenario of seeded C10-6), during the update of initialize_simulants, by the second of two modifiers
            case(pop=4, mods=[{"rows": [[48, 72, 24, 96]], "style": "nan"}], nested=[{"mod": 0, "it": 1, "ids": [2], "scope": "in"}]),
            case(pop=4, mods=[{"rows": [[48, 72, 24, 96]], "style": "nan"}], nested=[{"mod": 0, "it": 2, "ids": [], "scope": "idx", "kind": "same"}]),
            case(pop=6, days=20, mods=[{"rows": [[48, 72]], "style": "nan"}], nested=[{"mod": 0, "it": 4, "ids": [1, 3], "scope": "in", "repeat": True}],
                 acts={"5": [[1, "mte", [4]]]}),
            case(pop=3, nested=[{"mod": 0, "it": 0, "ids": [0, 2], "scope": "in"}], drive=["step", 0], twin=True),
            case(pop=3, mods=m23 + [{"rows": [[None, 24, 48]], "style": "omit", "owner": 1}],
                 nested=[{"mod": 1, "it": 1, "ids": [0, 1, 2], "scope": "in", "kind": "rev"}, {"mod": 0, "it": 3, "ids": [], "scope": "idx"}],
                 acts={"1": [[3, "mte", [0]]]}),
            case(pop=1, mods=[{"rows": [[72]], "style": "nan"}], nested=[{"mod": 0, "it": 2, "ids": [0], "scope": "in"}]),
            # … together with a listener's request for somebody who is not due, and an empty nested request
            case(pop=4, mods=[{"rows": [[24, 72, 24, 96]], "style": "nan"}], nested=[{"mod": 0, "it": 2, "ids": [0, 2], "scope": "in"}, {"mod": 0, "it": 3, "ids": [1], "scope": "in"}],
                 acts={"2": [[1, "mte", [3]]]}),
            # … for simulants OUTSIDE the index the modifier was called with (KeyError in `.loc`): the caller catches it and steps on
            case(pop=4, mods=[{"rows": [[48, 72, 24, 96]], "style": "nan"}], nested=[{"mod": 0, "it": 1, "ids": [0], "scope": "raw"}], catch=True, drive=["step", 0]),
            case(pop=4, mods=[{"rows": [[48, 72, 24, 96]], "style": "nan"}], nested=[{"mod": 0, "it": 1, "ids": [2, 0], "scope": "raw"}], catch=True),
            case(pop=4, mods=[{"rows": [[48, 72, 24, 96]], "style": "nan"}], nested=[{"mod": 0, "it": 1, "ids": [0], "scope": "raw"}]),
            # … for a simulant that is parked already (it is not being updated any more)
            case(pop=3, mods=[{"rows": [[24, 24, 24]], "style": "nan"}], acts={"1": [[1, "mte", [1]]]}, nested=[{"mod": 0, "it": 3, "ids": [1], "scope": "raw"}],
                 catch=True, drive=["take", 2]),
            # requests issued from inside an initializer: initial population, births (newborns, somebody else)
            case(pop=3, birth_mte={"0": {"new": "first"}}),
            case(pop=3, birth_mte={"0": {"new": "all", "kind": "range"}}, days=3, drive=["step", 1]),
            case(pop=2, acts={"1": [[1, "birth", 2]], "3": [[0, "birth", 1, {"by": 1}]]}, birth_mte={"1": {"new": "last", "ids": [0]}, "2": {"new": "all"}}),
            case(pop=0, days=5, acts={"2": [[2, "birth", 2]]}, birth_mte={"1": {"new": "first"}}, drive=["step", 0]),
            # a step-size modifier that raises on purpose, the caller catches and steps again: before / after its own nested
            # request, with a listener's request pending, the second of two modifiers, under run() and under step()
            case(pop=4, mods=[{"rows": [[48, 72, 24, 96]], "style": "nan"}], faults=[{"mod": 0, "it": 2, "first": "raise"}], catch=True, drive=["step", 0]),
            case(pop=4, mods=[{"rows": [[48, 72, 24, 96]], "style": "nan"}], faults=[{"mod": 0, "it": 2, "first": "raise"}], catch=True),
            case(pop=4, mods=[{"rows": [[48, 72, 24, 96]], "style": "nan"}], faults=[{"mod": 0, "it": 2}], nested=[{"mod": 0, "it": 2, "ids": [], "scope": "idx"}],
                 acts={"2": [[1, "mte", [3]]]}, catch=True, drive=["take", 2]),
            case(pop=3, mods=m23 + [{"rows": [[96, 24, 48]], "style": "nan"}], faults=[{"mod": 1, "it": 1}, {"mod": 0, "it": 3, "first": "raise"}],
                 nested=[{"mod": 0, "it": 1, "ids": [0, 1, 2], "scope": "in"}], acts={"1": [[0, "mte", [2]]], "3": [[2, "birth", 1]]}, catch=True, drive=["step", 1], twin=True),
            case(pop=3, faults=[{"mod": 0, "it": 2}]),                                   # nobody catches: the run ends there
            # … after an explicit step size (the override is still in force when the exception leaves step())
            case(pop=3, faults=[{"mod": 0, "it": 2}], catch=True, drive=["prog", [["step", None], ["step", 36], ["step", None], ["step", 30], ["step", None]], True]),
            # a listener that raises on purpose: in collect_metrics the caller can step again (the iteration is repeated, requests
            # stay pending); before that the lifecycle refuses every further step (C06's business)
            case(pop=3, faults=[{"phase": 3, "it": 2, "pos": "after"}], acts={"2": [[3, "mte", [1]], [1, "birth", 1]]}, catch=True, drive=["step", 0]),
            case(pop=3, faults=[{"phase": 3, "it": 1, "pos": "before", "by": 1}], acts={"1": [[3, "mte", [1]], [3, "mte", [2], {"by": 1}]]}, catch=True),
            case(pop=3, faults=[{"phase": 1, "it": 2, "pos": "after"}], acts={"2": [[1, "mte", [1]]]}, catch=True, drive=["step", 0]),
            case(pop=3, faults=[{"phase": 0, "it": 1, "pos": "before"}], catch=True),
            case(pop=0, days=4, faults=[{"phase": 3, "it": 1, "pos": "before"}], catch=True,
                 drive=["prog", [["step", 7], ["step", None]], True], acts={"3": [[1, "birth", 2]]}),
        ]
        return out

    # -- generator pieces
    @staticmethod
    def _gen_mods(rng, mn, n):
        pool = [mn, 2 * mn, 3 * mn, 4 * mn, mn + 1, 2 * mn - 1, 2 * mn + 1, max(1, mn // 2), 1, 0, 5 * mn + 7, mn * 3 // 2,
                7 * mn, 3 * mn - 1]
        mods = []
        for _ in range(n):
            p_none = rng.choice([0.0, 0.25, 0.5, 0.8])
            small = rng.random() < 0.25          # a modifier that mostly asks for the minimum keeps everybody in step
            rows = []
            for _r in range(rng.randint(1, 4)):
                rows.append([None if rng.random() < p_none else (rng.choice(pool[:4]) if small else rng.choice(pool))
                             for _c in range(rng.randint(1, 5))])
            m = {"rows": rows, "style": rng.choice(["nan", "nan", "omit", "omit", "perm", "superset"])}
            if rng.random() < 0.5:
                m["fn"] = rng.choice(["method", "obj", "partial"])
            if rng.random() < 0.4:
                m["via"] = rng.choice(["value", "time_kw"])
            if rng.random() < 0.25:
                m["owner"] = 1
            mods.append(m)
        return mods

    @staticmethod
    def _gen_acts(rng, pop, horizon, untrack_p=0.3, heavy_untrack=False, mte_counts=(0, 1, 1, 2, 3, 4)):
        acts = {}
        n_known = pop
        births_at = sorted(rng.sample(range(1, horizon + 1), min(horizon, rng.choice([0, 0, 1, 2, 3]))))
        mte_at = sorted(rng.sample(range(1, horizon + 1), min(horizon, rng.choice(mte_counts))))
        untrack_at = sorted(rng.sample(range(1, horizon + 1), min(horizon, rng.choice([1, 2, 3]) if (heavy_untrack or rng.random() < untrack_p) else 0)))
        unknown = rng.random() < 0.04
        untracked = set()

        def opts(extra=None):
            o = dict(extra or {})
            if rng.random() < 0.2:
                o["by"] = 1
            return [o] if o else []

        for k in range(1, horizon + 1):
            lst = []
            n_before = n_known          # untracking writes the table at once: only simulants born in earlier iterations
            if k in births_at:
                nb = rng.choice([0, 1, 1, 2, 3])
                lst.append([rng.randint(0, 3), "birth", nb] + opts())
                n_known += nb
            if k in mte_at and n_known:
                for _q in range(rng.choice([1, 1, 2])):
                    kind = rng.random()
                    if kind < 0.2:
                        ids = [0]
                    elif kind < 0.3:
                        ids = []
                    elif kind < 0.4:
                        ids = list(range(n_known))
                    else:
                        ids = sorted(rng.sample(range(n_known), rng.randint(1, min(n_known, 4))))
                    if unknown and rng.random() < 0.5:
                        ids = sorted(set(ids + [n_known + rng.randint(0, 2)]))
                    ik = rng.choice(["sorted", "sorted", "rev", "range", "object", "float"])
                    lst.append([rng.randint(0, 3), "mte", ids] + opts({"kind": ik} if ik != "sorted" else None))
            if k in untrack_at and n_before:
                if untracked and rng.random() < 0.3:
                    ids = sorted(rng.sample(sorted(untracked), rng.randint(1, len(untracked))))
                    untracked -= set(ids)
                    lst.append([rng.randint(0, 3), "retrack", ids] + opts())
                else:
                    ids = list(range(n_before)) if rng.random() < 0.2 else sorted(rng.sample(range(n_before), rng.randint(1, n_before)))
                    untracked |= set(ids)
                    lst.append([rng.randint(0, 3), "untrack", ids] + opts())
            if lst:
                lst.sort(key=lambda a: a[0])
                acts[str(k)] = lst
        return acts

    def _gen_reentrant(self, rng, tier):
        """lesson 16: operations of the time subsystem issued from INSIDE its own callbacks (move-to-end requests from a
        step-size modifier while `step_forward` evaluates the pipeline, from an initializer during a birth) and faults (a
        modifier or a listener that raises on purpose; the harness catches where a caller could and goes on)"""
        pop = rng.choice([1, 2, 3, 3, 4, 5, 6, 8])
        mn = rng.choice([24, 24, 24, 12, 48, 36])
        std = rng.choice([None, None, mn, 2 * mn, 3 * mn, mn + 12])
        days = rng.randint(2, 5) if mn <= 12 else rng.randint(3, 12)
        horizon = max(2, min(10, days * 24 // mn))
        nm = rng.choice([1, 1, 2, 2, 3])
        mods = self._gen_mods(rng, mn, nm)
        if rng.random() < 0.3:            # everybody in lock-step: every update asks the modifiers about everybody
            mods[0] = {"rows": [[rng.choice([mn, mn, 2 * mn])]], "style": rng.choice(["nan", "omit", "perm"])}
        case = {"drive": ["run"], "min": mn, "std": std, "days": days, "pop": pop, "mods": mods,
                "acts": self._gen_acts(rng, pop, horizon, untrack_p=0.1, mte_counts=(0, 1, 1, 2))}
        flavour = rng.choice(["nested", "nested", "nested", "fault", "fault", "init", "mix", "mix"])
        kinds = ["sorted", "sorted", "rev", "range", "object", "float"]
        nested, faults = [], []
        if flavour in ("nested", "mix") or rng.random() < 0.25:
            for _ in range(rng.choice([1, 1, 2, 3])):
                r = rng.random()
                scope = "in" if r < 0.55 else "idx" if r < 0.85 else "raw"
                ns = {"mod": rng.randrange(nm), "it": 0 if rng.random() < 0.12 else rng.randint(1, horizon), "scope": scope,
                      "ids": [] if scope == "idx" else (list(range(pop)) if rng.random() < 0.3 else
                                                        sorted(rng.sample(range(pop), rng.randint(1, pop))))}
                if scope == "idx":
                    ns["kind"] = rng.choice(["same", "same", "sorted", "rev", "object"])
                elif rng.random() < 0.5:
                    ns["kind"] = rng.choice(kinds)
                if scope != "raw" and rng.random() < 0.35:
                    ns["repeat"] = True           # "park whoever of these is asked about from now on" (seeded C10-6's component)
                if scope == "raw" and ns["it"] == 0:
                    ns["it"] = 1
                nested.append(ns)
        if flavour in ("fault", "mix") or rng.random() < 0.2:
            for _ in range(rng.choice([1, 1, 2])):
                if rng.random() < 0.65:
                    faults.append({"mod": rng.randrange(nm), "it": rng.randint(1, horizon), "first": rng.choice(["raise", "req", "req"])})
                    if rng.random() < 0.6:        # a request by the same / another modifier in the update that fails
                        nested.append({"mod": rng.randrange(nm), "it": faults[-1]["it"], "scope": rng.choice(["in", "idx"]),
                                       "ids": list(range(pop)), "kind": rng.choice(kinds)})
                    if rng.random() < 0.6 and pop:  # … and a listener's request pending while it fails
                        case["acts"].setdefault(str(faults[-1]["it"]), []).append(
                            [rng.randint(0, 3), "mte", sorted(rng.sample(range(pop), rng.randint(1, min(pop, 2))))])
                        case["acts"][str(faults[-1]["it"])].sort(key=lambda a: a[0])
                else:
                    it = rng.randint(1, horizon)
                    # (not in an iteration with a birth: the script of the later iterations counts on the newborns' labels)
                    if not any(f.get("phase") is not None and f["it"] == it for f in faults) and \
                            not any(a[1] == "birth" for a in case["acts"].get(str(it), [])):
                        faults.append({"phase": 3 if rng.random() < 0.75 else rng.randint(0, 2), "it": it,
                                       "pos": rng.choice(["before", "after"]), "by": rng.choice([0, 0, 1])})
        if flavour in ("init", "mix") or rng.random() < 0.15:
            bm = {}
            n_births = sum(1 for l in case["acts"].values() for a in l if a[1] == "birth")
            for b in range(0, n_births + 1):
                if rng.random() < (0.6 if b == 0 else 0.7):
                    spec = {"new": rng.choice(["first", "all", "last", "none"])}
                    if pop and (spec["new"] == "none" or rng.random() < 0.3):
                        spec["ids"] = sorted(rng.sample(range(pop), rng.randint(1, min(pop, 2))))
                    if rng.random() < 0.4:
                        spec["kind"] = rng.choice(kinds)
                    bm[str(b)] = spec
            if bm:
                case["birth_mte"] = bm
        if nested:
            case["nested"] = nested
        if faults:
            case["faults"] = faults
        if (faults or any(ns["scope"] == "raw" for ns in nested)) and rng.random() < 0.85 or rng.random() < 0.2:
            case["catch"] = True
        d = rng.random()
        if d < 0.3:
            case["drive"] = ["run"] if rng.random() < 0.8 else ["run_backup"]
        elif d < 0.65:
            case["drive"] = ["step", rng.choice([0, 0, 1])]
        elif d < 0.8:
            case["drive"] = ["take", rng.choice([2, 3])]
        else:
            xpool = [mn, 2 * mn, max(1, mn // 2), mn + 5, 3 * mn, 1]
            # (no run_for / run_until here: with everybody parked the global step can become 0 past the end, see the report)
            cmds = [rng.choice([["step", None], ["step", rng.choice(xpool)], ["take", 2, None], ["take", 2, rng.choice(xpool)],
                                ["take", 3, None]]) for _ in range(rng.randint(2, 6))]
            case["drive"] = ["prog", cmds, True]
        if case["drive"][0] in ("step", "take") and rng.random() < 0.4:
            case["twin"] = True
        if rng.random() < 0.08:
            case["sibling"] = True
        if rng.random() < 0.06:
            case["prior"] = rng.choice(["same", "variant"])
        return case

    def generate(self, rng: random.Random, i: int, tier: str):
        base = 3000 if tier == "thorough" else 200
        if base <= i < 10_000 or (i >= 10_000 and i % 3 == 0):      # (the runner's further search numbers its cases from 10 000)
            return self._gen_reentrant(rng, tier)
        big = tier == "thorough"
        mode = rng.choices(["classic", "explicit", "explicit-small", "until", "global", "untracked", "prior",
                            "lockstep", "repeat-mte", "births-everywhere", "empty-then-explicit"],
                           weights=[30, 11, 5, 10, 8, 8, 6, 9, 6, 4, 3])[0]
        pop = 1 if rng.random() < 0.15 else rng.randint(2, 12 if not big else 24)
        if rng.random() < 0.02:
            pop = 0
        mn = rng.choice([24, 24, 24, 12, 48, 36, 6, 72, 18, 60])
        std = None if rng.random() < 0.3 else rng.choice([mn, 2 * mn, 3 * mn, mn + 12, max(1, mn // 2), 5 * mn, 2 * mn + 5, 0,
                                                          2 * mn + 12, 3 * mn + 6, mn + 18])
        days = rng.randint(2, 14 if not big else 30)
        if mn <= 18:
            days = rng.randint(1, 5)
        zero_days = rng.random() < 0.02
        horizon = max(2, min(12, days * 24 // mn))
        case = {"drive": ["run"], "min": mn, "std": std, "days": days, "pop": pop,
                "mods": self._gen_mods(rng, mn, rng.choice([1, 1, 2, 2, 3])), "acts": {}}
        if rng.random() < 0.5:
            case["start_day"] = rng.choice([0, 30, 58, 59, 60, 364, 365, 366, rng.randint(1, 800)])
        if rng.random() < 0.3:
            case["float_cfg"] = True
        d = rng.random()
        default_drive = (["run"] if d < 0.45 else ["run_backup"] if d < 0.5 else ["run_simulation"] if d < 0.55 else
                         ["step", rng.choice([0, 0, 1, 2])] if d < 0.85 else ["take", rng.choice([2, 3])])
        xpool = [mn, 2 * mn, max(1, mn // 2), mn + 5, 3 * mn, 1, 7 * mn, mn - 1, 0]
        if mode == "classic":
            case["acts"] = self._gen_acts(rng, pop, horizon)
            case["drive"] = default_drive
            if default_drive[0] in ("step", "take") and rng.random() < 0.5:
                case["twin"] = True
        elif mode == "prior":
            case["acts"] = self._gen_acts(rng, pop, horizon)
            case["drive"] = default_drive
            case["prior"] = rng.choice([True, "same", "same", "variant", "variant"])
        elif mode == "lockstep":
            # lessons 12: the SAME simulants are due at consecutive updates while the modifiers' answers grow / shrink /
            # alternate / stay – a remembered answer, list or result from an earlier update shows at once
            case["pop"] = pop = rng.choice([1, 2, 3, 5]) if pop else 1
            shape = rng.choice(["grow", "shrink", "alternate", "plateau-then-grow", "sawtooth"])
            seq = {"grow": [1, 2, 3, 4, 6], "shrink": [6, 4, 3, 2, 1], "alternate": [1, 3, 1, 3], "plateau-then-grow": [1, 1, 1, 3, 3, 5],
                   "sawtooth": [1, 2, 3, 1, 2, 3]}[shape]
            case["mods"] = [{"rows": [[q * mn + rng.choice([0, 0, 1, mn // 2])] for q in seq], "style": rng.choice(["nan", "omit", "perm"])}]
            if rng.random() < 0.6:          # a second registration of the very same callable, asking for more
                case["mods"].append({"rows": [[(q + 2) * mn] for q in reversed(seq)], "style": "nan", "share": 0,
                                     "via": rng.choice(["time", "value", "time_kw"])})
            if rng.random() < 0.5:
                case["mods"][0]["units"] = [rng.choice(["ns", "s", "us", "ms"]) for _ in range(rng.randint(2, 4))]
            case["days"] = days = max(days, 3)
            case["acts"] = self._gen_acts(rng, pop, horizon, mte_counts=(0, 0, 1)) if rng.random() < 0.3 else {}
            case["drive"] = default_drive
            if default_drive[0] in ("step", "take"):
                case["twin"] = True
        elif mode == "repeat-mte":
            # the same request verbatim: twice before the update, again after the simulants were parked, by the other
            # component, as another kind of index, with untrack / retrack of the same simulants in between
            case["pop"] = pop = max(pop, 2)
            ids = sorted(rng.sample(range(pop), rng.randint(1, min(pop, 3))))
            k0 = rng.randint(1, 3)
            kinds = ["sorted", "rev", "range", "object", "float"]
            acts = {}

            def add(k, a):
                acts.setdefault(str(k), []).append(a)
            p0 = rng.randint(0, 2)
            add(k0, [p0, "mte", ids] + ([{"kind": rng.choice(kinds)}] if rng.random() < 0.5 else []))
            if rng.random() < 0.7:
                add(k0, [rng.randint(p0, 3), "mte", ids, {"kind": rng.choice(kinds), "by": rng.choice([0, 1])}])
            for k in sorted(rng.sample(range(k0 + 1, k0 + 7), rng.randint(1, 3))):
                r = rng.random()
                if r < 0.35:
                    add(k, [rng.randint(0, 3), "untrack", ids])
                    add(k + 1, [rng.randint(0, 3), "mte", ids, {"kind": rng.choice(kinds)}])
                    add(k + 2, [rng.randint(0, 3), "retrack", ids])
                elif r < 0.7:
                    add(k, [rng.randint(0, 3), "mte", ids] + ([{"by": 1}] if rng.random() < 0.4 else []))
                else:
                    add(k, [rng.randint(0, 3), "mte", sorted(set(ids) | {rng.randrange(pop)})])
            for k in acts:
                acts[k].sort(key=lambda a: a[0])
            case["acts"] = acts
            case["drive"] = default_drive
        elif mode == "births-everywhere":
            # births inside every event channel of consecutive steps: each later event of the same step must include them
            acts = {}
            for k in range(1, rng.randint(2, 5)):
                acts[str(k)] = [[ph, "birth", rng.choice([1, 1, 2])] + ([{"by": 1}] if rng.random() < 0.3 else [])
                                for ph in range(4) if rng.random() < 0.8]
                if not acts[str(k)]:
                    del acts[str(k)]
            case["acts"] = acts
            case["drive"] = default_drive
            if default_drive[0] in ("step", "take"):
                case["twin"] = True
        elif mode == "empty-then-explicit":
            # F33 family: whether the clock recomputes its step is a fact about NOW (empty population / first births), not
            # something to remember from the first explicit step
            case["pop"] = pop = 0
            kb = rng.randint(2, 4)
            case["acts"] = {str(kb): [[rng.randint(0, 3), "birth", rng.randint(1, 3)]]}
            cmds = [["step", rng.choice(xpool[:7])]] + [["step", None]] * (kb - 1)
            for _ in range(rng.randint(2, 5)):
                cmds.append(rng.choice([["step", rng.choice(xpool[:7])], ["step", None], ["take", 2, rng.choice(xpool[:7])]]))
            cmds.append(["step", None])
            case["drive"] = ["prog", cmds, True]
        elif mode == "untracked":
            case["acts"] = self._gen_acts(rng, pop, horizon, heavy_untrack=True)
            case["drive"] = rng.choice([["step", 0], ["take", 2], ["prog", [["run"]], False], ["prog", [["for", 3 * mn]], True], ["run"]])
            case["twin"] = case["drive"][0] != "run"
        elif mode == "explicit":
            case["acts"] = self._gen_acts(rng, pop, horizon)
            cmds = []
            for _ in range(rng.randint(2, 8)):
                r = rng.random()
                if r < 0.45:
                    cmds.append(["step", rng.choice(xpool)] + (["kw"] if rng.random() < 0.3 else []))
                elif r < 0.7:
                    cmds.append(["step", None])
                elif r < 0.85:
                    cmds.append(["take", rng.randint(1, 3), rng.choice(xpool)])
                else:
                    cmds.append(["take", rng.randint(1, 3), None])
                if rng.random() < 0.3 and cmds:          # the previous command again, verbatim
                    cmds.append(list(cmds[-1]))
                if rng.random() < 0.15 and len(cmds) >= 2:  # … or an earlier one after others
                    cmds.append(list(rng.choice(cmds[:-1])))
            for c in cmds:                                # the same quantity as pandas / python objects along ONE history
                if c[0] == "step" and c[1] is not None and len(c) == 2 and rng.random() < 0.3:
                    c.append("py")
                elif c[0] == "take" and c[2] is not None and rng.random() < 0.3:
                    c.append("py")
            case["drive"] = ["prog", cmds, rng.random() < 0.8]
        elif mode == "explicit-small":
            # conjunction: every simulant far ahead, explicit steps shorter than every gap, a pending request meanwhile
            case["mods"] = [{"rows": [[5 * mn, 6 * mn, 7 * mn]], "style": rng.choice(["nan", "perm"])}]
            case["pop"] = pop = max(pop, 2)
            case["acts"] = {str(k): [[rng.randint(0, 3), "mte", sorted(rng.sample(range(pop), rng.randint(1, min(pop, 2))))]]
                            for k in rng.sample(range(1, 5), 2)}
            cmds = [["step", rng.choice([1, max(1, mn // 2), mn - 1, mn])] for _ in range(rng.randint(3, 6))]
            case["drive"] = ["prog", cmds, True]
        elif mode == "until":
            case["acts"] = self._gen_acts(rng, pop, horizon)
            cmds, t = [], start_tick(case)
            span = 24 * days
            for _ in range(rng.randint(1, 5)):
                r = rng.random()
                if r < 0.45:
                    t = min(start_tick(case) + span + 48, max(start_tick(case), t + rng.choice([-mn, 0, 1, mn, mn + 1, 2 * mn, 3 * mn + 7, 5 * mn])))
                    cmds.append(["until", t])
                elif r < 0.8:
                    cmds.append(["for", rng.choice([1, mn, mn + 1, 2 * mn, 3 * mn - 1, 5 * mn])])
                elif r < 0.9:
                    cmds.append(["step", None])
                else:
                    cmds.append(["run"])
            for c in list(cmds):
                if rng.random() < 0.25:
                    cmds.insert(cmds.index(c) + 1, list(c))          # the same command again, verbatim
            for c in cmds:
                if c[0] == "until" and rng.random() < 0.3:
                    c.append("dt")
                elif c[0] == "for" and rng.random() < 0.3:
                    c.append("py")
            if rng.random() < 0.6:
                cmds.append(["run"])
            case["drive"] = ["prog", cmds, rng.random() < 0.5]
            case["twin"] = rng.random() < 0.5
        else:   # global: no modifier at all
            case["mods"] = []
            if rng.random() < 0.45:
                case.update(clock="simple", min=rng.choice([1, 1, 2, 3, 5]), std=rng.choice([None, 0, 1, 2, 3, 4, 7]),
                            days=rng.randint(0, 25))
                case.pop("float_cfg", None)
                mn = case["min"]
                xpool = [1, 2, 3, 5, 11]      # step(0) is refused by the SimpleClock (ValueError: step size zero)
                horizon = 8
            case["acts"] = self._gen_acts(rng, pop, horizon)
            r = rng.random()
            if r < 0.4:
                case["drive"] = default_drive
            else:
                cmds = []
                for _ in range(rng.randint(1, 5)):
                    q = rng.random()
                    cmds.append(["step", rng.choice(xpool)] if q < 0.35 else ["step", None] if q < 0.5 else
                                ["take", rng.randint(1, 3), rng.choice(xpool + [None])] if q < 0.7 else
                                ["for", rng.choice([1, mn, 2 * mn + 1, 5 * mn])] if q < 0.9 else ["run"])
                case["drive"] = ["prog", cmds, True]
        if case["mods"] and mode not in ("lockstep",):
            for m in case["mods"]:
                if rng.random() < 0.25:
                    # (object-dtype Series of Timedelta / datetime.timedelta are NOT generated: the real post-processor fails on them as soon
                    #  as another Series leaves a gap – TypeError / UFuncTypeError; see the report)
                    m["units"] = [rng.choice(["ns", "ns", "s", "us", "ms"]) for _ in range(rng.randint(2, 4))]
                if rng.random() < 0.2:
                    m["styles"] = [rng.choice(["nan", "omit", "perm", "superset"]) for _ in range(rng.randint(2, 3))]
            if len(case["mods"]) >= 2 and rng.random() < 0.25:
                j = rng.randrange(len(case["mods"]) - 1)
                q = rng.randrange(j + 1, len(case["mods"]))
                if case["mods"][j].get("share") is None:
                    case["mods"][q]["share"] = j
                    case["mods"][q]["owner"] = case["mods"][j].get("owner", 0)
                    case["mods"][q].pop("fn", None)
        if "prior" not in case and rng.random() < 0.08:
            case["prior"] = rng.choice(["same", "variant"])
        if rng.random() < 0.1:
            case["sibling"] = True
        if zero_days and case["drive"][0] != "run_simulation":     # a zero-length simulation cannot be finalized (C06's business)
            case["days"] = 0
        return case

    def shrink(self, case):
        for k in sorted(case["acts"], key=int, reverse=True):
            lst = case["acts"][k]
            for j in range(len(lst) - 1, -1, -1):
                new = dict(case["acts"])
                rest = lst[:j] + lst[j + 1:]
                if rest:
                    new[k] = rest
                else:
                    del new[k]
                yield dict(case, acts=new)
        for key in ("nested", "faults"):
            lst = case.get(key) or []
            for j in range(len(lst) - 1, -1, -1):
                rest = lst[:j] + lst[j + 1:]
                yield {**{k: v for k, v in case.items() if k != key}, **({key: rest} if rest else {})}
            for j, x in enumerate(lst):
                if x.get("repeat") or x.get("kind"):
                    yield dict(case, **{key: lst[:j] + [{k: v for k, v in x.items() if k not in ("repeat", "kind")}] + lst[j + 1:]})
        for b in sorted(case.get("birth_mte") or {}):
            rest = {k: v for k, v in case["birth_mte"].items() if k != b}
            yield {**{k: v for k, v in case.items() if k != "birth_mte"}, **({"birth_mte": rest} if rest else {})}
        for key in ("twin", "prior", "sibling", "float_cfg", "start_day", "catch"):
            if case.get(key):
                yield {k: v for k, v in case.items() if k != key}
        if case["drive"][0] == "prog":
            cmds = case["drive"][1]
            for j in range(len(cmds) - 1, -1, -1):
                if len(cmds) > 1 or case["drive"][2]:
                    yield dict(case, drive=["prog", cmds[:j] + cmds[j + 1:], case["drive"][2]])
        for mi in range(len(case["mods"]) - 1, -1, -1):
            if len(case["mods"]) > 1:
                extra = {}
                for key in ("nested", "faults"):          # their modifier numbers follow
                    if case.get(key):
                        extra[key] = [dict(x, mod=x["mod"] - 1) if x.get("mod", -1) > mi else x for x in case[key] if x.get("mod") != mi]
                yield dict(case, mods=_drop_mod(case["mods"], mi), **extra)
            m = case["mods"][mi]
            rows = m["rows"]
            for ri in range(len(rows) - 1, -1, -1):
                if len(rows) > 1:
                    yield dict(case, mods=case["mods"][:mi] + [dict(m, rows=rows[:ri] + rows[ri + 1:])] + case["mods"][mi + 1:])
            if m.get("share") is None and any(sp.get("share") == mi for sp in case["mods"]):
                pass            # (simplifying a shared callable's first registration would change what "shared" means)
            elif set(m) - {"rows", "style"} or m.get("style") not in ("nan", "omit"):
                yield dict(case, mods=case["mods"][:mi] + [{"rows": rows, "style": "omit" if m.get("style") == "omit" else "nan"}] + case["mods"][mi + 1:])
        if case["pop"] > 1:
            mx = max([max(a[2]) for l in case["acts"].values() for a in l if a[1] != "birth" and a[2]] + [0])
            if mx < case["pop"] - 1:
                yield dict(case, pop=case["pop"] - 1)
        if case["days"] > 1:
            yield dict(case, days=case["days"] - 1)
        if case["drive"][0] in ("take",) or (case["drive"][0] == "step" and case["drive"][1]):
            yield dict(case, drive=["step", 0])

    # ------------------------------------------------------------------ implementation
    def run_impl(self, case):
        return _run(case)

    # ------------------------------------------------------------------ model
    @staticmethod
    def _mods_line(case, n, it):
        if n == 0 or not case["mods"]:
            return "-"
        return ";".join(",".join("_" if (v := mod_value(m, s, it)) is None else str(v) for m in case["mods"]) for s in range(n))

    @staticmethod
    def _ids_tok(ids):
        return ",".join(map(str, ids)) if ids else "-"

    @staticmethod
    def _calls_tok(obs, it):
        """what the modifiers did during the pipeline evaluation of update `it` (requests as they were ISSUED – they are
        inputs of the clock – and the scripted faults), in invocation order"""
        toks = []
        for c in (obs.get("calls") or {}).get(str(it), []):
            ids = ",".join(map(str, c["req"])) if c.get("req") else ""
            if c.get("raised") == "raise-first":
                toks.append("!")
            elif c.get("raised"):
                toks.append((ids or "-") + "!")
            else:
                toks.append(ids or "_")
        return ";".join(toks) if toks else "-"

    def plan(self, case, obs):
        """the driver lines of the case with a tag each (shared by `model_lines` and `compare`)"""
        mode = "" if case["mods"] else (" simple" if is_simple(case) else " global")
        breq = obs.get("birth_reqs") or {}
        P = [(f"cfg {start_tick(case)} {stop_tick(case)} {case['min']} {case['std'] or 0}{mode}", ("cfg",)),
             (f"init {case['pop']} {self._mods_line(case, case['pop'], 0)} {self._calls_tok(obs, 0)} {self._ids_tok(breq.get('0'))}", ("init",))]
        n = case["pop"]
        batch = 0
        iters = obs.get("iters") or []
        meta = obs.get("meta") or []
        for k in range(1, len(iters) + 1):
            ex = meta[k - 1]["explicit"] if k - 1 < len(meta) else None
            if ex is not None:
                P.append((f"override {ex}", ("override", k)))
            for p in range(4):
                acts = executed_acts(case, k, p)
                if acts is None:
                    break
                P.append(("event", ("event", k, p)))
                for ai, a in enumerate(acts):
                    if a[1] == "mte":
                        P.append(("snooze " + self._ids_tok(a[2]), ("act", k, p, ai, a)))
                    elif a[1] == "birth":
                        P.append((f"birth {a[2]}", ("act", k, p, ai, a)))
                        batch += 1
                        req = breq.get(str(batch))
                        if req is not None:
                            P.append(("snooze " + self._ids_tok(req), ("birthreq", k, p, ai)))
                        n += a[2]
                    else:
                        P.append((f"{a[1]} " + self._ids_tok(a[2]), ("act", k, p, ai, a)))
            if listener_fault(case, k) is not None:
                P.append(("fail", ("fail", k)))
            else:
                P.append((f"step {self._mods_line(case, n, k)} {self._calls_tok(obs, k)}", ("step", k)))
        return P

    def model_lines(self, case, obs):
        return [l for l, _ in self.plan(case, obs)]

    @staticmethod
    def _parse_st(reply):
        t = reply.split()
        if t[:1] == ["err"]:
            t = t[2:]
        if not t or t[0] != "st":
            return None
        sims = [] if t[4] == "-" else [[int(x) for x in s.split(":")] for s in t[4].split(";")]
        return {"now": int(t[1]), "step": int(t[2]), "sims": sims, "pending": [] if t[3] == "-" else sorted(int(x) for x in t[3].split(","))}

    @staticmethod
    def _same_state(model, impl_state):
        if model is None or impl_state is None:
            return False
        keys = ["now", "step", "sims"] + (["pending"] if impl_state.get("pending") is not None else [])
        return all(model.get(k) == impl_state.get(k) for k in keys)

    def compare(self, case, obs, replies):
        dis = []
        if obs.get("init") is None:
            return [f"implementation failed before the population existed: {obs['outcome']} {obs.get('err_msg')}"]
        if replies[0] != "ok":
            return [f"cfg: model {replies[0]}"]
        iters = obs["iters"]
        meta = obs.get("meta") or []
        states = after_states(obs)                            # states[k-1] = after iteration k
        caught = obs.get("caught") or []
        ERR = {"population": "KeyError", "key": "KeyError", "raised": "Planned"}
        for (line, tag), rep in zip(self.plan(case, obs), replies):
            kind = tag[0]
            if kind == "cfg":
                continue
            if kind == "init":
                st = self._parse_st(rep)
                if rep.startswith("err") or not self._same_state(st, obs["init"]):
                    dis.append(f"after initialize_simulants: impl {obs['init']}, model {rep}")
                continue
            k = tag[1]
            evs = iters[k - 1]
            if kind == "override":
                if rep != "ok":
                    dis.append(f"iteration {k} explicit step: model {rep}")
            elif kind == "event":
                p = tag[2]
                if p < len(evs):
                    e = evs[p]
                    want = f"ev {e['now']} {e['step']} {e['time']} {','.join(map(str, e['index'])) or '-'}"
                    if rep != want or e["estep"] != e["step"]:
                        dis.append(f"iteration {k} {PHASES[p]}: impl {want} (event.step_size {e['estep']}), model {rep}")
                else:
                    dis.append(f"iteration {k} {PHASES[p]}: impl emitted no event ({obs['outcome']}), model {rep}")
            elif kind == "act":
                p, ai, a = tag[2], tag[3], tag[4]
                if a[1] == "birth" and p < len(evs) and ai < len(evs[p]["acts"]):
                    got = evs[p]["acts"][ai][1]
                    if rep != "ok " + (",".join(map(str, got)) or "-"):
                        dis.append(f"iteration {k} birth: impl {got}, model {rep}")
                elif not rep.startswith("ok"):
                    dis.append(f"iteration {k} action {a}: model {rep}")
                if p < len(evs) and len(evs[p]["acts"]) <= ai:
                    dis.append(f"iteration {k} {PHASES[p]}: action {a} was not performed by the implementation ({obs['outcome']})")
            elif kind == "birthreq":
                if not rep.startswith("ok"):
                    dis.append(f"iteration {k} request from an initializer: model {rep}")
            else:     # the end of the iteration: clock update ("step") or a listener that raised ("fail")
                last = k == len(iters)
                mine = [c["exc"] for c in caught if c["it"] == k]
                exc = mine[0] if mine else (obs["outcome"].split(":")[-1] if (last and obs["outcome"].startswith("err:")) else None)
                model_exc = "Planned" if kind == "fail" else (ERR.get(rep.split()[1]) if rep.startswith("err ") else None)
                if exc != model_exc:
                    dis.append(f"iteration {k}: impl {'raised ' + exc if exc else 'completed'} ({obs['outcome']}, {obs.get('err_msg')}, caught {mine}), model {rep}")
                    continue
                if kind == "fail":
                    f = listener_fault(case, k)
                    got = evs[f["phase"]].get("fault") if f["phase"] < len(evs) else None
                    if got != [f.get("by", 0), "after" if f.get("pos") == "after" else "before"]:
                        dis.append(f"iteration {k}: the scripted listener fault {f} did not happen as scripted (harness): {got}")
                    if f["phase"] < 3 and not last:
                        dis.append(f"iteration {k}: a listener of {PHASES[f['phase']]} raised, yet the lifecycle went on to another iteration")
                st = self._parse_st(rep)
                nxt_ex = meta[k]["explicit"] if k < len(meta) else None
                if st is not None and nxt_ex is not None:
                    # the snapshot was taken inside the next iteration, whose explicit step is already in force
                    st["step"] = nxt_ex
                    if not case["mods"]:
                        st["sims"] = [[i, st["now"] + nxt_ex, nxt_ex] for i, _, _ in st["sims"]]
                if st is not None and last and obs["outcome"] == "refused:lifecycle" and obs.get("cmds"):
                    # the command the lifecycle refused had put its explicit step size in force before the engine step raised
                    rc = obs["cmds"][-1]["cmd"]
                    rx = rc[1] if rc[0] == "step" else rc[2] if rc[0] == "take" else None
                    if rx is not None:
                        st["step"] = rx
                if k - 1 >= len(states) or not self._same_state(st, states[k - 1]):
                    dis.append(f"after iteration {k}: impl {states[k - 1] if k - 1 < len(states) else None}, model {rep}")
        if obs["outcome"] != "ok" and not iters:
            dis.append(f"impl {obs['outcome']} ({obs.get('err_msg')}) before the first iteration")
        if obs["outcome"] == "refused:lifecycle":
            f = listener_fault(case, len(iters))
            if f is None or f["phase"] == 3:
                dis.append(f"the lifecycle refused to go on ({obs.get('err_msg')}) although no listener before collect_metrics raised in iteration {len(iters)}")
        # loop conditions (the numbers are the model-agreed ones at this point)
        for f in self._loop_failures(case, obs):
            dis.append("loop condition: " + f["msg"])
        return dis

    # ------------------------------------------------------------------ loops: run(), run_until, run_for, interactive run
    def _loop_failures(self, case, obs):
        out = []
        if obs["outcome"] != "ok" or obs.get("init") is None:
            return out
        stop = stop_tick(case)
        states = after_states(obs)
        nows = [obs["init"]["now"]] + [s.get("now") for s in states]      # nows[k] = clock after iteration k
        if not all(isinstance(x, int) for x in nows):
            return out
        drive = case["drive"]
        if drive[0] in ("run", "run_backup", "run_simulation") or drive == ["step", 0]:
            if any(x >= stop for x in nows[:-1]) or nows[-1] < stop:
                out.append({"sig": "loop-end", "msg": f"the main loop must stop at the first clock value at or past the end "
                                                     f"{stop}: clock values {nows}"})
        for c in obs.get("cmds") or []:
            cmd = c["cmd"]
            if c.get("fault"):
                continue                  # the command was cut short by an exception the caller caught
            if cmd[0] not in ("until", "for", "run"):
                if cmd[0] in ("step", "take") and c.get("n") != (1 if cmd[0] == "step" else cmd[1]):
                    out.append({"sig": "step-count", "msg": f"{cmd} took {c.get('n')} iterations"})
                continue
            first, n = c["first"], c["n"]
            target = cmd[1] if cmd[0] == "until" else (nows[first - 1] + cmd[1] if cmd[0] == "for" else stop)
            seq = nows[first - 1:first + n]                                  # clock before each iteration of the command, and after the last
            if seq[-1] < target:
                out.append({"sig": "run-until-short", "msg": f"{cmd} returned at clock {seq[-1]} before reaching {target}"})
            if any(x >= target for x in seq[:-1]):
                out.append({"sig": "run-until-overshoot", "msg": f"{cmd} (target {target}) kept stepping after the clock had reached "
                                                                 f"the target: clock values {seq}"})
            if c.get("ret") is not None and c["ret"] != n:
                out.append({"sig": "run-until-count", "msg": f"{cmd} returned {c['ret']} but took {n} steps"})
        return out

    # ------------------------------------------------------------------ oracle (the property itself)
    def oracle(self, case, obs):
        fails = []

        def fail(sig, msg):
            if not any(f["sig"] == sig for f in fails):
                fails.append({"sig": sig, "msg": msg})

        start, stop, mn = start_tick(case), stop_tick(case), case["min"]
        unknown_request = False
        n = case["pop"]
        for k in sorted(map(int, case["acts"])):       # does the script ever name a simulant that does not exist (yet)?
            for a in case["acts"][str(k)]:
                if a[1] == "birth":
                    n += a[2]
                elif any(i >= n for i in a[2]):
                    unknown_request = True
        if obs.get("init") is None:
            fail("raised:" + obs["outcome"].split(":")[-1], f"the simulation raised {obs['outcome']}: {obs.get('err_msg')}")
            return fails
        # every generated schedule is a legal use of the API: nothing may raise except what the script raises on purpose
        # (`Planned`), the lifecycle's refusal to go on after a listener before collect_metrics raised (C06), and KeyError for
        # a request naming a simulant that does not exist
        raised = [(c["it"], c["exc"], c.get("msg")) for c in obs.get("caught") or []]
        if obs["outcome"].startswith("err:"):
            raised.append((len(obs.get("iters") or []), obs["outcome"].split(":")[-1], obs.get("err_msg")))
        for it, exc, msg in raised:
            lf = listener_fault(case, it)
            if exc == "Planned" and case.get("faults"):
                continue
            if exc == "InvalidTransitionError" and lf is not None and lf["phase"] < 3:
                continue
            if exc == "KeyError" and unknown_request:
                continue
            if exc == "KeyError" and nested_outside(obs, it):
                if FLAG_NESTED_REQUEST_RAISED:
                    fail("nested-request-raised", f"update {it}: a move-to-end request made from inside a step-size modifier for simulants "
                                                  f"{nested_outside(obs, it)} that are not being updated raised KeyError: {msg}")
                continue
            fail("raised:" + exc, f"iteration {it}: the simulation raised {exc}: {msg}")
        init = obs["init"]
        if init["now"] != start:
            fail("clock-start", f"after initialize_simulants the clock is at {init['now']}, configured start is {start}")
        for f in self._loop_failures(case, obs):
            fail(f["sig"], f["msg"])
        self._twin(case, obs, fail)
        if not case["mods"]:
            self._oracle_global(case, obs, fail)
            return fails
        # ---- state after initialize_simulants: everybody was due, so everybody's step follows the rule – except those an
        # initializer or a modifier moved to the end already (they must be parked beyond the end by this first update)
        calls = obs.get("calls") or {}
        caught_its = {c["it"] for c in obs.get("caught") or []}
        pending = set((obs.get("birth_reqs") or {}).get("0") or [])
        for c in calls.get("0", []):
            pending |= set(c.get("req") or [])
        for i, nxt, stp in init["sims"]:
            if i in pending:
                if not (isinstance(nxt, int) and nxt > stop):
                    fail("moved-to-end-not-parked", f"simulant {i} was moved to the end while the initial population was created; after "
                                                    f"initialize_simulants its next-event time is {nxt}h, not beyond the end {stop}h")
                continue
            want = rule_step(case, i, 0)
            if stp != want:
                fail("step-size-rule", f"after initialize_simulants simulant {i} has step {stp}h, rule gives {want}h "
                                       f"(configured minimum {mn}h, standard {case['std']}h)")
            if nxt != _add(init["now"], stp):
                fail("included-not-advanced", f"after initialize_simulants simulant {i}: next {nxt} != clock {init['now']} + step {stp}")
        states = after_states(obs)
        meta = obs.get("meta") or []
        before = init
        parked = {i: 0 for i in pending}               # simulant -> iteration whose clock update honoured the request
        pending = set()                                # requested since the last completed clock update
        recovering = False                             # the previous iteration ended in an exception the caller caught

        def timing(sig, msg):
            """the clauses about WHERE the clock goes: after a failed step they describe a candidate finding (flag)"""
            if not recovering:
                fail(sig, msg)
            elif FLAG_STALE_STEP_AFTER_FAILED_STEP:
                fail("stale-step-after-failed-step", "(iteration after a failed step) " + msg)

        for k, evs in enumerate(obs["iters"], start=1):
            if not isinstance(before["now"], int) or before["now"] >= stop:
                break                                  # events after the end of the simulation are not constrained
            ex = meta[k - 1]["explicit"] if k - 1 < len(meta) else None
            prev_ex = meta[k - 2]["explicit"] if 2 <= k <= len(meta) + 1 else None
            stale = ex is None and prev_ex is not None          # default step right after an explicit one
            for p, e in enumerate(evs):
                nets = e["net"]
                ids = list(range(len(nets)))
                if not all(isinstance(x, int) for x in nets + [e["time"], e["now"]]):
                    fail("non-integral-time", f"iteration {k} {PHASES[p]}: {e}")
                    return fails
                reached = [i for i in ids if nets[i] <= e["time"]]
                if e["index"] != reached:
                    missing = sorted(set(reached) - set(e["index"]))
                    fail("event-index-skips-due" if missing else "event-index-includes-early",
                         f"iteration {k} {PHASES[p]} at {e['time']}h: index {e['index']}, simulants whose next-event time "
                         f"is reached {reached} (next-event times {nets}, untracked {e.get('untracked')})")
                if e["now"] != before["now"]:
                    fail("clock-moved-between-events", f"iteration {k} {PHASES[p]}: clock {e['now']}h, was {before['now']}h after the last update")
                if not nets and ex is None and (e["step"] != mn or e["time"] != e["now"] + mn):
                    # nobody has ever existed: nothing could recompute the global step, an explicit step size is undone afterwards
                    timing("empty-population-step", f"iteration {k} {PHASES[p]}: empty population, default step {e['step']}h to {e['time']}h; "
                                                  f"configured step {mn}h")
                if ex is not None:
                    if e["time"] != e["now"] + ex or e["estep"] != ex:
                        fail("explicit-step-not-honoured", f"iteration {k} {PHASES[p]}: step({ex}h) at clock {e['now']}h gave event time "
                                                           f"{e['time']}h, event.step_size {e['estep']}h")
                elif stale:
                    # F33: the default step right after a step with an explicit size goes to the earliest pending next-event time too
                    if nets and e["time"] != min(nets):
                        timing("stale-step-after-explicit-step", f"iteration {k} {PHASES[p]} (default step after step({prev_ex}h)): event time "
                                                               f"{e['time']}h, earliest pending next-event time {min(nets)}h")
                elif nets and e["time"] != min(nets):
                    timing("event-time-not-earliest", f"iteration {k} {PHASES[p]}: event time {e['time']}h, earliest pending "
                                                    f"next-event time {min(nets)}h (clock {e['now']}h, step {e['step']}h)")
                if nets and any(x <= e["now"] for x in nets) and (ex is None or ex > 0):   # (a newborn of a step(0) is due "now")
                    timing("next-event-time-passed", f"iteration {k} {PHASES[p]}: clock {e['now']}h has reached/passed a pending "
                                                   f"next-event time {nets}")
                if e["time"] <= stop:
                    late = sorted(i for i in e["index"] if i in parked and parked[i] < k)
                    if late:
                        fail("moved-to-end-included", f"iteration {k} {PHASES[p]} (event time {e['time']}h <= end {stop}h) includes "
                                                      f"{late}, moved to the end in iteration(s) {[parked[i] for i in late]}")
                for a in e["acts"]:
                    if a[0] == "mte":
                        pending |= set(a[1])
                    elif a[0] == "birth" and len(a) > 2:          # a request issued by an initializer of the newborns
                        pending |= set(a[2])
            if k - 1 >= len(states):
                break
            after = states[k - 1]
            if "error" in after:
                break
            for c in calls.get(str(k), []):                       # requests issued from inside the modifiers during the update
                pending |= set(c.get("req") or [])
            terminal = k == len(obs["iters"]) and obs["outcome"] != "ok"
            if terminal and obs["outcome"] not in ("err:Planned", "err:KeyError"):
                break                      # (e.g. the probe's cut-off: raised when the NEXT iteration was about to begin)
            if k in caught_its or terminal:
                # the iteration ended in an exception: no clock update completed. Nobody's schedule may have moved, and the
                # requests stay to be honoured by the next update that completes
                bef = {i: (nxt, stp) for i, nxt, stp in before["sims"]}
                for i, nxt, stp in after["sims"]:
                    if i in bef and (nxt, stp) != bef[i]:
                        fail("updated-by-failed-step", f"iteration {k} ended in an exception, yet simulant {i}'s (next, step) went "
                                                       f"{bef[i]} -> {(nxt, stp)}")
                if terminal:
                    break
                recovering = True
                before = after
                continue
            if len(evs) < 4:
                break
            last = evs[3]
            nets = last["net"]
            if after["now"] != last["time"]:
                fail("clock-not-advanced-to-event-time", f"iteration {k}: event time {last['time']}h, clock afterwards {after['now']}h")
            if ex is None and not stale and nets and after["now"] != min(nets):
                timing("clock-not-at-earliest", f"iteration {k}: clock moved to {after['now']}h, earliest pending next-event time "
                                              f"was {min(nets)}h")
            aft = {i: (nxt, stp) for i, nxt, stp in after["sims"]}
            for i in range(len(nets)):
                if i not in aft:
                    fail("simulant-lost", f"iteration {k}: simulant {i} has no clock afterwards")
                    continue
                nxt, stp = aft[i]
                due = nets[i] <= after["now"]
                if i in pending:
                    continue
                if due:
                    want = rule_step(case, i, k)
                    if stp != want:
                        fail("step-size-rule", f"iteration {k}: simulant {i} was due, modifiers say "
                                               f"{[mod_value(m, i, k) for m in case['mods']]} (standard {case['std']}, minimum {mn}) "
                                               f"-> {want}h, got {stp}h")
                    if nxt != _add(after["now"], stp):
                        fail("included-not-advanced", f"iteration {k}: simulant {i} was included at {after['now']}h with step {stp}h "
                                                      f"but its next-event time is {nxt}h")
                else:
                    old = (nets[i], dict((a, c) for a, b, c in before["sims"]).get(i))
                    if nxt != nets[i] or (old[1] is not None and stp != old[1]):
                        fail("updated-early", f"iteration {k}: simulant {i} was not due (next {nets[i]}h > clock {after['now']}h) and "
                                              f"not moved, yet (next, step) went {old} -> {(nxt, stp)}")
            for i in sorted(pending):
                if i in aft and not (isinstance(aft[i][0], int) and aft[i][0] > stop):
                    fail("moved-to-end-not-parked", f"iteration {k}: simulant {i} was moved to the end before the clock update of this "
                                                    f"iteration completed (by a listener, an initializer or from inside a step-size modifier); "
                                                    f"afterwards its next-event time is {aft[i][0]}h, not beyond the end {stop}h")
                parked.setdefault(i, k)
            pending = set()
            if after["sims"]:
                recovering = False         # a completed update of a non-empty population has recomputed the global step
            if isinstance(after["now"], int) and after["now"] < stop and after["sims"]:
                stale_t = [i for i, nxt, _ in after["sims"] if not isinstance(nxt, int) or nxt <= after["now"]]
                if stale_t:
                    fail("stale-next-event-time", f"after iteration {k} the clock is {after['now']}h but {stale_t} have a next-event "
                                                  f"time at or before it: {after['sims']}")
            before = after
        return fails

    def _twin(self, case, obs, fail):
        """interactive stepping with default steps must visit exactly the events of the engine's run()"""
        tw = obs.get("twin")
        if not tw or obs["outcome"] != "ok":
            return
        if tw["outcome"] != "ok":
            fail("engine-twin-raised", f"the same program under SimulationContext.run() raised {tw['outcome']}")
            return
        stop = stop_tick(case)
        mine = [[[e["now"], e["time"], e["index"]] for e in evs] for evs in obs["iters"] if evs and isinstance(evs[0]["now"], int) and evs[0]["now"] < stop]
        fin = obs.get("final") or {}
        finished = isinstance(fin.get("now"), int) and fin["now"] >= stop
        theirs = tw["iters"] if finished else tw["iters"][:len(mine)]
        if mine != theirs:
            j = next((q for q in range(min(len(mine), len(tw["iters"]))) if mine[q] != tw["iters"][q]), min(len(mine), len(tw["iters"])))
            fail("interactive-differs-from-engine",
                 f"iteration {j + 1}: interactive {mine[j] if j < len(mine) else None}, engine run() {tw['iters'][j] if j < len(tw['iters']) else None} "
                 f"(interactive took {len(mine)} iterations before the end, the engine {len(tw['iters'])})")

    def _oracle_global(self, case, obs, fail):
        """no step-size modifier: one global clock; every event includes everybody (tracked or not) and the clock moves by the
        configured step (DateTimeClock: step_size; SimpleClock: standard_step_size when set, else step_size)"""
        stop = stop_tick(case)
        cfg_step = (case["std"] or case["min"]) if is_simple(case) else case["min"]
        meta = obs.get("meta") or []
        states = after_states(obs)
        before = obs["init"]
        for k, evs in enumerate(obs["iters"], start=1):
            if not isinstance(before["now"], int) or before["now"] >= stop:
                break
            ex = meta[k - 1]["explicit"] if k - 1 < len(meta) else None
            want_step = cfg_step if ex is None else ex
            for p, e in enumerate(evs):
                everybody = list(range(len(e["net"])))
                if e["index"] != everybody:
                    fail("global-event-misses-simulant", f"iteration {k} {PHASES[p]}: index {e['index']}, population {everybody} "
                                                         f"(untracked {e.get('untracked')})")
                if e["step"] != want_step or e["estep"] != want_step or e["time"] != _add(e["now"], want_step):
                    fail("global-step-not-configured", f"iteration {k} {PHASES[p]}: clock {e['now']}, step {e['step']}, event time {e['time']}, "
                                                       f"event.step_size {e['estep']}; expected step {want_step}")
                if e["now"] != before["now"]:
                    fail("clock-moved-between-events", f"iteration {k} {PHASES[p]}: clock {e['now']}, was {before['now']}")
                if any(x != e["time"] for x in e["net"]):
                    fail("global-next-event-time", f"iteration {k} {PHASES[p]}: next-event times {e['net']}, event time {e['time']}")
            if len(evs) < 4 or k - 1 >= len(states) or "error" in states[k - 1]:
                break
            after = states[k - 1]
            if after["now"] != _add(before["now"], want_step):
                fail("clock-not-advanced-to-event-time", f"iteration {k}: clock {before['now']} + step {want_step} != {after['now']}")
            before = after

    # ------------------------------------------------------------------ reporting
    def nontrivial(self, case, obs):
        its = obs.get("iters") or []
        idx = {tuple(e["index"]) for evs in its for e in evs}
        steps = {e["step"] for evs in its for e in evs}
        return len(idx) >= 2 or any(s != case["min"] for s in steps) or (not case["mods"] and len(its) >= 2)

    def tags(self, case, obs):
        cl = "simple" if is_simple(case) else "datetime"
        t = ["drive:" + case["drive"][0], f"mods:{len(case['mods'])}", "outcome:" + obs["outcome"], "clock:" + cl,
             "pop:0" if case["pop"] == 0 else "pop:1" if case["pop"] == 1 else ("pop:2-4" if case["pop"] <= 4 else "pop:5+"),
             f"min:{case['min']}" + ("h" if cl == "datetime" else "u"),
             "std:none" if case["std"] is None else "std:0" if case["std"] == 0 else
             ("std:below-min" if case["std"] < case["min"] else ("std:multiple" if case["std"] % case["min"] == 0 else "std:non-multiple"))]
        if cl == "datetime":
            if case["min"] % 24:
                t.append("min:fractional-days")
            if case["std"] and case["std"] % 24:
                t.append("std:fractional-days")
            if case["std"] and case["std"] % 24 != case["min"] % 24:
                t.append("std-fraction-differs-from-min-fraction")
        for key in ("twin", "float_cfg", "sibling"):
            if case.get(key):
                t.append(key)
        if case.get("prior"):
            t.append("prior:" + ("fixed" if case["prior"] is True else str(case["prior"])))
        for ns in case.get("nested") or []:
            t += ["nested-request", "nested:" + ns.get("scope", "in")] + (["nested-repeat"] if ns.get("repeat") else []) + \
                 (["nested-at-init"] if ns["it"] == 0 else [])
        parked_so_far = set()
        for it in sorted(obs.get("calls") or {}, key=int):
            for c in obs["calls"][it]:
                if c.get("req"):
                    t.append("nested-request-issued")
                    t.append("nested-whole-index" if set(c["req"]) == set(c["idx"]) else
                             "nested-outside-index" if set(c["req"]) - set(c["idx"]) else "nested-proper-subset")
                    if set(c["req"]) & parked_so_far:
                        t.append("nested-request-repeated")
                    parked_so_far |= set(c["req"])
                elif c.get("req") == []:
                    t.append("nested-request-empty")
                if c.get("raised"):
                    t.append("fault:modifier-" + c["raised"])
        for f in case.get("faults") or []:
            if "phase" in f:
                t.append("fault:listener@" + PHASES[f["phase"]])
        for c in obs.get("caught") or []:
            t.append("caught:" + c["exc"])
        if obs.get("caught") and len(obs.get("iters") or []) > max(c["it"] for c in obs["caught"]):
            t.append("stepped-on-after-caught-exception")
        for b in obs.get("birth_reqs") or {}:
            t.append("initializer-request@" + ("initial-population" if b == "0" else "birth"))
        if case.get("catch"):
            t.append("catch")
        cl_ = [c["cmd"] for c in (obs.get("cmds") or [])]
        if any(a == b and a[0] in ("until", "for", "run") or (a == b and a[0] in ("step", "take") and a[2 if a[0] == "take" else 1] is not None)
               for a, b in zip(cl_, cl_[1:])):
            t.append("cmd-repeated-verbatim")
        reqs = [(k, tuple(a[2])) for k in sorted(map(int, case["acts"])) for a in case["acts"][str(k)] if a[1] == "mte" and a[2]]
        if any(r1[1] == r2[1] and r1[0] == r2[0] for n1, r1 in enumerate(reqs) for r2 in reqs[n1 + 1:]):
            t.append("mte-repeated-before-update")
        if any(r1[1] == r2[1] and r1[0] < r2[0] for n1, r1 in enumerate(reqs) for r2 in reqs[n1 + 1:]):
            t.append("mte-repeated-after-parked")
        if case.get("start_day"):
            t.append("start-shifted")
        if not case["mods"]:
            t.append("no-modifier")
        if case["days"] == 0:
            t.append("end==start")
        for m in case["mods"]:
            t += ["style:" + m.get("style", "nan"), "fn:" + m.get("fn", "lambda"), "via:" + m.get("via", "time"), f"owner:{m.get('owner', 0)}"]
            if m.get("share") is not None:
                t.append("shared-callable")
            if m.get("units"):
                t += ["unit:" + u for u in m["units"]] + (["units-change-along-history"] if len(set(m["units"])) > 1 else [])
            if m.get("styles") and len(set(m["styles"])) > 1:
                t.append("styles-change-along-history")
            col = [r[0] for r in m["rows"] if r and r[0] is not None]
            if len(col) >= 2 and len(m["rows"][0]) == 1:
                if any(b > a for a, b in zip(col, col[1:])):
                    t.append("lockstep-answer-grows")
                if any(b < a for a, b in zip(col, col[1:])):
                    t.append("lockstep-answer-shrinks")
            flat = [v for r in m["rows"] for v in r]
            if any(v is None for v in flat):
                t.append("partial-coverage")
            if any(v is not None and v % case["min"] for v in flat):
                t.append("non-multiple-request")
            if any(v is not None and v < case["min"] for v in flat):
                t.append("request-below-min")
            if len(m["rows"]) > 1:
                t.append("values-change-over-time")
        stop = stop_tick(case)
        its = obs.get("iters") or []
        meta = obs.get("meta") or []
        for c in obs.get("cmds") or []:
            cmd = c["cmd"]
            t.append("cmd:" + cmd[0] + ("+step_size" if cmd[0] in ("step", "take") and cmd[2 if cmd[0] == "take" else 1] is not None else ""))
            if cmd[-1] in ("py", "dt"):
                t.append("cmd-arg:python-object")
            if cmd[0] in ("until", "for", "run") and c.get("n") == 0:
                t.append("cmd:" + cmd[0] + "-zero-iterations")
        untracked_seen = False
        for k, evs in enumerate(its, start=1):
            ex = meta[k - 1]["explicit"] if k - 1 < len(meta) else None
            prev_ex = meta[k - 2]["explicit"] if 2 <= k <= len(meta) + 1 else None
            for p, e in enumerate(evs):
                if e.get("untracked"):
                    untracked_seen = True
                    if set(e["untracked"]) & set(e["index"]):
                        t.append("untracked-in-event")
                for a in e["acts"]:
                    o = next((act_opts(x) for x in acts_of(case, k, p) if x[1] == a[0] and (a[0] == "birth" or x[2] == a[1])), {})
                    if o.get("by"):
                        t.append("act-by-second-component")
                    if a[0] == "birth":
                        t.append(f"birth@{PHASES[p]}")
                        if not a[1]:
                            t.append("birth-of-0")
                    elif a[0] == "mte":
                        t.append("mte")
                        t.append("mte-index:" + o.get("kind", "sorted"))
                        if a[1] == [0]:
                            t.append("mte-{0}")
                        if not a[1]:
                            t.append("mte-empty")
                        if any(i not in e["index"] for i in a[1]):
                            t.append("mte-not-due")
                        if a[1] and len(a[1]) == len(e["net"]):
                            t.append("mte-everybody")
                        if set(a[1]) & set(e.get("untracked") or []):
                            t.append("mte-of-untracked")
                    else:
                        t.append(a[0])
            if evs and isinstance(evs[0]["now"], int) and evs[0]["now"] >= stop:
                t.append("iteration-past-end")
            if evs and not evs[0]["index"]:
                t.append("empty-event")
            if evs and 0 < len(evs[0]["index"]) < len(evs[0]["net"]):
                t.append("event-proper-subset")
            if evs and evs[0]["step"] != case["min"]:
                t.append("global-step>min" if isinstance(evs[0]["step"], int) and evs[0]["step"] > case["min"] else "global-step<min")
            if ex is not None and evs:
                nets = evs[0]["net"]
                if nets and isinstance(evs[0]["time"], int):
                    t.append("explicit-step-short-of-earliest" if evs[0]["time"] < min(nets) else
                             "explicit-step-past-several" if sum(1 for x in set(nets) if x <= evs[0]["time"]) > 1 else "explicit-step-on-earliest"
                             if evs[0]["time"] == min(nets) else "explicit-step-past-one")
                if any(a[0] == "mte" and a[1] for e in evs for a in e["acts"]) and not evs[0]["index"]:
                    t.append("explicit-empty-event-with-request")
            if ex is None and prev_ex is not None and evs and evs[0]["net"] and evs[0]["time"] != min(evs[0]["net"]) \
                    and case["mods"] and isinstance(evs[0]["now"], int) and evs[0]["now"] < stop:
                t.append("stale-step-after-explicit-step")
        if untracked_seen:
            t.append("untracked-simulants")
        fin = obs.get("final") or {}
        if isinstance(fin.get("now"), int):
            if fin["now"] == stop + case["min"]:
                t.append("landed-on-parking-time")
            elif fin["now"] > stop + case["min"]:
                t.append("landed-beyond-parking-time")
            elif fin["now"] == stop:
                t.append("landed-on-stop")
        if isinstance(fin.get("step"), int) and fin["step"] <= 0:
            t.append("nonpositive-step-past-end")
        if not its:
            t.append("no-iteration")
        return sorted(set(t))

    def sample_view(self, case, obs):
        its = obs.get("iters") or []
        return {"case": case, "outcome": obs["outcome"], "init": obs.get("init"),
                "first_events": [{k: e[k] for k in ("now", "step", "time", "index")} for evs in its[:3] for e in evs[:1]],
                "iterations": len(its), "commands": obs.get("cmds"), "final": obs.get("final")}


def _drop_mod(mods, mi):
    """the modifier list without number mi; `share` references are renumbered (sharers of mi become independent)"""
    out = []
    for q, m in enumerate(mods):
        if q == mi:
            continue
        m = dict(m)
        if m.get("share") is not None:
            if m["share"] == mi:
                del m["share"]
            elif m["share"] > mi:
                m["share"] -= 1
        out.append(m)
    return out


def _add(a, b):
    return a + b if isinstance(a, int) and isinstance(b, int) else None


def nested_outside(obs, it):
    """labels requested from inside a modifier during update `it` that were not in the index the modifier was called with"""
    out = set()
    for c in (obs.get("calls") or {}).get(str(it), []):
        out |= set(c.get("req") or []) - set(c.get("idx") or [])
    return sorted(out)


def after_states(obs):
    """after_states[k-1] = state after iteration k (snapshot taken at the start of iteration k+1, or at the very end).
    NB: a snapshot taken at the start of an iteration with an explicit step size already shows that step as the global
    step (InteractiveContext.step overrides it before the engine step)."""
    n = len(obs.get("iters") or [])
    return (list(obs["states"][1:]) + [obs["final"]])[:n]


PROP = C10()
