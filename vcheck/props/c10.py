"""C10 — per-simulant clocks: nobody is skipped, nobody is updated early.

Tie: differential correspondence. A real `SimulationContext` (driven by `run()`) or `InteractiveContext`
(driven by `step()` / `take_steps(n)`) with a `DateTimeClock`, one probe component that registers 1–3
scripted step-size modifiers (`builder.time.register_step_size_modifier`), issues scripted move-to-end
requests (`builder.time.move_simulants_to_end()`) and births from its listeners, and logs for every
main-loop event `event.index`, `clock()`, `step_size()`, `event.time`, `event.step_size` and the
`simulant_next_event_times` / `simulant_step_sizes` of the whole population. The same operations go to
`Driver/C10.lean` (model `Viv.Clock`); every logged number is compared exactly. Time unit = 1 hour (all
inputs are whole hours, so pandas' nanosecond arithmetic and the float division of the post-processor
are exact).

Per-simulant clocks only exist with a DateTimeClock: the step-size pipeline's source is a
`timedelta64[ns]` NaT series, so a SimpleClock with a numeric modifier dies in `pd.DataFrame(values)`
(DTypePromotionError) – see notes/agent-reports/C10.md.
"""
from __future__ import annotations

import datetime
import random

from .. import impl
from ..runner import Prop

PHASES = ["time_step__prepare", "time_step", "time_step__cleanup", "collect_metrics"]
T0 = (2020, 1, 1)
HOUR_NS = 3_600_000_000_000
MAX_ITERS = 60      # no generated schedule needs more than ~60 iterations; a clock that stops advancing is cut off here


class IterationLimit(Exception):
    pass


# ---------------------------------------------------------------------------------------------- script
def mod_value(mod, sim: int, it: int):
    """what modifier `mod` returns for simulant `sim` when the pipeline is evaluated in update `it`
    (0 = initialize_simulants, k = end of main-loop iteration k); None = NaN / label not returned"""
    rows = mod["rows"]
    row = rows[it % len(rows)]
    return row[sim % len(row)]


def rule_step(case, sim: int, it: int) -> int:
    """the property's own rule for a simulant's step (hours)"""
    mn = case["min"]
    std = case["std"] if case["std"] else mn
    vals = [v for v in (mod_value(m, sim, it) for m in case["mods"]) if v is not None]
    want = min(vals) if vals else std
    return max(mn, (want // mn) * mn)


def acts_of(case, k: int, phase: int):
    return [a for a in case["acts"].get(str(k), []) if a[0] == phase]


def _days(x):
    """hours -> the number the configuration takes (days; exact dyadic)"""
    return x // 24 if x % 24 == 0 else x / 24


# ---------------------------------------------------------------------------------------------- run
def _hours(x):
    import pandas as pd
    if x is None or x is pd.NaT:
        return "NaT"
    if isinstance(x, pd.Timestamp):
        ns = (x - pd.Timestamp(*T0)).value
    elif isinstance(x, pd.Timedelta):
        ns = x.value
    else:
        try:
            if pd.isna(x):
                return "NaT"
        except Exception:  # noqa: BLE001
            pass
        x = pd.Timedelta(x) if not hasattr(x, "value") else x
        ns = x.value
    return ns // HOUR_NS if ns % HOUR_NS == 0 else f"ns:{ns}"


def _run(case):
    impl.load()
    import pandas as pd
    from vivarium import Component, InteractiveContext
    from vivarium.framework.engine import SimulationContext

    class Drv(Component):
        def __init__(self):
            super().__init__()
            self.it = 0            # main-loop iteration in progress (0 = before the loop)
            self.n = 0             # simulants created so far
            self.states = []       # snapshot at the start of every iteration
            self.iters = []        # per iteration: list of event records
            self.created = []

        @property
        def name(self):
            return "c10_probe"

        def setup(self, b):
            for m in range(len(case["mods"])):
                b.time.register_step_size_modifier(lambda idx, m=m: self.mod(m, idx))
            self.clock = b.time.clock()
            self.ss = b.time.step_size()
            self.net = b.time.simulant_next_event_times()
            self.sss = b.time.simulant_step_sizes()
            self.mte = b.time.move_simulants_to_end()
            self.creator = b.population.get_simulant_creator()

        def on_initialize_simulants(self, pop_data):
            self.n += len(pop_data.index)
            self.created.append([int(i) for i in pop_data.index])

        def mod(self, m, idx):
            spec = case["mods"][m]
            vals = {int(i): mod_value(spec, int(i), self.it) for i in idx}
            if spec.get("style") == "omit":       # uncovered simulants are simply not in the returned Series
                keep = [i for i in idx if vals[int(i)] is not None]
                return pd.Series([pd.Timedelta(hours=vals[int(i)]) for i in keep],
                                 index=pd.Index(keep, dtype="int64"), dtype="timedelta64[ns]")
            return pd.Series([pd.NaT if vals[int(i)] is None else pd.Timedelta(hours=vals[int(i)]) for i in idx],
                             index=idx, dtype="timedelta64[ns]")

        def everybody(self):
            return pd.Index(range(self.n), dtype="int64")

        def table(self):
            idx = self.everybody()
            net, sss = self.net(idx), self.sss(idx)
            return [[int(i), _hours(net.loc[i]), _hours(sss.loc[i])] for i in idx]

        def snapshot(self, clock_obj):
            snooze = getattr(clock_obj, "_simulants_to_snooze", None)       # private: compared only when it exists
            return {"now": _hours(clock_obj._clock_time), "step": _hours(clock_obj._clock_step_size), "sims": self.table(),
                    "pending": None if snooze is None else sorted(int(i) for i in snooze)}

        def _phase(self, p, e):
            if p == 0:
                if self.it >= MAX_ITERS:
                    raise IterationLimit(f"{MAX_ITERS} main-loop iterations without reaching the stop time")
                self.states.append(self.snapshot(self._clock_obj))
                self.it += 1
                self.iters.append([])
            rec = {"now": _hours(self.clock()), "step": _hours(self.ss()), "time": _hours(e.time),
                   "estep": _hours(e.step_size), "index": sorted(int(i) for i in e.index),
                   "net": [r[1] for r in self.table()], "acts": []}
            self.iters[-1].append(rec)
            for a in acts_of(case, self.it, p):
                if a[1] == "mte":
                    self.mte(pd.Index(a[2], dtype="int64"))
                    rec["acts"].append(["mte", a[2]])
                else:
                    new = self.creator(a[2])
                    rec["acts"].append(["birth", sorted(int(i) for i in new)])

        def on_time_step_prepare(self, e):
            self._phase(0, e)

        def on_time_step(self, e):
            self._phase(1, e)

        def on_time_step_cleanup(self, e):
            self._phase(2, e)

        def on_collect_metrics(self, e):
            self._phase(3, e)

    d = Drv()
    y, m, dd = T0
    end = datetime.date(y, m, dd) + datetime.timedelta(days=case["days"])
    cfg = {"population": {"population_size": case["pop"]},
           "time": {"start": {"year": y, "month": m, "day": dd},
                    "end": {"year": end.year, "month": end.month, "day": end.day},
                    "step_size": _days(case["min"]),
                    "standard_step_size": (_days(case["std"]) if case["std"] else None)}}
    SimulationContext._clear_context_cache()
    out = {"outcome": "ok", "init": None, "states": None, "iters": None, "final": None}
    drive = case["drive"]
    try:
        if drive[0] == "run":
            sim = SimulationContext(components=[d], configuration=cfg, logging_verbosity=0)
            d._clock_obj = sim._clock
            sim.setup()
            sim.initialize_simulants()
        else:
            sim = InteractiveContext(components=[d], configuration=cfg, logging_verbosity=0, setup=False)
            d._clock_obj = sim._clock
            sim.setup()
        out["init"] = d.snapshot(sim._clock)
        stop = sim._clock.stop_time
        if drive[0] == "run":
            sim.run()
        elif drive[0] == "step":
            while sim.current_time < stop and d.it < MAX_ITERS:
                sim.step()
            for _ in range(drive[1]):          # steps past the end of the simulation
                sim.step()
        else:
            while sim.current_time < stop and d.it < MAX_ITERS:
                sim.take_steps(drive[1])
    except Exception as e:  # noqa: BLE001 - outcome class of the implementation
        out["outcome"] = "err:" + type(e).__name__
        out["err_msg"] = str(e)[:200]
    out["states"], out["iters"], out["created"] = d.states, d.iters, d.created
    try:
        out["final"] = d.snapshot(sim._clock)
    except Exception as e:  # noqa: BLE001
        out["final"] = {"error": type(e).__name__}
    out["stop"] = 24 * case["days"]
    return out


# ---------------------------------------------------------------------------------------------- prop
class C10(Prop):
    id = "C10"
    lean_modules = ["VivModel.Props.C10"]
    build_targets = ["VivModel.Model.Clock", "VivModel.Model.Proto"]
    driver = "C10"
    technique = ("Lean 4 proof (invariant J over every schedule of modifier outputs, births and move-to-end requests; "
                 "post-processor arithmetic) + differential correspondence with the real SimulationContext / "
                 "InteractiveContext + DateTimeClock (exact event logs and per-simulant clock columns)")
    partial = ("pandas alignment / nanosecond and float arithmetic of the real post-processor, untracked simulants, "
               "explicit step sizes passed to InteractiveContext.step and the SimpleClock are explored by the harness "
               "or out of scope, not proved")
    n_quick = 170
    n_thorough = 3000
    workers = 8
    case_timeout = 30
    rule = ("cases = random clock configurations x populations x modifier scripts x listener action schedules, driven "
            "by run() / step() / take_steps(); distinct by case hash; non-trivial = at least two events with different "
            "index sets or a global step different from the minimum step")

    # ------------------------------------------------------------------ generation
    def boundary(self):
        def case(**kw):
            base = {"drive": ["run"], "min": 24, "std": None, "days": 12, "pop": 3,
                    "mods": [{"rows": [[48, 72, 96]], "style": "nan"}], "acts": {}}
            base.update(kw)
            return base
        out = [
            # the single simulant 0 (F1) on every driving API
            case(pop=1, mods=[{"rows": [[72]], "style": "nan"}]),
            case(pop=1, mods=[{"rows": [[72]], "style": "nan"}], drive=["step", 0]),
            case(pop=1, mods=[{"rows": [[60], [None], [30]], "style": "omit"}], std=48),
            # move-to-end of {0} alone, of somebody who is not due (F2), of everybody
            case(pop=1, mods=[{"rows": [[48]], "style": "nan"}], acts={"1": [[1, "mte", [0]]]}),
            case(pop=3, acts={"1": [[1, "mte", [0]]]}),
            case(pop=3, mods=[{"rows": [[24, 72, 96]], "style": "nan"}], acts={"2": [[1, "mte", [1]]]}),
            case(pop=3, acts={"2": [[0, "mte", [0, 1, 2]]]}),
            case(pop=3, acts={"1": [[3, "mte", []]], "2": [[2, "mte", [2]], [2, "mte", [2, 0]]]}),
            # interactive stepping vs run (F3), chunks overrunning the end, steps past the end
            case(pop=2, mods=[{"rows": [[48, 72]], "style": "nan"}], drive=["step", 0]),
            case(pop=2, mods=[{"rows": [[48, 72]], "style": "nan"}], drive=["take", 3]),
            case(pop=2, mods=[{"rows": [[48, 72]], "style": "nan"}], drive=["step", 2], acts={"2": [[1, "mte", [1]]]}),
            # landing exactly on stop + minimum step with a pending request; beyond it
            case(pop=1, days=3, mods=[{"rows": [[96]], "style": "nan"}], acts={"1": [[1, "mte", [0]]]}, drive=["step", 2]),
            case(pop=1, days=3, mods=[{"rows": [[168]], "style": "nan"}], acts={"1": [[1, "mte", [0]]]}, drive=["step", 2]),
            # post-processor edges: below the minimum, zero, exact multiple, just below a multiple, std below/not multiple of min
            case(pop=6, min=24, mods=[{"rows": [[0, 1, 23, 24, 47, 48]], "style": "nan"}]),
            case(pop=4, min=36, std=90, mods=[{"rows": [[None, 35, 36, 71]], "style": "nan"}]),
            case(pop=3, min=48, std=24, mods=[{"rows": [[None, None, 100]], "style": "omit"}]),
            case(pop=3, min=12, std=30, mods=[{"rows": [[None, 13, 100]], "style": "nan"},
                                              {"rows": [[None, None, 25], [7, None, None]], "style": "omit"},
                                              {"rows": [[None]], "style": "omit"}]),
            # births in every phase; an empty birth; a request for a newborn
            case(pop=2, acts={"1": [[0, "birth", 1], [1, "birth", 2]], "2": [[2, "birth", 1], [3, "birth", 0]],
                              "3": [[1, "birth", 1], [1, "mte", [6]]]}),
            # request naming a simulant that does not exist (KeyError in the real code)
            case(pop=2, acts={"2": [[1, "mte", [5]]]}),
            # nothing to run: start == stop is impossible with days >= 1; shortest run
            case(pop=2, days=1, mods=[{"rows": [[12, 100]], "style": "nan"}], min=6),
        ]
        return out

    def generate(self, rng: random.Random, i: int, tier: str):
        big = tier == "thorough"
        r = rng.random()
        pop = 1 if r < 0.15 else rng.randint(2, 12 if not big else 24)
        mn = rng.choice([24, 24, 24, 12, 48, 36, 6, 72])
        std = None if rng.random() < 0.35 else rng.choice([mn, 2 * mn, 3 * mn, mn + 12, max(1, mn // 2), 5 * mn, 2 * mn + 5])
        days = rng.randint(2, 14 if not big else 30)
        if mn <= 12:
            days = rng.randint(1, 5)
        pool = [mn, 2 * mn, 3 * mn, 4 * mn, mn + 1, 2 * mn - 1, 2 * mn + 1, max(1, mn // 2), 1, 0, 5 * mn + 7, mn * 3 // 2,
                7 * mn, 3 * mn - 1]
        mods = []
        for _ in range(rng.choice([1, 1, 2, 2, 3])):
            p_none = rng.choice([0.0, 0.25, 0.5, 0.8])
            small = rng.random() < 0.25          # a modifier that mostly asks for the minimum keeps everybody in step
            rows = []
            for _r in range(rng.randint(1, 4)):
                rows.append([None if rng.random() < p_none else (rng.choice(pool[:4]) if small else rng.choice(pool))
                             for _c in range(rng.randint(1, 5))])
            mods.append({"rows": rows, "style": rng.choice(["nan", "omit"])})
        acts = {}
        n_known = pop
        horizon = max(2, min(12, days * 24 // mn))
        births_at = sorted(rng.sample(range(1, horizon + 1), min(horizon, rng.choice([0, 0, 1, 2, 3]))))
        mte_at = sorted(rng.sample(range(1, horizon + 1), min(horizon, rng.choice([0, 1, 1, 2, 3, 4]))))
        unknown = rng.random() < 0.04
        for k in range(1, horizon + 1):
            lst = []
            if k in births_at:
                nb = rng.choice([0, 1, 1, 2, 3])
                lst.append([rng.randint(0, 3), "birth", nb])
                n_known += nb
            if k in mte_at:
                for _q in range(rng.choice([1, 1, 2])):
                    kind = rng.random()
                    if kind < 0.2:
                        ids = [0]
                    elif kind < 0.3:
                        ids = []
                    elif kind < 0.4:
                        ids = list(range(n_known))
                    else:
                        ids = sorted(rng.sample(range(n_known), rng.randint(1, min(n_known, 4))))
                    if unknown and rng.random() < 0.5:
                        ids = sorted(set(ids + [n_known + rng.randint(0, 2)]))
                    lst.append([rng.randint(0, 3), "mte", ids])
            if lst:
                lst.sort(key=lambda a: a[0])
                acts[str(k)] = lst
        d = rng.random()
        drive = ["run"] if d < 0.55 else (["step", rng.choice([0, 0, 1, 2])] if d < 0.85 else ["take", rng.choice([2, 3])])
        return {"drive": drive, "min": mn, "std": std, "days": days, "pop": pop, "mods": mods, "acts": acts}

    def shrink(self, case):
        for k in sorted(case["acts"], key=int, reverse=True):
            lst = case["acts"][k]
            for j in range(len(lst) - 1, -1, -1):
                new = dict(case["acts"])
                rest = lst[:j] + lst[j + 1:]
                if rest:
                    new[k] = rest
                else:
                    del new[k]
                yield dict(case, acts=new)
        for mi in range(len(case["mods"]) - 1, -1, -1):
            if len(case["mods"]) > 1:
                yield dict(case, mods=case["mods"][:mi] + case["mods"][mi + 1:])
            rows = case["mods"][mi]["rows"]
            for ri in range(len(rows) - 1, -1, -1):
                if len(rows) > 1:
                    yield dict(case, mods=case["mods"][:mi] + [dict(case["mods"][mi], rows=rows[:ri] + rows[ri + 1:])] + case["mods"][mi + 1:])
        if case["pop"] > 1:
            mx = max([max(a[2]) for l in case["acts"].values() for a in l if a[1] == "mte" and a[2]] + [0])
            if mx < case["pop"] - 1:
                yield dict(case, pop=case["pop"] - 1)
        if case["days"] > 1:
            yield dict(case, days=case["days"] - 1)
        if case["drive"][0] != "run":
            yield dict(case, drive=["step", 0])

    # ------------------------------------------------------------------ implementation
    def run_impl(self, case):
        return _run(case)

    # ------------------------------------------------------------------ model
    @staticmethod
    def _mods_line(case, n, it):
        if n == 0:
            return "-"
        return ";".join(",".join("_" if (v := mod_value(m, s, it)) is None else str(v) for m in case["mods"]) for s in range(n))

    def model_lines(self, case, obs):
        stop = 24 * case["days"]
        L = [f"cfg 0 {stop} {case['min']} {case['std'] or 0}", f"init {case['pop']} {self._mods_line(case, case['pop'], 0)}"]
        n = case["pop"]
        iters = obs.get("iters") or []
        for k in range(1, len(iters) + 1):
            for p in range(4):
                L.append("event")
                for a in acts_of(case, k, p):
                    if a[1] == "mte":
                        L.append("snooze " + (",".join(map(str, a[2])) if a[2] else "-"))
                    else:
                        L.append(f"birth {a[2]}")
                        n += a[2]
            L.append("step " + self._mods_line(case, n, k))
        return L

    @staticmethod
    def _parse_st(reply):
        t = reply.split()
        if t[0] != "st":
            return None
        sims = [] if t[4] == "-" else [[int(x) for x in s.split(":")] for s in t[4].split(";")]
        return {"now": int(t[1]), "step": int(t[2]), "sims": sims, "pending": [] if t[3] == "-" else sorted(int(x) for x in t[3].split(","))}

    @staticmethod
    def _same_state(model, impl_state):
        if model is None or impl_state is None:
            return False
        keys = ["now", "step", "sims"] + (["pending"] if impl_state.get("pending") is not None else [])
        return all(model.get(k) == impl_state.get(k) for k in keys)

    def compare(self, case, obs, replies):
        dis = []
        if obs.get("init") is None:
            return [f"implementation failed before the population existed: {obs['outcome']} {obs.get('err_msg')}"]
        if replies[0] != "ok":
            return [f"cfg: model {replies[0]}"]
        st = self._parse_st(replies[1])
        if not self._same_state(st, obs["init"]):
            dis.append(f"after initialize_simulants: impl {obs['init']}, model {replies[1]}")
        iters = obs["iters"]
        states = list(obs["states"][1:]) + [obs["final"]]     # states[k-1] = after iteration k
        j = 2
        for k in range(1, len(iters) + 1):
            evs = iters[k - 1]
            for p in range(4):
                rep = replies[j]; j += 1                      # noqa: E702
                if p < len(evs):
                    e = evs[p]
                    want = f"ev {e['now']} {e['step']} {e['time']} {','.join(map(str, e['index'])) or '-'}"
                    if rep != want or e["estep"] != e["step"]:
                        dis.append(f"iteration {k} {PHASES[p]}: impl {want} (event.step_size {e['estep']}), model {rep}")
                else:
                    dis.append(f"iteration {k} {PHASES[p]}: impl emitted no event ({obs['outcome']}), model {rep}")
                for ai, a in enumerate(acts_of(case, k, p)):
                    rep = replies[j]; j += 1                  # noqa: E702
                    if a[1] == "birth" and p < len(evs) and ai < len(evs[p]["acts"]):
                        got = evs[p]["acts"][ai][1]
                        if rep != "ok " + (",".join(map(str, got)) or "-"):
                            dis.append(f"iteration {k} birth: impl {got}, model {rep}")
                    elif not rep.startswith("ok"):
                        dis.append(f"iteration {k} action {a}: model {rep}")
            rep = replies[j]; j += 1                          # noqa: E702
            last = k == len(iters)
            if last and obs["outcome"] == "err:KeyError":
                if rep != "err population":
                    dis.append(f"iteration {k} step_forward: impl KeyError, model {rep}")
            elif last and obs["outcome"] != "ok":
                dis.append(f"iteration {k}: impl {obs['outcome']} ({obs.get('err_msg')}), model {rep}")
            else:
                st = self._parse_st(rep)
                if not self._same_state(st, states[k - 1]):
                    dis.append(f"after iteration {k}: impl {states[k - 1]}, model {rep}")
        if obs["outcome"] not in ("ok", "err:KeyError") and not iters:
            dis.append(f"impl {obs['outcome']} ({obs.get('err_msg')}) before the first iteration")
        # the loop condition of run()/the harness loop: the last state is the first one at or past the stop time
        if obs["outcome"] == "ok" and case["drive"] == ["run"] or case["drive"] == ["step", 0]:
            stop = 24 * case["days"]
            nows = [obs["init"]["now"]] + [s["now"] for s in states]
            if obs["outcome"] == "ok" and (any(isinstance(x, int) and x >= stop for x in nows[:-1]) or not (isinstance(nows[-1], int) and nows[-1] >= stop)):
                dis.append(f"loop condition: clock values {nows}, stop {stop}")
        return dis

    # ------------------------------------------------------------------ oracle (the property itself)
    def oracle(self, case, obs):
        fails = []

        def fail(sig, msg):
            if not any(f["sig"] == sig for f in fails):
                fails.append({"sig": sig, "msg": msg})

        stop, mn = 24 * case["days"], case["min"]
        unknown_request = False
        n = case["pop"]
        for k in sorted(map(int, case["acts"])):       # does the script ever name a simulant that does not exist (yet)?
            for a in case["acts"][str(k)]:
                if a[1] == "birth":
                    n += a[2]
                elif any(i >= n for i in a[2]):
                    unknown_request = True
        if obs.get("init") is None or (obs["outcome"] != "ok" and not unknown_request):
            # every generated schedule is a legal use of the API; within the simulated period it must not raise
            fail("raised:" + obs["outcome"].split(":")[-1], f"the simulation raised {obs['outcome']}: {obs.get('err_msg')}")
            if obs.get("init") is None:
                return fails
        # ---- state after initialize_simulants: everybody was due, so everybody's step follows the rule
        init = obs["init"]
        for i, nxt, stp in init["sims"]:
            want = rule_step(case, i, 0)
            if stp != want:
                fail("step-size-rule", f"after initialize_simulants simulant {i} has step {stp}h, rule gives {want}h")
            if nxt != _add(init["now"], stp):
                fail("included-not-advanced", f"after initialize_simulants simulant {i}: next {nxt} != clock {init['now']} + step {stp}")
        states = list(obs["states"][1:]) + [obs["final"]]
        before = init
        parked = {}                                    # simulant -> iteration of the request
        for k, evs in enumerate(obs["iters"], start=1):
            if not isinstance(before["now"], int) or before["now"] >= stop:
                break                                  # events after the end of the simulation are not constrained
            pending = set()
            for p, e in enumerate(evs):
                nets = e["net"]
                ids = list(range(len(nets)))
                if not all(isinstance(x, int) for x in nets + [e["time"], e["now"]]):
                    fail("non-integral-time", f"iteration {k} {PHASES[p]}: {e}")
                    return fails
                reached = [i for i in ids if nets[i] <= e["time"]]
                if e["index"] != reached:
                    missing = sorted(set(reached) - set(e["index"]))
                    fail("event-index-skips-due" if missing else "event-index-includes-early",
                         f"iteration {k} {PHASES[p]} at {e['time']}h: index {e['index']}, simulants whose next-event time "
                         f"is reached {reached} (next-event times {nets})")
                if nets and e["time"] != min(nets):
                    fail("event-time-not-earliest", f"iteration {k} {PHASES[p]}: event time {e['time']}h, earliest pending "
                                                    f"next-event time {min(nets)}h (clock {e['now']}h, step {e['step']}h)")
                if nets and any(x <= e["now"] for x in nets):
                    fail("next-event-time-passed", f"iteration {k} {PHASES[p]}: clock {e['now']}h has reached/passed a pending "
                                                   f"next-event time {nets}")
                if e["time"] <= stop:
                    late = sorted(i for i in e["index"] if i in parked and parked[i] < k)
                    if late:
                        fail("moved-to-end-included", f"iteration {k} {PHASES[p]} (event time {e['time']}h <= end {stop}h) includes "
                                                      f"{late}, moved to the end in iteration(s) {[parked[i] for i in late]}")
                for a in e["acts"]:
                    if a[0] == "mte":
                        pending |= set(a[1])
            if len(evs) < 4:
                break
            if k - 1 >= len(states):
                break
            after = states[k - 1]
            if "error" in after or (k == len(obs["iters"]) and obs["outcome"] != "ok"):
                break
            last = evs[3]
            nets = last["net"]
            if after["now"] != last["time"]:
                fail("clock-not-advanced-to-event-time", f"iteration {k}: event time {last['time']}h, clock afterwards {after['now']}h")
            if nets and after["now"] != min(nets):
                fail("clock-not-at-earliest", f"iteration {k}: clock moved to {after['now']}h, earliest pending next-event time "
                                              f"was {min(nets)}h")
            aft = {i: (nxt, stp) for i, nxt, stp in after["sims"]}
            for i in range(len(nets)):
                if i not in aft:
                    fail("simulant-lost", f"iteration {k}: simulant {i} has no clock afterwards")
                    continue
                nxt, stp = aft[i]
                due = nets[i] <= after["now"]
                if i in pending:
                    continue
                if due:
                    want = rule_step(case, i, k)
                    if stp != want:
                        fail("step-size-rule", f"iteration {k}: simulant {i} was due, modifiers say "
                                               f"{[mod_value(m, i, k) for m in case['mods']]} (standard {case['std']}, minimum {mn}) "
                                               f"-> {want}h, got {stp}h")
                    if nxt != _add(after["now"], stp):
                        fail("included-not-advanced", f"iteration {k}: simulant {i} was included at {after['now']}h with step {stp}h "
                                                      f"but its next-event time is {nxt}h")
                else:
                    old = (nets[i], dict((a, c) for a, b, c in before["sims"]).get(i))
                    if nxt != nets[i] or (old[1] is not None and stp != old[1]):
                        fail("updated-early", f"iteration {k}: simulant {i} was not due (next {nets[i]}h > clock {after['now']}h) and "
                                              f"not moved, yet (next, step) went {old} -> {(nxt, stp)}")
            for i in pending:
                parked.setdefault(i, k)
            if isinstance(after["now"], int) and after["now"] < stop and after["sims"]:
                stale = [i for i, nxt, _ in after["sims"] if not isinstance(nxt, int) or nxt <= after["now"]]
                if stale:
                    fail("stale-next-event-time", f"after iteration {k} the clock is {after['now']}h but {stale} have a next-event "
                                                  f"time at or before it: {after['sims']}")
            before = after
        return fails

    # ------------------------------------------------------------------ reporting
    def nontrivial(self, case, obs):
        its = obs.get("iters") or []
        idx = {tuple(e["index"]) for evs in its for e in evs}
        steps = {e["step"] for evs in its for e in evs}
        return len(idx) >= 2 or any(s != case["min"] for s in steps)

    def tags(self, case, obs):
        t = ["drive:" + case["drive"][0], f"mods:{len(case['mods'])}", "outcome:" + obs["outcome"],
             "pop:1" if case["pop"] == 1 else ("pop:2-4" if case["pop"] <= 4 else "pop:5+"),
             f"min:{case['min']}h", "std:none" if not case["std"] else ("std:below-min" if case["std"] < case["min"] else
                                                                      ("std:multiple" if case["std"] % case["min"] == 0 else "std:non-multiple"))]
        for m in case["mods"]:
            t.append("style:" + m["style"])
            flat = [v for r in m["rows"] for v in r]
            if any(v is None for v in flat):
                t.append("partial-coverage")
            if any(v is not None and v % case["min"] for v in flat):
                t.append("non-multiple-request")
            if any(v is not None and v < case["min"] for v in flat):
                t.append("request-below-min")
            if len(m["rows"]) > 1:
                t.append("values-change-over-time")
        stop = 24 * case["days"]
        its = obs.get("iters") or []
        states = ([obs["init"]] if obs.get("init") else []) + list((obs.get("states") or [])[1:])
        for k, evs in enumerate(its, start=1):
            for p, e in enumerate(evs):
                for a in e["acts"]:
                    if a[0] == "birth":
                        t.append(f"birth@{PHASES[p]}")
                        if not a[1]:
                            t.append("birth-of-0")
                    else:
                        t.append("mte")
                        if a[1] == [0]:
                            t.append("mte-{0}")
                        if not a[1]:
                            t.append("mte-empty")
                        if any(i not in e["index"] for i in a[1]):
                            t.append("mte-not-due")
                        if a[1] and len(a[1]) == len(e["net"]):
                            t.append("mte-everybody")
            if evs and isinstance(evs[0]["now"], int) and evs[0]["now"] >= stop:
                t.append("iteration-past-end")
            if evs and not evs[0]["index"]:
                t.append("empty-event")
            if evs and 0 < len(evs[0]["index"]) < len(evs[0]["net"]):
                t.append("event-proper-subset")
            if evs and evs[0]["step"] != case["min"]:
                t.append("global-step>min")
        fin = obs.get("final") or {}
        if isinstance(fin.get("now"), int):
            if fin["now"] == stop + case["min"]:
                t.append("landed-on-parking-time")
            elif fin["now"] > stop + case["min"]:
                t.append("landed-beyond-parking-time")
            elif fin["now"] == stop:
                t.append("landed-on-stop")
        if isinstance(fin.get("step"), int) and fin["step"] <= 0:
            t.append("nonpositive-step-past-end")
        if not its:
            t.append("no-iteration")
        return sorted(set(t))

    def sample_view(self, case, obs):
        its = obs.get("iters") or []
        return {"case": case, "outcome": obs["outcome"], "init": obs.get("init"),
                "first_events": [{k: e[k] for k in ("now", "step", "time", "index")} for evs in its[:3] for e in evs[:1]],
                "iterations": len(its), "final": obs.get("final")}


def _add(a, b):
    return a + b if isinstance(a, int) and isinstance(b, int) else None


PROP = C10()
