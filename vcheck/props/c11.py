"""C11 — a view update writes exactly what it was given, or nothing.

Tie: op sequences (get / update / every kind of rejected update in multi-column form / create / sub-view)
on a real SimulationContext's PopulationManager + views with the lifecycle forced into a time-step state,
run in worker subprocesses under three PYTHONHASHSEED values; the full table
(`get_population(untracked=True)`) after every op and inside every initializer is compared with
Driver/C11.lean (Model/Table.lean `update`), exact values and dtypes. The oracle evaluates the property
itself on the observed tables (frame rule, shape, rejected => unchanged, earlier frames unaffected, same
behaviour under every hash seed), independent of the Lean model.
"""
from __future__ import annotations

import copy
import random

from .. import tablekit as tk

POOL = [("a", "int"), ("b", "flt"), ("s", "str"), ("k", "bool"), ("t", "time"), ("tracked_since", "flt"),
        ("n2", "int"), ("untracked", "bool"), ("w", "str"), ("c", "cat"), ("c2", "cat")]
ALL_DTYPES = ["int", "flt", "str", "bool", "time", "cat", "obj", "i32", "f32"]      # what an update may carry
IKINDS = ["int64", "int64", "range", "int32"]
BAD_KINDS = ["foreign", "unknownrow", "newcol", "dtype", "unnamed", "nocols", "type"]


class Gen:
    """tracks what the table and the views look like while ops are generated"""

    def __init__(self, rng, cols, n0):
        self.rng, self.cols, self.n = rng, list(cols), n0
        self.dtypes = dict(cols)
        self.dtypes["tracked"] = "bool"
        self.views = {}            # id -> list of columns ([] = all)
        self.next_id = 2

    def table_cols(self):
        return ["tracked"] + [c for c, _ in self.cols]

    def vcols(self, vid):
        return self.views[vid] or self.table_cols()

    def rows(self, lo=0):
        """labels an update / read addresses: none, one, a few, all - shuffled, reversed or sorted"""
        if self.n == 0:
            return []
        rng = self.rng
        k = rng.choice([0, 1, 1, 2, self.n, self.n, rng.randint(lo, self.n)])
        rows = rng.sample(range(self.n), min(k, self.n))
        r = rng.random()
        if r < 0.2:
            rows = sorted(rows, reverse=True)
        elif r < 0.4:
            rows = sorted(rows)
        return rows

    # ---- lesson 14: requests / update indexes handed over as RangeIndex OBJECTS
    def ap(self, nonempty=False):
        """labels forming an arithmetic progression, to be handed over AS a range object: reversed everybody
        (`pop.index[::-1]`), reversed prefix (`index[:k][::-1]`), strided (`[::2]`, `[a::3]`, `[::-2]`, `[::-3]`), descending
        ending exactly at 0 (any step) / above 0, ascending sub-range, one label (ascending and descending object), nobody
        (ascending, descending and crossed objects) -> (rows, ikind, rspec)"""
        rng, n = self.rng, self.n
        kind = rng.choice(["range", "range", "range-tight"])
        m = rng.choice(["rev-all", "rev-all", "rev-prefix", "rev-prefix", "stride", "neg-stride", "neg-stride", "desc-to-0", "desc-to-0",
                        "desc-above-0", "asc-sub", "single", "empty"])
        if n == 0 or (m == "empty" and not nonempty):
            return [], kind, rng.choice([None, None, [0, 0, -1], [2, 5, -1], [3, 1, 1], [0, -1, 1], [n, n, 1]])
        if m == "rev-all":
            rows = range(n - 1, -1, -1)
        elif m == "rev-prefix":
            rows = range(rng.randint(1, n) - 1, -1, -1)
        elif m == "stride":
            rows = range(rng.choice([0, 0, rng.randrange(n)]), n, rng.choice([2, 2, 3]))
        elif m == "neg-stride":
            rows = range(n - 1, -1, -rng.choice([2, 3]))
        elif m == "desc-to-0":
            d = rng.choice([1, 2, 3, max(1, n // 2)])
            rows = range(d * rng.randint(0, (n - 1) // d), -1, -d)
        elif m == "desc-above-0" and n >= 2:
            lo = rng.randint(1, n - 1)
            rows = range(rng.randint(lo, n - 1), lo - 1, -rng.choice([1, 1, 2]))
        elif m == "asc-sub":
            a = rng.randint(0, n - 1)
            rows = range(a, rng.randint(a + 1, n))
        else:
            rows = [rng.choice([0, rng.randrange(n)])]
        return list(rows) or [0], kind, None

    def urows(self, lo=0):
        """(rows, index kind, explicit range) of an update: a quarter are arithmetic progressions carried by a range object"""
        if self.n and self.rng.random() < 0.25:
            return self.ap(nonempty=lo > 0)
        return self.rows(lo), self.rng.choice(IKINDS), None

    def null_pattern(self, dt):
        """lesson 15: null for everybody / for one / for some of the addressed simulants"""
        return self.rng.choice([None] * 7 + ["all", "one", "some"]) if dt in tk.NULLABLE else None

    def good_update(self, vid, rows=None):
        rng = self.rng
        cols = list(dict.fromkeys(c for c in self.vcols(vid) if c in self.dtypes))
        if not cols:
            return None
        ucols = rng.sample(cols, rng.randint(1, len(cols)))
        rows, ikind, rspec = self.urows() if rows is None else (rows, rng.choice(IKINDS + ["range-tight"]), None)
        spec = {"a": "upd", "view": vid, "form": "D", "rows": rows, "ikind": ikind, "rspec": rspec,
                "cols": [[c, self.dtypes[c], tk.value_tokens(self.dtypes[c], rng, len(rows), nulls=self.null_pattern(self.dtypes[c]))] for c in ucols],
                "mutate": rng.random() < 0.3}
        if len(ucols) == 1 and rng.random() < 0.5:
            spec["form"] = "S"
            if len(self.vcols(vid)) == 1 and rng.random() < 0.6:
                spec["cols"][0][0] = None
        return spec

    def read(self, vid, qcols, derived_ok=True):
        """a read with every kind of index: empty, everybody, everybody permuted / reversed, a subset, repeated labels,
        a label that does not exist; int64 / RangeIndex / int32 / default-empty index objects; every call form.
        Lesson 14: 30 % of the requests are range OBJECTS (`ap`), a few of them going past the last simulant or below
        simulant 0, and objects derived by slicing the framework's own population index"""
        rng, n = self.rng, self.n
        r = rng.random()
        ikind, rspec = rng.choice(IKINDS + ["obj-empty"]), None
        if r < 0.30:
            r2 = rng.random()
            if r2 < 0.15 and derived_ok:
                k = rng.randint(1, max(1, n))
                idx = {"from": rng.choice(["pop", "pop", "pop-tracked"]),
                       "slices": rng.choice([[[None, None, -1]], [[None, k, None], [None, None, -1]], [[None, None, 2]], [[None, None, -3]],
                                             [[None, None, -1], [None, None, 2]], [[k - 1, None, -2]], [[None, 0, None]]])}
            elif r2 < 0.22:
                ikind = "range"                                                   # asks for simulants that do not exist
                a = rng.randint(0, n)
                rspec = rng.choice([[a, n + rng.choice([1, 2]), 1], [n + rng.choice([0, 1]), -1, -1], [rng.randint(0, max(0, n - 1)), -rng.choice([2, 4]), -1]])
                idx = list(range(*rspec))
            else:
                idx, ikind, rspec = self.ap()
        elif n == 0 or r < 0.36:
            idx = []
        elif r < 0.46:
            idx = list(range(n))
        elif r < 0.52:
            idx = list(range(n))[::-1]
        elif r < 0.64:
            idx = rng.sample(range(n), n)
        elif r < 0.84:
            idx = rng.sample(range(n), rng.randint(1, n))
            if rng.random() < 0.3:
                idx.sort()                                                        # non-contiguous, increasing
        elif r < 0.92:
            idx = [rng.randrange(n) for _ in range(rng.randint(2, 4))]            # repeated labels
        else:
            idx = rng.sample(range(n), rng.randint(0, n)) + [n + rng.choice([0, 3])]    # a label that does not exist
            rng.shuffle(idx)
        q = ["T"] if rng.random() < 0.55 else tk.random_pred(rng, qcols + ([("tracked", "bool")] if rng.random() < 0.3 else []))
        return {"a": "get", "view": vid, "idx": idx, "q": q, "mutate": rng.random() < 0.5,
                "ikind": ikind, "rspec": rspec, "noq": rng.random() < 0.5, "kw": rng.random() < 0.2}

    # ---- lesson 12: the same operation of the same handle twice, with somebody else in between
    def other_handles(self, vid, col):
        """handles other than `vid` through which `col` can be written"""
        return [v for v in self.views if v != vid and col in self.vcols(v) and col in self.dtypes]

    def overwrite(self, other, col, rows, avoid):
        """an update through another handle that changes at least one of the cells `(rows, col)` (current supplied values `avoid`)"""
        rng = self.rng
        k = rng.randrange(len(rows))
        pick = sorted({rows[k]} | {r for r in rows if rng.random() < 0.3})
        rng.shuffle(pick)
        toks = []
        for r in pick:
            t = tk.value_tokens(self.dtypes[col], rng, 1, allow_null=False)[0]
            for _ in range(20):
                if tk.norm_tok(t) != tk.norm_tok(avoid[rows.index(r)]):
                    break
                t = tk.value_tokens(self.dtypes[col], rng, 1, allow_null=False)[0]
            if self.dtypes[col] == "bool":
                t = "b0" if avoid[rows.index(r)] == "b1" else "b1"
            toks.append(t)
        spec = {"a": "upd", "view": other, "form": "D", "rows": pick, "ikind": rng.choice(IKINDS), "cols": [[col, self.dtypes[col], toks]],
                "mutate": False, "move": "overwrite-by-another-handle"}
        if rng.random() < 0.4:
            spec["form"] = "S"
            if len(self.vcols(other)) == 1 and rng.random() < 0.5:
                spec["cols"][0][0] = None
        return spec

    def three_step(self, qcols, vid=None, other=None, variant=None):
        """view V writes U; ANOTHER handle (another view with the column, a sub-view of V, its parent, the whole-table view, the
        Component's own view, the manager's tracked view) overwrites a cell U addressed; rejected updates / reads of V in between;
        V writes U again - verbatim (same index order, values, dtypes), or the same content in another container (other index
        kind, Series <-> DataFrame), or first in another dtype (rejected) and then verbatim. Every time all of U must be written."""
        rng = self.rng
        if self.n == 0:
            return []
        cands = [v for v in self.views if any(c in self.dtypes for c in self.vcols(v))] if vid is None else [vid]
        rng.shuffle(cands)
        for v in cands:
            rows = self.rows(1) or [rng.randrange(self.n)]
            u = self.good_update(v, rows=rows)
            if not u:
                continue
            u["mutate"] = rng.random() < 0.3
            name0 = u["cols"][0][0]
            col = rng.choice([c[0] for c in u["cols"]]) if name0 is not None else self.vcols(v)[0]
            ucol = next(c for c in u["cols"] if c[0] in (col, None))
            ops = [dict(u, move="first-write")]
            others = self.other_handles(v, col) if other is None else [other]
            if not others or (other is None and rng.random() < 0.25 and self.views[v]):
                ops.append({"a": "sub", "id": self.next_id, "parent": v, "cols": [col], "as_str": rng.random() < 0.3})
                self.views[self.next_id] = [col]
                others = [self.next_id]
                self.next_id += 1
            ops.append(self.overwrite(rng.choice(others), col, u["rows"], ucol[2]))
            for _ in range(rng.choice([0, 0, 1, 2])):          # things that must NOT make V forget or remember anything
                r = rng.random()
                if r < 0.5:
                    b = self.bad_update(v, rng.choice(["dtype", "unknownrow", "foreign", "nocols", "type"]))
                    if b:
                        ops.append(dict(b, move="rejected-in-between"))
                elif r < 0.8:
                    ops.append(dict(self.read(v, qcols), move="read-in-between"))
                else:
                    ops.append({"a": "pop", "untracked": True, "via": "sim", "mutate": rng.random() < 0.5})
            variant = variant or rng.choice(["verbatim", "verbatim", "verbatim", "other-index-kind", "other-form", "rejected-dtype-then-verbatim"])
            again = copy.deepcopy(u)
            again["mutate"] = False
            if variant == "other-index-kind":
                again["ikind"] = rng.choice([k for k in ["int64", "range", "range-tight", "int32"] if k != u.get("ikind")])
            elif variant == "other-form" and len(u["cols"]) == 1:
                again["form"] = "S" if u["form"] == "D" else "D"
                if again["form"] == "D" and again["cols"][0][0] is None:
                    again["cols"][0][0] = col
            elif variant == "rejected-dtype-then-verbatim":
                wrong = copy.deepcopy(u)
                j = rng.randrange(len(wrong["cols"]))
                d = wrong["cols"][j][1]
                alt = {"int": "i32", "flt": "f32", "str": "obj", "cat": "str", "bool": "int", "time": "int"}[d]
                wrong["cols"][j][1] = alt
                if alt == "int" and d != "bool":
                    wrong["cols"][j][2] = tk.value_tokens("int", rng, len(wrong["rows"]))
                if d == "bool":
                    wrong["cols"][j][2] = ["i1" if t == "b1" else "i0" for t in wrong["cols"][j][2]]
                if d == "time":
                    wrong["cols"][j][2] = tk.value_tokens("int", rng, len(wrong["rows"]))
                if wrong["rows"]:
                    ops.append(dict(wrong, mutate=False, kind="dtype", move="same-update-in-another-dtype"))
            ops.append(dict(again, move="repeat:" + variant))
            return ops
        return []

    def read_twice(self, qcols):
        """the same get twice through the same handle with a write by another handle in between: the second read must see the
        write, the frame handed out first must not"""
        rng = self.rng
        if self.n == 0:
            return []
        cands = [v for v in self.views if self.views[v] and any(c in self.dtypes and c != "tracked" for c in self.views[v])]
        if not cands:
            return []
        v = rng.choice(cands)
        g1 = self.read(v, qcols, derived_ok=False)
        if not g1["idx"] or any(r >= self.n or r < 0 for r in g1["idx"]):
            g1["rspec"] = None
            g1["idx"] = self.rows(1) or [0]
        col = rng.choice([c for c in self.views[v] if c in self.dtypes and c != "tracked"])
        others = self.other_handles(v, col) or [v]
        rows = sorted(set(g1["idx"]))
        w = self.overwrite(rng.choice(others), col, rows, ["?"] * len(rows))
        g2 = copy.deepcopy(g1)
        return [dict(g1, move="first-read"), w, dict(g2, move="repeat:read")]

    def inside(self, p, qcols, initial=False):
        """what an initializer may do besides writing: read through any view (its own or another component's, also one whose
        columns do not all exist yet), ask for a sub-view, ask for a new view (allowed while the initial population is
        created), look at the whole population"""
        rng, out = self.rng, []
        while rng.random() < p:
            p *= 0.6
            r = rng.random()
            whole = [v for v, c in self.views.items() if not c]
            if r < 0.55:
                out.append(self.read(rng.choice(whole) if whole and rng.random() < 0.5 else rng.choice(list(self.views)), qcols))
            elif r < 0.75:
                parents = [v for v, c in self.views.items() if c]
                pv = rng.choice(parents)
                pc = self.views[pv]
                sc = rng.sample(pc, rng.randint(1, len(pc))) if rng.random() < 0.85 else rng.choice([[], pc + ["a2"]])
                out.append({"a": "sub", "id": self.next_id, "parent": pv, "cols": sc, "as_str": len(sc) == 1 and rng.random() < 0.3})
                if sc and all(c in pc for c in sc):
                    self.views[self.next_id] = sc
                self.next_id += 1
            elif r < 0.9 and initial:
                names = [c for c, _ in self.cols]
                vc = [] if rng.random() < 0.3 else rng.sample(names + ["tracked"], rng.randint(1, len(names)))
                out.append({"a": "view", "id": self.next_id, "cols": vc, "as_str": len(vc) == 1 and rng.random() < 0.3,
                            "q": ["T"] if rng.random() < 0.6 else tk.random_pred(rng, qcols)})
                self.views[self.next_id] = vc
                self.next_id += 1
            else:
                out.append({"a": "pop", "untracked": rng.random() < 0.5, "via": rng.choice(["sim", "manager", "default"]),
                            "mutate": rng.random() < 0.5})
        return out

    def bad_update(self, vid, kind):
        """a rejected update of the given kind, in multi-column form whenever the view allows it"""
        rng = self.rng
        base = None
        for _ in range(6):
            base = self.good_update(vid, rows=self.rows(1) or ([0] if self.n else []))
            if base and base["form"] == "D":
                break
            if base:
                base["form"] = "D"
                if base["cols"][0][0] is None:
                    base["cols"][0][0] = self.vcols(vid)[0]
                break
        if base is None:
            return None
        base["mutate"] = False
        base["kind"] = kind
        vc = self.vcols(vid)
        if kind == "foreign":
            other = [c for c in self.table_cols() if c not in vc] + ["nowhere"]
            c = rng.choice(other)
            dt = self.dtypes.get(c, "int")
            base["cols"].insert(rng.randint(0, len(base["cols"])), [c, dt, tk.value_tokens(dt, rng, len(base["rows"]))])
        elif kind == "unknownrow":
            ghost = self.n + rng.choice([0, 0, 1, 5])
            pos = rng.randint(0, len(base["rows"]))
            base["rows"].insert(pos, ghost)
            for c in base["cols"]:
                c[2].insert(pos, tk.value_tokens(c[1], rng, 1)[0])
        elif kind == "newcol":
            extra = [c for c in vc if c not in self.dtypes]
            if not extra:
                return None
            dt = rng.choice(["int", "flt", "str"])
            base["cols"].insert(rng.randint(0, len(base["cols"])), [extra[0], dt, tk.value_tokens(dt, rng, len(base["rows"]))])
        elif kind == "dtype":
            if not base["rows"]:
                return None
            j = rng.randrange(len(base["cols"]))
            c = base["cols"][j]
            dt = rng.choice([d for d in ALL_DTYPES if d != c[1]])
            base["cols"][j] = [c[0], dt, tk.value_tokens(dt, rng, len(base["rows"]), allow_null=False,
                                                         nulls=rng.choice([None, None, None, "all", "one"]))]     # (nothing but NaN for an int column …)
            if len(base["cols"]) == 1:                       # make it multi-column when possible
                more = [x for x in vc if x in self.dtypes and x != c[0]]
                if more:
                    m = rng.choice(more)
                    base["cols"].insert(rng.randint(0, 1), [m, self.dtypes[m], tk.value_tokens(self.dtypes[m], rng, len(base["rows"]))])
        elif kind == "unnamed":
            if len(vc) == 1:
                return None
            base["form"] = "S"
            base["cols"] = [[None] + base["cols"][0][1:]]
        elif kind == "nocols":
            base["cols"] = []
        elif kind == "type":
            base["form"] = "X"
            base["xkind"] = rng.choice(["dict", "list", "tuple", "ndarray", "none", "scalar"])
        return base

    def fill(self, labels, view=1, cols=None, mode="full"):
        """what the component's initializer writes for the new simulants"""
        rng = self.rng
        cols = [c for c, _ in self.cols] if cols is None else cols
        acts = []
        groups = [cols]
        if len(cols) > 1 and rng.random() < 0.3:
            cut = rng.randint(1, len(cols) - 1)
            groups = [cols[:cut], cols[cut:]]
        for g in groups:
            rows = list(labels)
            r = rng.random()
            if r < 0.35:
                rng.shuffle(rows)
            elif r < 0.6:
                rows.reverse()              # with a range kind: a DESCENDING range object (reaching 0 at the initial creation)
            spec = {"a": "upd", "view": view, "form": "D", "rows": rows, "catch": False, "ikind": rng.choice(IKINDS + ["range", "range-tight"]),
                    "cols": [[c, self.dtypes[c], tk.value_tokens(self.dtypes[c], rng, len(rows), nulls=self.null_pattern(self.dtypes[c]))] for c in g]}
            if len(g) == 1 and rng.random() < 0.3:
                spec["form"] = "S"
            acts.append(spec)
        if mode == "wrongdtype":          # ints for a float column at a birth
            for spec in acts:
                for c in spec["cols"]:
                    if c[1] == "flt":
                        c[1] = "int"
                        c[2] = tk.value_tokens("int", rng, len(spec["rows"]))
                        return acts
        if mode == "partial" and labels:  # only nullable columns are left partly unfilled
            for spec in acts:
                if all(c[1] in ("flt", "str", "time", "cat") for c in spec["cols"]) and len(spec["rows"]) > 1:
                    drop = rng.randrange(len(spec["rows"]))
                    spec["rows"].pop(drop)
                    for c in spec["cols"]:
                        c[2].pop(drop)
                    break
        return acts


class C11(tk.TableProp):
    id = "C11"
    lean_modules = ["VivModel.Props.C11", "VivModel.Props.C11Src"]
    technique = ("Lean 4 proof (frame rule of the positional write by induction over the update, shape, every rejection kind, "
                 "column-order and row-order irrelevance) + differential correspondence of op sequences on a real "
                 "PopulationManager under three PYTHONHASHSEED values")
    partial = ("pandas itself (alignment, fancy assignment, astype, copy-on-write) is modelled as list functions, not verified; "
               "that frames handed out earlier are copies lives in the runtime and is explored by the harness (held frames "
               "are re-read after later writes); cross-dtype writes while simulants are being added are covered only for the "
               "two promotions made by reindex (float64->int64, object->bool)")
    n_quick = 220
    n_thorough = 4000
    rule = ("case = a table of 2-5 mixed-dtype columns x 0-12 rows, 2-6 views (column subsets, with/without tracked, full, "
            "with a not-yet-existing column, sub-views) and 6-16 ops; run under 3 hash seeds; distinct by case hash; "
            "non-trivial = at least one accepted update that changed a cell and one rejected update")

    # ------------------------------------------------------------------ generation
    def boundary(self):
        out = []
        rng = random.Random("C11-boundary")
        for n0 in (0, 1, 2, 5):
            for j in range(3):
                out.append(self._gen(rng, "quick", n0=n0, every_bad=True, late=(j == 2)))
        out.append(self._gen(rng, "quick", n0=3, wrongdtype=True))
        out.append(self._gen(rng, "quick", n0=2, ncols=1, every_bad=True))
        out.append(self._gen(rng, "quick", n0=4, reg="component", late=True))
        out += self.three_step_boundary()
        out += [self.range_boundary(), self.null_boundary()]
        return out

    # every shape of range OBJECT (lesson 14): (labels, index kind, explicit start/stop/step or None)
    RANGES = [([6, 5, 4, 3, 2, 1, 0], "range", None),            # pop.index[::-1]                 RangeIndex(6, -1, -1)
              ([2, 1, 0], "range", None),                        # index[:3][::-1]                 RangeIndex(2, -1, -1)
              ([0, 2, 4, 6], "range", None),                     # index[::2]
              ([1, 4], "range", None),                           # index[1::3]
              ([6, 4, 2, 0], "range", None),                     # index[::-2]                     RangeIndex(6, -2, -2)
              ([6, 4, 2, 0], "range-tight", None),               #                                 RangeIndex(6, -1, -2)
              ([6, 3, 0], "range", None),                        # index[::-3]                     RangeIndex(6, -3, -3)
              ([5, 3, 1], "range", None),                        # ends above 0, stop -1           RangeIndex(5, -1, -2)
              ([5, 3, 1], "range-tight", None),                  #                                 RangeIndex(5, 0, -2)
              ([4, 3], "range", None),                           # index[3:5][::-1]                RangeIndex(4, 2, -1)
              ([2, 3, 4], "range", None),
              ([0], "range", None), ([0], "range-tight", None),  # RangeIndex(0, 1) / RangeIndex(0, -1, -1)
              ([3], "range", None), ([3], "range-tight", None),
              ([], "range", None), ([], "range-tight", None), ([], "range", [2, 5, -1]), ([], "range", [7, 7, 1]), ([], "range", [0, -1, 1])]

    @classmethod
    def range_boundary(cls):
        """updates (Series and DataFrame) whose index is a range object of every shape, through an explicit view, a view with
        the tracked column, the whole-table view and a sub-view; the same objects as read requests; two simulants untracked"""
        cols = [("a", "int"), ("b", "flt")]
        views = [{"id": 1, "cols": ["a", "b"], "q": ["T"]}, {"id": 2, "cols": ["a", "tracked"], "q": ["a", "a", "ge", "i-5"]},
                 {"id": 3, "cols": [], "q": ["T"]}]
        init = {"pop": [{"a": "upd", "view": 1, "form": "D", "rows": [6, 5, 4, 3, 2, 1, 0], "ikind": "range", "catch": False,
                         "cols": [["a", "int", [f"i{k}" for k in range(7)]], ["b", "flt", ["f1/1", "f2/0", "n", "f0/0", "f7/2", "n", "f3/0"]]]}]}
        ops = [{"a": "sub", "id": 4, "parent": 1, "cols": ["b"]},
               {"a": "upd", "view": 0, "form": "S", "rows": [2, 0], "ikind": "range", "cols": [["tracked", "bool", ["b0", "b0"]]]}]
        val = 100
        for k, (rows, ik, rs) in enumerate(cls.RANGES):
            v = [1, 2, 3, 4][k % 4]
            val += 10
            col, dt = ("b", "flt") if v == 4 else ("a", "int")
            toks = [f"i{val + j}" if dt == "int" else tk.ftok((val + j) / 4) for j in range(len(rows))]
            ops.append({"a": "upd", "view": v, "form": "SD"[k % 2], "rows": rows, "ikind": ik, "rspec": rs, "cols": [[col, dt, toks]],
                        "mutate": bool(k % 3 == 0)})
            ops.append({"a": "get", "view": [3, 1, 2, 4][k % 4], "idx": rows, "ikind": ik, "rspec": rs, "q": ["T"] if k % 3 else ["a", "a", "ne", f"i{val}"],
                        "noq": bool(k % 2), "mutate": bool(k % 2)})
        ops += [{"a": "upd", "view": 1, "form": "D", "rows": [5, 6, 7, 8], "ikind": "range", "cols": [["a", "int", ["i1", "i2", "i3", "i4"]]], "kind": "unknownrow"},
                {"a": "upd", "view": 1, "form": "S", "rows": [8, 6, 4], "ikind": "range", "cols": [["a", "int", ["i1", "i2", "i3"]]], "kind": "unknownrow"},
                {"a": "get", "view": 1, "idx": [5, 6, 7, 8], "ikind": "range", "q": ["T"]},
                {"a": "get", "view": 3, "idx": [2, 1, 0, -1, -2], "ikind": "range", "q": ["T"]},
                {"a": "get", "view": 3, "idx": {"from": "pop", "slices": [[None, None, -1]]}, "q": ["T"]},
                {"a": "get", "view": 1, "idx": {"from": "pop-tracked", "slices": [[None, None, -1]]}, "q": ["T"]},
                {"a": "get", "view": 1, "idx": {"from": "pop", "slices": [[None, 4, None], [None, None, -1]]}, "q": ["a", "b", "ne", "f0/0"]}]
        return {"comps": [{"name": "pop", "cols": [list(c) for c in cols], "views": views}], "pop": 7, "init": init, "steps": 0, "ops": ops,
                "seeds": [1, 2, 3]}

    @staticmethod
    def null_boundary():
        """lesson 15: updates that write null for everybody / for one simulant into every column dtype that can hold one
        (Series and DataFrame, whole-table view included), nothing but nulls offered to columns that cannot hold one (rejected),
        columns created all-null, a birth whose initial values are null"""
        cols = [("b", "flt"), ("s", "str"), ("t", "time"), ("c", "cat"), ("a", "int"), ("k", "bool")]
        views = [{"id": 1, "cols": [c for c, _ in cols], "q": ["T"]}, {"id": 2, "cols": [], "q": ["T"]}]
        rows = [0, 1, 2, 3]
        vals = {"flt": ["f1/1", "f2/0", "f3/0", "f7/2"], "str": ["sx", "sy", "sz", "sx"], "time": [f"t{tk.T0 + k * tk.DAY}" for k in range(4)],
                "cat": ["sx", "sy", "sz", "sy"], "int": ["i1", "i2", "i3", "i4"], "bool": ["b1", "b0", "b1", "b0"]}
        init = {"pop": [{"a": "upd", "view": 1, "form": "D", "rows": rows, "catch": False,
                         "cols": [[c, d, (["n"] * 4 if c in ("s", "t") else vals[d])] for c, d in cols]}]}     # s and t start all-null
        ops = []
        for c, d in cols[:4]:
            for pat in (["n"] * 4, ["n"] + vals[d][1:], vals[d], vals[d][:3] + ["n"]):
                ops.append({"a": "upd", "view": 1 + len(ops) % 2, "form": "SD"[len(ops) % 2], "rows": rows if len(ops) % 3 else rows[::-1],
                            "ikind": ["int64", "range", "range-tight"][len(ops) % 3], "cols": [[c, d, pat if len(ops) % 3 else pat[::-1]]]})
            ops.append({"a": "get", "view": 2, "idx": [3, 2, 1, 0], "ikind": "range", "q": ["a", c, "ne", vals[d][1]]} if d != "time" else
                       {"a": "get", "view": 2, "idx": [3, 2, 1, 0], "ikind": "range", "q": ["T"]})
        ops += [{"a": "upd", "view": 1, "form": "D", "rows": rows, "cols": [["a", "flt", ["n"] * 4]], "kind": "dtype"},       # NaN for an int column
                {"a": "upd", "view": 1, "form": "D", "rows": rows, "cols": [["k", "obj", ["n"] * 4]], "kind": "dtype"},       # None for a bool column
                {"a": "upd", "view": 1, "form": "D", "rows": rows, "cols": [["k", "obj", ["n"] * 4]], "nullobj": "none", "kind": "dtype"},
                {"a": "upd", "view": 1, "form": "D", "rows": rows, "cols": [["b", "obj", ["n"] * 4]], "nullobj": "none", "kind": "dtype"},
                {"a": "upd", "view": 1, "form": "D", "rows": rows, "cols": [["t", "flt", ["n"] * 4]], "kind": "dtype"},       # NaN for a datetime column
                {"a": "create", "k": 2, "comp": "pop",
                 "fills": {"pop": [{"a": "upd", "view": 1, "form": "D", "rows": [5, 4], "ikind": "range", "catch": False,
                                    "cols": [[c, d, (["n", "n"] if d in ("flt", "time") else ["n", vals[d][0]] if d in ("str", "cat") else vals[d][:2])]
                                             for c, d in cols]}]}},
                {"a": "get", "view": 2, "idx": [5, 4, 3, 2, 1, 0], "ikind": "range", "q": ["T"]}]
        return {"comps": [{"name": "pop", "cols": [list(c) for c in cols], "views": views}], "pop": 4, "init": init, "steps": 0, "ops": ops,
                "seeds": [1, 2, 3]}

    @staticmethod
    def three_step_boundary():
        """V writes U, V' overwrites a cell of U, (V is refused something,) V writes U again - for every ordered pair of handle
        kinds: explicit view, view with the tracked column, whole-table view, the Component's own view, a sub-view of the
        explicit view, a sub-view of the whole-table view (so also sub-view <-> parent); the same for the `tracked` column with
        the manager's own view; Series and DataFrame; in a second case with the rows of U in another order"""
        cases = []
        for flavour in (0, 1):
            rng = random.Random(f"C11-three-step-{flavour}")
            cols = [("a", "int"), ("b", "flt")]
            g = Gen(rng, cols, 4)
            views = [{"id": 1, "cols": ["a", "b"], "q": ["T"]}, {"id": 2, "cols": ["a", "tracked"], "q": ["a", "a", "ge", "i-5"]},
                     {"id": 3, "cols": [], "q": ["T"]}, {"id": 4, "auto": True, "cols": ["a", "b", "tracked"], "required": ["tracked"], "q": ["T"]}]
            g.views = {0: ["tracked"], 1: ["a", "b"], 2: ["a", "tracked"], 3: [], 4: ["a", "b", "tracked"]}
            g.next_id = 7
            ops = [{"a": "sub", "id": 5, "parent": 1, "cols": ["a"], "as_str": True}, {"a": "sub", "id": 6, "parent": 3, "cols": ["a", "tracked"]}]
            g.views[5], g.views[6] = ["a"], ["a", "tracked"]
            val = 100
            for col, handles in (("a", [1, 2, 3, 4, 5, 6]), ("tracked", [0, 2, 3, 4, 6])):
                for v in handles:
                    for w in handles:
                        if v == w:
                            continue
                        rows = [2, 0, 3] if flavour == 0 else [0, 3, 2]
                        if col == "a":
                            val += 10
                            toks, other = [f"i{val}", f"i{val + 1}", f"i{val + 2}"], f"i{-val}"
                        else:
                            toks, other = (["b0", "b0", "b1"], "b1") if (v + w) % 2 else (["b1", "b0", "b0"], "b0")
                        form = "S" if (v + w + flavour) % 2 and (col == "a" or v != 0 or True) else "D"
                        name = None if form == "S" and len(g.views[v]) == 1 and (v + w) % 3 == 0 else col
                        u = {"a": "upd", "view": v, "form": form, "rows": rows, "cols": [[name, g.dtypes[col], toks]],
                             "ikind": ["int64", "int32"][(v + w) % 2], "mutate": bool((v + w) % 2), "move": "first-write"}
                        ops.append(u)
                        ops.append({"a": "upd", "view": w, "form": "D", "rows": [rows[1]], "cols": [[col, g.dtypes[col], [other]]],
                                    "move": "overwrite-by-another-handle"})
                        if (v + w) % 3 == 1:
                            ops.append({"a": "upd", "view": v, "form": "D", "rows": rows, "kind": "dtype", "move": "rejected-in-between",
                                        "cols": [[col, "f32" if col == "a" else "int", ["f1/0", "f2/0", "f3/0"] if col == "a" else ["i1", "i0", "i1"]]]})
                        if (v + w) % 3 == 2:
                            ops.append({"a": "get", "view": v, "idx": rows, "q": ["T"], "mutate": True, "move": "read-in-between"})
                        ops.append(dict(copy.deepcopy(u), mutate=False, move="repeat:verbatim"))
            init = {"pop": [{"a": "upd", "view": 1, "form": "D", "rows": [0, 1, 2, 3], "catch": False,
                             "cols": [["a", "int", ["i1", "i2", "i3", "i4"]], ["b", "flt", ["f1/1", "f2/0", "f0/0", "n"]]]}]}
            cases.append({"comps": [{"name": "pop", "cols": [list(c) for c in cols], "views": views, "reg": "component"}], "pop": 4,
                          "init": init, "steps": 0, "ops": ops, "seeds": [1, 2, 3]})
        return cases

    def generate(self, rng, i, tier):
        return self._gen(rng, tier)

    def _gen(self, rng, tier, n0=None, every_bad=False, wrongdtype=None, late=None, ncols=None, reg=None):
        big = tier == "thorough"
        ncols = rng.randint(2, 5) if ncols is None else ncols
        cols = rng.sample(POOL, ncols)
        if not any(d == "flt" for _, d in cols):
            cols[0] = ("b", "flt")
        n0 = rng.choice([0, 1, 2, 3, 4, 5, 6, 8, 12] + ([20, 30] if big else [])) if n0 is None else n0
        # a second component whose initializer runs after pop's and creates one more column; it writes through its own
        # view or through a view that POP obtained (a handle obtained by one component, used by another)
        late = (("late_c", rng.choice(["int", "flt", "str", "bool", "cat"])) if (rng.random() < 0.3 if late is None else late) else None)
        g = Gen(rng, cols + ([late] if late else []), n0)
        names = [c for c, _ in cols]
        allnames = names + (["late_c"] if late else [])
        reg = (rng.choice(["builder", "builder", "builder", "component"]) if reg is None else reg)
        views = [{"id": 1, "cols": names, "q": ["T"], "noq": rng.random() < 0.5}]
        g.views[1] = names
        g.views[0] = ["tracked"]
        if late:
            g.views[100] = ["late_c"]
        qcols = cols + [("tracked", "bool")]
        if reg == "component":          # the view a Component gets by declaring columns_created / columns_required / a query
            req = rng.choice([[], ["tracked"], None])
            vc = [] if req == [] else names + (req or [])
            views.append({"id": g.next_id, "auto": True, "cols": vc, "required": req,
                          "q": ["T"] if rng.random() < 0.6 else tk.random_pred(rng, cols)})
            g.views[g.next_id] = vc
            g.next_id += 1
        for _ in range(rng.randint(2, 5)):
            r = rng.random()
            if r < 0.18:
                vc = []
            else:
                vc = rng.sample(allnames, rng.randint(1, len(allnames)))
                if rng.random() < 0.3:
                    vc.insert(rng.randint(0, len(vc)), "tracked")
                if rng.random() < 0.25:
                    vc.append("zz")
            q = ["T"] if rng.random() < 0.5 else tk.random_pred(rng, qcols if rng.random() < 0.3 else cols)
            views.append({"id": g.next_id, "cols": vc, "q": q, "as_str": len(vc) == 1 and rng.random() < 0.3, "noq": rng.random() < 0.5})
            g.views[g.next_id] = vc
            g.next_id += 1
        labels0 = list(range(n0))
        init = {"pop": g.inside(0.35, cols, True) + g.fill(labels0, view=1, cols=names) + g.inside(0.35, cols, True)}
        if late:
            init["late"] = g.inside(0.2, cols, True) + g.fill(labels0, view=100, cols=["late_c"]) + g.inside(0.2, cols, True)

        def fills(labels, mode="full"):
            """at a birth the owners may also write through somebody else's handle: a whole-table view, or any explicit view
            that has all the columns"""
            def handle(own, need):
                cands = [v for v, c in g.views.items() if v != 0 and (not c or all(x in c for x in need))]
                return rng.choice(cands) if cands and rng.random() < 0.35 else own
            f = {"pop": g.inside(0.15, cols) + g.fill(labels, view=handle(1, names), cols=names, mode=mode)}
            if late:
                f["late"] = g.fill(labels, view=handle(100, ["late_c"]), cols=["late_c"]) + g.inside(0.15, cols)
            return f

        ops = []
        bad_todo = list(BAD_KINDS) if every_bad else []
        nops = rng.randint(6, 16) + (len(bad_todo) if every_bad else 0)
        wrongdtype = (rng.random() < 0.04) if wrongdtype is None else wrongdtype
        for j in range(nops):
            r = rng.random()
            vid = rng.choice(list(g.views))
            if bad_todo and r < 0.6:
                kind = bad_todo.pop()
                spec = None
                for v in rng.sample(list(g.views), len(g.views)):
                    if kind == "newcol" and "zz" not in g.vcols(v):
                        continue
                    spec = g.bad_update(v, kind)
                    if spec:
                        break
                if spec:
                    ops.append(spec)
            elif r < 0.06:
                ops += g.three_step(cols)
            elif r < 0.08:
                ops += g.read_twice(cols)
            elif r < 0.10 and any(o["a"] == "create" and o.get("kind") != "wrongdtype" for o in ops):
                prev = [o for o in ops if o["a"] == "create" and o.get("kind") != "wrongdtype"][-1]      # the same creation request again
                k = prev["k"]
                shift = g.n - prev["start"]
                again = copy.deepcopy(prev)
                for f in again["fills"].values():
                    for a in f:
                        if a["a"] == "upd":
                            a["rows"] = [r0 + shift for r0 in a["rows"]]
                again["fills"] = {c: [a for a in f if a["a"] == "upd"] for c, f in again["fills"].items()}
                again["move"] = "repeat:create"
                g.n += k
                ops.append(again)
            elif r < 0.30:
                spec = g.good_update(vid)
                if spec:
                    ops.append(spec)
            elif r < 0.53:
                kind = rng.choice(BAD_KINDS)
                if kind == "newcol":
                    zz = [v for v in g.views if "zz" in g.vcols(v)]
                    vid = rng.choice(zz) if zz else vid
                spec = g.bad_update(vid, kind)
                if spec:
                    ops.append(spec)
            elif r < 0.68:
                ops.append(g.read(vid, cols))
            elif r < 0.73:
                ops.append({"a": "pop", "untracked": rng.random() < 0.5, "via": rng.choice(["sim", "manager", "default"]),
                            "mutate": rng.random() < 0.5})
            elif r < 0.81:
                k = rng.choice([0, 1, 2, 3])
                labels = list(range(g.n, g.n + k))
                g.n += k
                ops.append({"a": "create", "k": k, "comp": rng.choice(["pop", "late"] if late else ["pop"]), "start": labels[0] if labels else g.n,
                            "fills": fills(labels, rng.choice(["full", "full", "partial"]))})
            elif r < 0.90:
                pc = g.vcols(vid)
                sc = rng.sample(pc, rng.randint(1, len(pc))) if rng.random() < 0.8 else rng.choice([[], ["nowhere"], pc + ["a2"]])
                ops.append({"a": "sub", "id": g.next_id, "parent": vid, "cols": sc, "as_str": len(sc) == 1 and rng.random() < 0.3})
                if sc and all(c in pc for c in sc):
                    g.views[g.next_id] = sc
                g.next_id += 1
            else:
                rows, ik, rs = g.urows(1)
                ops.append({"a": "upd", "view": 0, "form": "S", "rows": rows, "mutate": False, "ikind": ik, "rspec": rs,
                            "cols": [[rng.choice([None, "tracked"]), "bool", [rng.choice(["b0", "b0", "b1"]) for _ in rows]]]})
        if wrongdtype and any(d == "flt" for _, d in cols):
            k = rng.randint(1, 3)
            ops.append({"a": "create", "k": k, "comp": "pop", "kind": "wrongdtype",
                        "fills": {"pop": g.fill(list(range(g.n, g.n + k)), view=1, cols=names, mode="wrongdtype"),
                                  **({"late": g.fill(list(range(g.n, g.n + k)), view=100, cols=["late_c"])} if late else {})}})
            g.n += k
        comps = [{"name": "pop", "cols": [list(c) for c in cols], "views": views, "reg": reg}]
        if late:
            comps.append({"name": "late", "cols": [list(late)], "views": [{"id": 100, "cols": ["late_c"], "q": ["T"]}],
                          "requires": [names[0]], "reg": rng.choice(["builder", "component"])})
        return {"comps": comps, "pop": n0, "init": init, "steps": 0, "ops": ops, "seeds": [1, 2, 3]}

    # ------------------------------------------------------------------ oracle (the property itself)
    def oracle(self, case, obs):
        fails = self.seed_failures(case, obs)
        vdefs = tk.view_defs(case, obs)

        def fail(sig, msg):
            fails.append({"sig": sig, "msg": msg})

        for i, e, prev, cr in tk.walk(obs):
            t = e["t"]
            after = e.get("table")
            if t in ("get", "sub"):
                d = tk.table_diff(prev, after)
                if d:
                    fail("read-changed-table", f"log {i} {t}: {d}")
            elif t == "upd":
                self._check_update(i, e, prev, after, cr, vdefs, fail)
            elif t == "create":
                pass
            elif t == "endcreate" and cr is not None and cr.get("before") is not None and after is not None:
                b = cr["before"]
                if after["rows"][:len(b["rows"])] != b["rows"] or len(after["rows"]) != len(b["rows"]) + cr["k"]:
                    fail("create-rows", f"log {i}: rows {b['rows']} + {cr['k']} -> {after['rows']}")
        fails += tk.held_failures(obs) + tk.population_failures(obs) + tk.history_failures(case, obs)
        fails += [f for f in tk.read_failures(case, obs) if f["sig"] != "read-changed-table"]     # (reads: the clauses of C12)
        return fails

    def _check_update(self, i, e, prev, after, cr, vdefs, fail):
        spec = e["spec"]
        ok = e["out"] == "ok"
        if prev is None:
            prev = {"rows": [], "cols": []}
        if after is None:
            after = {"rows": [], "cols": []}
        if not ok:
            d = tk.table_diff(prev, after)
            if d:
                fail("rejected-update-changed-table", f"log {i} update {tk.upd_line(spec)} was rejected ({e['out']}) but {d}")
            reasons = self._reasons(spec, prev, vdefs, cr)
            if reasons is not None and not reasons and cr is None:
                fail("good-update-rejected", f"log {i} update {tk.upd_line(spec)} satisfies every precondition but was rejected ({e['out']})")
            return
        # accepted
        reasons = self._reasons(spec, prev, vdefs, cr)
        if reasons:
            sig = "bad-update-accepted:" + reasons[0]
            if cr is not None and reasons == ["dtype"]:
                sig = "birth-update-dtype-cast"
            fail(sig, f"log {i} update {tk.upd_line(spec)} violates {reasons} but was accepted"
                      + (" while simulants were being added (the dtype check is skipped when adding_simulants is set)" if cr is not None else ""))
        if spec["form"] == "X":
            return
        # frame rule
        vd = vdefs.get(spec["view"], {"cols": []})
        vcols = vd["cols"] or [c[0] for c in prev["cols"]]
        supplied = {}
        for name, dt, toks in spec["cols"]:
            if name is None:
                name = vcols[0] if len(vcols) == 1 else None
            for r, v in zip(spec["rows"], toks):
                supplied[(r, name)] = v
        if after["rows"] != prev["rows"]:
            fail("update-changed-rows", f"log {i}: rows {prev['rows']} -> {after['rows']}")
            return
        initial = cr is not None and e.get("flags", [False, False])[0]
        pn, an = [c[0] for c in prev["cols"]], [c[0] for c in after["cols"]]
        if pn != an and not (initial and set(pn) <= set(an) and set(an) - set(pn) <= {c[0] for c in spec["cols"]}):
            fail("update-changed-columns", f"log {i}: columns {pn} -> {an}")
            return
        in_creation = cr is not None
        for name, dt, vals in after["cols"]:
            old = tk.col_of(prev, name)
            if old is not None and old[1] != dt and not in_creation:
                fail("update-changed-dtype", f"log {i}: dtype of {name} {old[1]} -> {dt} by {tk.upd_line(spec)}")
            for r, v in zip(after["rows"], vals):
                if (r, name) in supplied:
                    want = supplied[(r, name)]
                    good = tk.norm_tok(v) == tk.norm_tok(want) or (in_creation and tk.same_value(v, want))
                    if not good:
                        fail("update-wrong-cell", f"log {i}: cell ({r},{name}) is {v}, supplied {want} by {tk.upd_line(spec)}")
                        return
                elif old is not None:
                    was = old[2][prev["rows"].index(r)]
                    good = tk.norm_tok(v) == tk.norm_tok(was) or (in_creation and tk.same_value(v, was))
                    if not good:
                        sig = "update-touched-other-cell"
                        if in_creation and any(c[0] == name and c[1] != self._logical(cr, name, old[1]) for c in spec["cols"]):
                            sig = "birth-update-dtype-cast"
                        fail(sig, f"log {i}: cell ({r},{name}) not addressed by {tk.upd_line(spec)} changed {was} -> {v}")
                        return

    @staticmethod
    def _logical(cr, name, physical):
        """dtype of the column before the creation started (reindex promotes int64/bool while rows are unfilled)"""
        if cr is not None and cr.get("before") is not None:
            c = tk.col_of(cr["before"], name)
            if c is not None:
                return c[1]
        return physical

    def _reasons(self, spec, prev, vdefs, cr):
        """why the property says this update must be rejected ([] = must be accepted, None = no opinion)"""
        vd = vdefs.get(spec["view"])
        if vd is None:
            return None
        if spec["form"] == "X":
            return ["type"]
        vcols = vd["cols"] or [c[0] for c in prev["cols"]]
        out = []
        names = [c[0] for c in spec["cols"]]
        if spec["form"] == "S" and names[0] is None:
            if len(vcols) != 1:
                return ["unnamed"]
            names = [vcols[0]]
        if not names:
            out.append("nocols")
        if any(n not in vcols for n in names):
            out.append("foreign")
        if any(r not in prev["rows"] for r in spec["rows"]):
            out.append("unknownrow")
        initial = cr is not None and cr.get("before") is None
        have = {c[0]: c[1] for c in prev["cols"]}
        if not initial and any(n not in have for n in names):
            out.append("newcol")
        if spec["rows"] and not initial:
            for n, (_, dt, _) in zip(names, spec["cols"]):
                if n in have and dt != self._logical(cr, n, have[n]):
                    out.append("dtype")
                    break
        if initial and not out:
            return None          # the rules of initial creation belong to C13
        if cr is not None and not out:
            return None          # conflict rules of births belong to C13
        return out

    # ------------------------------------------------------------------ reporting
    def nontrivial(self, case, obs):
        acc = rej = False
        for i, e, prev, cr in tk.walk(obs):
            if e["t"] == "upd" and cr is None:
                if e["out"] == "ok" and prev is not None and tk.table_diff(prev, e["table"]):
                    acc = True
                if e["out"] != "ok":
                    rej = True
        return acc and rej

    def tags(self, case, obs):
        t = [f"rows0:{min(case['pop'], 9)}", f"ncols:{len(case['comps'][0]['cols'])}"]
        for a in case.get("ops", []):
            if a.get("kind"):
                t.append("gen-bad:" + a["kind"])
            if a.get("move"):
                t.append("move:" + a["move"])
        vd = tk.view_defs(case, obs)
        for i, e, prev, cr in tk.walk(obs):
            where = "birth" if cr is not None and cr.get("before") is not None else ("initial" if cr is not None else "step")
            if e["t"] == "upd":
                sp = e["spec"]
                t.append(f"upd:{where}:{'ok' if e['out'] == 'ok' else 'rejected'}")
                t.append(f"upd-form:{sp['form']}{'-unnamed' if sp['form'] == 'S' and sp['cols'][0][0] is None else ''}")
                t.append(f"upd-ncols:{min(len(sp['cols']), 4)}")
                t.append(f"upd-nrows:{min(len(sp.get('rows', [])), 3)}")
                if sp.get("rows") and sp["rows"] != sorted(sp["rows"]):
                    t.append("upd-rows-permuted")
                v = vd.get(sp["view"])
                if v is not None:
                    t.append("upd-view:" + ("full" if not v["cols"] else ("sub" if "parent" in v else ("with-tracked" if "tracked" in v["cols"] else "plain"))))
                if e["out"] != "ok":
                    t.append("exc:" + e["out"][4:])
            elif e["t"] in ("get", "sub"):
                t.append(f"{e['t']}:{'ok' if e['out'] == 'ok' else 'err'}")
            elif e["t"] == "create":
                t.append(f"create:{'initial' if e.get('before') is None else 'birth'}:k{min(e['k'], 4)}")
        for o in obs.get("other_seeds", []):
            t.append("seed-compared")
        t += ["model-err:" + k for k in obs.get("model_errs", [])]
        return t + tk.form_tags(case, obs)


PROP = C11()
