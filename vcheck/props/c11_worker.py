"""Worker process of the state-table checks: reads one JSON case per line on stdin, runs it on the real
code (`tablekit.run_script`) under this process's PYTHONHASHSEED, answers one JSON line."""
import json
import signal
import sys
import traceback


class ScriptTimeout(Exception):
    pass


def _budget_used_up(signum, frame):
    raise ScriptTimeout()


def main() -> int:
    from .. import tablekit
    out = sys.stdout
    sys.stdout = sys.stderr           # nothing but our replies may reach the pipe
    for line in sys.stdin:
        line = line.strip()
        if not line:
            continue
        try:
            # CPU-time budget of one script in THIS process (the parent only waits on the pipe, so its own CPU timer
            # cannot see a hang in here); repeating, because a single exception can be swallowed inside pandas
            signal.signal(signal.SIGPROF, _budget_used_up)
            signal.setitimer(signal.ITIMER_PROF, 300.0, 2.0)
            try:
                res = tablekit.run_script(json.loads(line))
            finally:
                signal.setitimer(signal.ITIMER_PROF, 0)
        except ScriptTimeout:
            res = {"__timeout__": True}
        except BaseException as e:  # noqa: BLE001
            if isinstance(e, (KeyboardInterrupt, SystemExit)):
                raise
            res = {"__crash__": f"{type(e).__name__}: {e}", "__trace__": traceback.format_exc()[-1500:]}
        out.write(json.dumps(res, default=str) + "\n")
        out.flush()
    return 0


if __name__ == "__main__":
    sys.exit(main())
