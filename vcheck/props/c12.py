"""C12 — a view read returns exactly the requested, filtered rows and columns.

Tie: histories of reads interleaved with updates, untracking, births and sub-view requests on a real
PopulationManager (worker subprocesses, two PYTHONHASHSEED values); every frame returned by
`PopulationView.get` is compared with Driver/C11.lean (Model/Table.lean `get`, `mkView`, `subview`): rows in
order, columns in order, exact values, dtypes. The oracle recomputes every read with a reference filter over
the full table (`get_population(untracked=True)`), independent of the Lean model.

Interpretation (DESIGN.md C12): a view query that itself refers to the column `tracked` is the documented way
to see untracked simulants and is not flagged; a query that merely contains the substring is.
"""
from __future__ import annotations

import random

from .. import tablekit as tk
from .c11 import C11, Gen

POOL = [("a", "int"), ("b", "flt"), ("s", "str"), ("k", "bool"), ("t", "time"), ("tracked_since", "flt"),
        ("untracked", "bool"), ("is_tracked", "bool"), ("n2", "int")]


def need_tracked(vd) -> bool:
    return bool(vd["cols"]) and "tracked" not in vd["cols"] and "tracked" not in tk.pred_cols(vd["q"])


class C12(tk.TableProp):
    id = "C12"
    lean_modules = ["VivModel.Props.C12", "VivModel.Props.C12Src"]
    technique = ("Lean 4 proof (rows = request filtered by view query, extra query and the tracked rule, in request order; "
                 "columns and values; sub-view inheritance; composition with the C11 frame rule) + differential "
                 "correspondence of read histories on a real PopulationManager + reference filter over the full table")
    partial = ("pandas `query` is modelled by a predicate AST (and/or of column-op-constant over int, float, str and bool "
               "columns) that the harness renders as the query string; that the returned frame is a copy lives in the runtime "
               "and is explored (frames are overwritten in place after the read and re-read after later writes)")
    n_quick = 200
    n_thorough = 4000
    rule = ("case = a table of 2-5 mixed-dtype columns (names containing `tracked` as a substring included) x 0-12 rows, "
            "3-7 views (with/without tracked, full, queries that do / do not mention tracked, a not-yet-existing column), "
            "8-20 ops dominated by reads (empty / subset / permuted / repeated / unknown labels, extra queries) interleaved "
            "with updates, untracking, births, sub-views; non-trivial = a read that returned a proper non-empty subset")

    # ------------------------------------------------------------------ generation
    def boundary(self):
        rng = random.Random("C12-boundary")
        out = [self._gen(rng, "quick", n0=n0) for n0 in (0, 1, 3, 6)]
        # the tracked rule in isolation: one column, three simulants, one untracked; every kind of view
        cols = [["a", "int"], ["tracked_since", "flt"]]
        views = [{"id": 1, "cols": ["a", "tracked_since"], "q": ["T"]},
                 {"id": 2, "cols": ["a"], "q": ["T"]},
                 {"id": 3, "cols": ["a"], "q": ["a", "tracked_since", "ge", "f0/0"]},          # substring only (F6)
                 {"id": 4, "cols": ["a"], "q": ["a", "tracked", "eq", "b0"]},                   # documented way
                 {"id": 5, "cols": ["a", "tracked"], "q": ["T"]},
                 {"id": 6, "cols": [], "q": ["T"]},
                 {"id": 7, "cols": ["a"], "q": ["and", ["a", "a", "ge", "i0"], ["a", "tracked_since", "lt", "i9"]]},
                 {"id": 8, "cols": ["a"], "q": ["or", ["a", "a", "ge", "i2"], ["a", "tracked_since", "lt", "i1"]]},   # F23 (fixed by c38dfdde)
                 {"id": 9, "cols": ["a", "zz"], "q": ["T"]}]
        init = {"pop": [{"a": "upd", "view": 1, "form": "D", "rows": [0, 1, 2], "catch": False,
                         "cols": [["a", "int", ["i1", "i2", "i3"]], ["tracked_since", "flt", ["f1/1", "f2/0", "f0/0"]]]}]}
        ops = [{"a": "upd", "view": 0, "form": "S", "rows": [2], "cols": [["tracked", "bool", ["b0"]]]}]
        for v in range(1, 10):
            ops.append({"a": "get", "view": v, "idx": [2, 0, 1], "q": ["T"], "mutate": v % 2 == 0})
        ops += [{"a": "sub", "id": 20, "parent": 5, "cols": ["a"]}, {"a": "get", "view": 20, "idx": [0, 1, 2], "q": ["T"]},
                {"a": "sub", "id": 21, "parent": 3, "cols": ["a"], "as_str": True}, {"a": "get", "view": 21, "idx": [2, 1], "q": ["T"]},
                {"a": "sub", "id": 22, "parent": 6, "cols": ["tracked_since"]}, {"a": "get", "view": 22, "idx": [2, 1], "q": ["T"]},
                {"a": "sub", "id": 23, "parent": 2, "cols": []}, {"a": "sub", "id": 24, "parent": 2, "cols": ["tracked_since"]},
                {"a": "get", "view": 2, "idx": [], "q": ["a", "a", "ge", "i0"]},
                {"a": "get", "view": 2, "idx": [1, 5], "q": ["T"]},
                {"a": "get", "view": 2, "idx": [1, 1, 0], "q": ["T"]}]
        out.append({"comps": [{"name": "pop", "cols": cols, "views": views}], "pop": 3, "init": init, "steps": 0, "ops": ops,
                    "seeds": [1, 2]})
        # the same read twice through every kind of handle, a write through every other kind in between (and a rejected write)
        ops2 = [{"a": "sub", "id": 20, "parent": 1, "cols": ["a"]}, {"a": "sub", "id": 21, "parent": 6, "cols": ["a", "tracked_since"]}]
        hs, val = [1, 2, 5, 6, 7, 20, 21], 50
        for v in hs:
            for w in hs:
                if v == w:
                    continue
                val += 1
                idx = [2, 0, 1] if (v + w) % 2 else [1, 2]
                g1 = {"a": "get", "view": v, "idx": idx, "q": ["T"], "noq": bool(v % 2), "mutate": bool((v + w) % 3 == 0), "move": "first-read"}
                ops2 += [g1, {"a": "upd", "view": w, "form": "D", "rows": [1], "cols": [["a", "int", [f"i{val}"]]], "move": "overwrite-by-another-handle"}]
                if (v + w) % 3 == 1:
                    ops2.append({"a": "upd", "view": w, "form": "D", "rows": [1], "cols": [["a", "flt", ["f1/1"]]], "kind": "dtype", "move": "rejected-in-between"})
                ops2.append(dict(g1, mutate=False, move="repeat:read"))
        out.append({"comps": [{"name": "pop", "cols": cols, "views": views}], "pop": 3, "init": init, "steps": 0, "ops": ops2, "seeds": [1, 2]})
        out.append(self.range_boundary(cols, views))
        return out

    @staticmethod
    def range_boundary(cols, views):
        """lesson 14: every shape of range OBJECT (reversed everybody, reversed prefix, strided, descending to 0 / above 0, one
        label, nobody; C11.RANGES) as the request of a read through every kind of view (plain, with the tracked column, whole
        table, queries that do / do not mention tracked, sub-views), with and without an extra query, simulants 0 and 3
        untracked; the same for objects sliced from the framework's own population index; from a listener: `event.index[::-1]`"""
        init = {"pop": [{"a": "upd", "view": 1, "form": "D", "rows": list(range(7)), "ikind": "range", "catch": False,
                         "cols": [["a", "int", [f"i{k}" for k in range(7)]],
                                  ["tracked_since", "flt", ["f1/1", "f2/0", "f0/0", "n", "f7/2", "f1/0", "f3/0"]]]}]}
        ops = [{"a": "upd", "view": 0, "form": "S", "rows": [3, 0], "ikind": "range", "cols": [["tracked", "bool", ["b0", "b0"]]]},
               {"a": "sub", "id": 20, "parent": 5, "cols": ["a"]}, {"a": "sub", "id": 21, "parent": 3, "cols": ["a"], "as_str": True},
               {"a": "sub", "id": 22, "parent": 6, "cols": ["tracked_since", "a"]}]
        handles = [1, 2, 3, 4, 5, 6, 7, 8, 20, 21, 22]
        extras = [["T"], ["a", "a", "ne", "i4"], ["a", "tracked_since", "ge", "f1/1"]]
        k = 0
        for rows, ik, rs in C11.RANGES:
            for v in handles:
                k += 1
                if len(rows) > 1 or k % 3 == 0:
                    ops.append({"a": "get", "view": v, "idx": rows, "ikind": ik, "rspec": rs, "q": extras[k % 3], "noq": bool(k % 2), "kw": k % 5 == 0,
                                "mutate": k % 4 == 0})
        for sl in ([[None, None, -1]], [[None, 4, None], [None, None, -1]], [[None, None, 2]], [[None, None, -3]], [[None, None, -1], [None, None, 2]],
                   [[5, None, -2]], [[None, 0, None]], [[None, 1, None], [None, None, -1]]):
            for v in (2, 5, 6, 8, 22):
                k += 1
                ops.append({"a": "get", "view": v, "idx": {"from": ["pop", "pop-tracked"][k % 2], "slices": sl}, "q": extras[k % 3]})
        ops += [{"a": "get", "view": 6, "idx": [5, 6, 7], "ikind": "range", "q": ["T"]}, {"a": "get", "view": 2, "idx": [1, 0, -1], "ikind": "range", "q": ["T"]}]
        hooks = {f"0:{ph}:pop": [{"a": "get", "view": v, "idx": {"from": "event", "slices": sl}, "q": ["T"]}
                                 for v in (2, 6) for sl in ([[None, None, -1]], [[None, 3, None], [None, None, -1]], [[None, None, 2]])]
                 for ph in ("time_step", "collect_metrics")}
        return {"comps": [{"name": "pop", "cols": cols, "views": views}], "pop": 7, "init": init, "steps": 1, "hooks": hooks, "ops": ops,
                "seeds": [1, 2]}

    def generate(self, rng, i, tier):
        return self._gen(rng, tier)

    def _gen(self, rng, tier, n0=None, late=None):
        big = tier == "thorough"
        cols = rng.sample(POOL, rng.randint(2, 5))
        if not any("tracked" in c for c, _ in cols) and rng.random() < 0.7:
            cols[0] = rng.choice([("tracked_since", "flt"), ("untracked", "bool"), ("is_tracked", "bool")])
        if not any(d in ("int", "flt") for _, d in cols):
            cols[-1] = ("a", "int")
        n0 = rng.choice([0, 1, 2, 3, 4, 5, 6, 8, 12] + ([25] if big else [])) if n0 is None else n0
        # a second component whose initializer runs AFTER pop's and adds one more column: reads made inside pop's
        # initializer see a table that does not have it yet
        late = ("late_c", rng.choice(["int", "flt", "str", "bool"])) if (rng.random() < 0.4 if late is None else late) else None
        g = Gen(rng, cols + ([late] if late else []), n0)
        names = [c for c, _ in cols]
        allnames = names + (["late_c"] if late else [])
        views = [{"id": 1, "cols": names, "q": ["T"]}]
        g.views[0], g.views[1] = ["tracked"], names
        if late:
            g.views[100] = ["late_c"]
        qcols = cols + [("tracked", "bool")]
        nviews = rng.randint(3, 7)
        for k in range(nviews):
            r = rng.random()
            if r < 0.12 or (k == 0 and rng.random() < 0.5):
                vc = []                                           # a view over the whole table
            else:
                vc = rng.sample(allnames, rng.randint(1, len(allnames)))
                if rng.random() < 0.25:
                    vc.insert(rng.randint(0, len(vc)), "tracked")
                if rng.random() < 0.08:
                    vc.append("zz")
            r = rng.random()
            if r < 0.3:
                q = ["T"]
            elif r < 0.55:
                q = tk.random_pred(rng, cols)
            elif r < 0.75:
                q = tk.random_pred(rng, [c for c in cols if "tracked" in c[0] and c[1] != "time"] or cols)      # substring only
            else:
                q = tk.random_pred(rng, qcols)
                if rng.random() < 0.5 and "tracked" not in tk.pred_cols(q):
                    q = ["and", q, ["a", "tracked", rng.choice(["eq", "ne"]), rng.choice(["b0", "b1"])]]
            if vc and rng.random() < 0.05:
                vc = vc + [vc[0]]                                 # the same column named twice (legal: returned twice)
            views.append({"id": g.next_id, "cols": vc, "q": q, "as_str": len(vc) == 1 and rng.random() < 0.3, "noq": rng.random() < 0.5})
            g.views[g.next_id] = vc
            g.next_id += 1
        # reads at different moments of the initial creation: before pop has written anything (only `tracked` exists),
        # after pop's columns exist but before the later component's, and inside the later component's initializer
        whole = [v["id"] for v in views if not v["cols"]]

        def early_reads(p, initial=False):
            return g.inside(p * 1.4, cols, initial)

        labels0 = list(range(n0))
        init = {"pop": early_reads(0.5, True) + g.fill(labels0, view=1, cols=names) + early_reads(0.5, True)}
        if late:
            init["late"] = early_reads(0.2, True) + g.fill(labels0, view=100, cols=["late_c"]) + early_reads(0.2, True)

        def fills(labels):
            f = {"pop": early_reads(0.15) + g.fill(labels, view=1, cols=names)}
            if late:
                f["late"] = g.fill(labels, view=100, cols=["late_c"]) + early_reads(0.15)
            return f

        ops = []
        if n0:
            rows = rng.sample(range(n0), rng.randint(0, max(1, n0 // 2)))
            ops.append({"a": "upd", "view": 0, "form": "S", "rows": rows, "cols": [["tracked", "bool", ["b0"] * len(rows)]]})
        for _ in range(rng.randint(8, 20)):
            r = rng.random()
            vid = rng.choice(list(g.views))
            if r < 0.05:
                ops += g.read_twice(cols)                         # the same get twice, a write by another handle in between
            elif r < 0.09:
                ops += g.three_step(cols)                         # the same update twice, another handle in between
            elif r < 0.56:
                if rng.random() < 0.25:
                    vid = max(g.views)                            # the most recent (sub-)view
                ops.append(self._read(rng, g, vid, cols))
            elif r < 0.70:
                spec = g.good_update(vid)
                if spec:
                    ops.append(spec)
            elif r < 0.80:
                rows = g.rows(1)
                ops.append({"a": "upd", "view": 0, "form": "S", "rows": rows,
                            "cols": [[rng.choice([None, "tracked"]), "bool", [rng.choice(["b0", "b0", "b1"]) for _ in rows]]]})
            elif r < 0.91:
                with_tracked = [v for v in g.views if "tracked" in g.vcols(v) and len(g.vcols(v)) > 1]
                if with_tracked and rng.random() < 0.5:          # the sub-view drops the tracked column of its parent
                    vid = rng.choice(with_tracked)
                pc = g.vcols(vid)
                sc = rng.sample(pc, rng.randint(1, len(pc))) if rng.random() < 0.8 else rng.choice([[], ["nowhere"], pc + ["a2"]])
                if vid in with_tracked and rng.random() < 0.7:
                    sc = [c for c in sc if c != "tracked"] or [c for c in pc if c != "tracked"][:1]
                ops.append({"a": "sub", "id": g.next_id, "parent": vid, "cols": sc, "as_str": len(sc) == 1 and rng.random() < 0.3})
                if sc and all(c in pc for c in sc):
                    g.views[g.next_id] = sc
                g.next_id += 1
            elif r < 0.93:
                ops.append({"a": "pop", "untracked": rng.random() < 0.5, "via": rng.choice(["sim", "manager", "default"]),
                            "mutate": rng.random() < 0.5})
            elif r < 0.97:
                k = rng.choice([0, 1, 2])
                ops.append({"a": "create", "k": k, "comp": "pop", "fills": fills(list(range(g.n, g.n + k)))})
                g.n += k
            else:
                spec = g.bad_update(vid, rng.choice(["foreign", "unknownrow", "dtype", "unnamed"]))
                if spec:
                    ops.append(spec)
        comps = [{"name": "pop", "cols": [list(c) for c in cols], "views": views}]
        if late:
            comps.append({"name": "late", "cols": [list(late)], "views": [{"id": 100, "cols": ["late_c"], "q": ["T"]}],
                          "requires": [names[0]]})
        # some histories go through one real time step first: reads from listeners, then the ops in `collect_metrics`
        steps, hooks = 0, {}
        if rng.random() < 0.3:
            steps = 1
            for ph in rng.sample(tk.PHASES, rng.randint(1, 3)):
                g_n, g.n = g.n, n0
                acts = [self._read(rng, g, rng.choice([v["id"] for v in views] + whole * 2), cols) for _ in range(rng.randint(1, 3))]
                for a in acts:
                    if rng.random() < 0.4:
                        a["idx"] = "event"                        # the index object the framework hands to the listener
                hooks[f"0:{ph}:{rng.choice(['pop', 'late']) if late else 'pop'}"] = acts
                g.n = g_n
        return {"comps": comps, "pop": n0, "init": init, "steps": steps, "hooks": hooks, "ops": ops, "seeds": [1, 2]}

    @staticmethod
    def _read(rng, g, vid, cols):
        return g.read(vid, cols)

    # ------------------------------------------------------------------ oracle (the property itself)
    def oracle(self, case, obs):
        return (self.seed_failures(case, obs) + tk.read_failures(case, obs) + tk.held_failures(obs) + tk.population_failures(obs)
                + tk.history_failures(case, obs))

    # ------------------------------------------------------------------ reporting
    def nontrivial(self, case, obs):
        for e in obs["log"]:
            if e["t"] == "get" and e["out"] == "ok" and 0 < len(e["frame"]["rows"]) < len(e["idx"]):
                return True
        return False

    def tags(self, case, obs):
        t = [f"rows0:{min(case['pop'], 9)}"] + ["move:" + a["move"] for a in case.get("ops", []) if a.get("move")]
        vd = tk.view_defs(case, obs)
        for i, e, prev, cr in tk.walk(obs):
            if e["t"] == "get":
                v = vd.get(e["view"])
                when = ("step-listener" if e.get("comp") and cr is None else "outside") if cr is None else \
                       ("initial-creation" if cr.get("before") is None else "birth")
                t.append("read-when:" + when)
                if v is not None and not v["cols"]:
                    t.append("whole-table-read:" + when + f":{len(prev['cols']) if prev else 0}cols")
                idx = e["idx"]
                n = len(prev["rows"]) if prev else 0
                kind = ("empty" if not idx else "unknown" if any(r >= n for r in idx) else "repeated" if len(set(idx)) < len(idx)
                        else "full" if idx == list(range(n)) else "permuted" if sorted(idx) != idx else "subset")
                t.append("idx:" + kind)
                t.append("get:" + ("ok" if e["out"] == "ok" else "err"))
                t.append("extra-query:" + ("no" if e["q"] == ["T"] else "yes"))
                if v is not None:
                    t.append("view:" + ("full" if not v["cols"] else ("sub" if "parent" in v else "top"))
                             + ("+tracked-col" if "tracked" in v["cols"] else ""))
                    qc = tk.pred_cols(v["q"])
                    t.append("query:" + ("none" if v["q"] == ["T"] else "mentions-tracked" if "tracked" in qc
                                         else "substring-tracked" if any("tracked" in c for c in qc) else "plain")
                             + ("+or" if v["q"][0] == "or" else ""))
                    if "zz" in v["cols"]:
                        t.append("view-with-missing-column")
                    if e["out"] == "ok" and prev is not None:
                        if any(tk.cell(prev, r, "tracked") == "b0" for r in e["frame"]["rows"]):
                            t.append("returned-untracked")
                        if any(tk.cell(prev, r, "tracked") == "b0" for r in idx if r in prev["rows"]) and need_tracked(v):
                            t.append("tracked-filter-mattered")
                if e["out"] != "ok":
                    t.append("exc:" + e["out"][4:])
            elif e["t"] == "sub":
                t.append("sub:" + ("ok" if e["out"] == "ok" else "err"))
            elif e["t"] == "upd" and cr is None:
                t.append("upd:" + ("ok" if e["out"] == "ok" else "rejected"))
            elif e["t"] == "create":
                t.append("create")
        t += ["model-err:" + k for k in obs.get("model_errs", [])]
        return t + tk.form_tags(case, obs)


PROP = C12()
