"""C13 — creating simulants adds fresh rows and disturbs nobody.

Tie: creation histories in REAL simulations (`setup`, `initialize_simulants`, `step` x n on a SimpleClock or a
DateTimeClock): 1-3 probe components with initializers, listeners on the four time-step channels that create
0-3 simulants, update and untrack existing ones; well-behaved and misbehaving initializers (new column at a
birth, conflicting / duplicate initial values, missing simulants, nothing new). Observed: labels returned by
the creator, the table before / inside every initializer / after, the SimulantData every initializer saw.
The log is replayed on Driver/C11.lean (`createBegin`, `update` with the creation flags, `createEnd`), tables
compared by value inside a creation and exactly (dtypes included) once it has finished.

Not claimed (DESIGN.md C13): atomicity of a creation whose initializer raises.
"""
from __future__ import annotations

import copy
import random

from .. import tablekit as tk

DTYPES = ["int", "flt", "str", "bool", "time", "cat"]
IKINDS = ["int64", "int64", "range", "range-tight", "int32"]
MODES = ["clean", "clean", "clean", "newcol_birth", "conflict_initial", "sloppy_initial", "conflict_birth", "sloppy_birth",
         "missing_rows_initial", "nonew_initial", "partial_birth", "zero_pop",
         "xdtype_initial", "xdtype_initial", "xdtype_birth", "xdtype_birth",
         "null_initial", "null_initial", "null_birth", "null_birth"]
OVERLAP = ("conflict_initial", "sloppy_initial", "conflict_birth", "sloppy_birth", "xdtype_initial", "xdtype_birth",
           "null_initial", "null_birth")
# lesson 15 - null is a value: two components supply initial values for one column and one side (or both) is null
NULL_DTYPES = ["flt", "time", "str", "cat", "obj"]          # NaN, NaT, None/NaN (str), NaN (category), None (object: initial creation only)
NULL_PATTERNS = ["all", "some", "one"]                       # null for everybody / for some / for one of the new simulants
NULL_WHO = ["first", "second", "both-same", "both-differ"]   # which provider (in the order they RUN) supplies the nulls
NULL_ORDERS = ["owner-first", "other-first"]                 # the registered creator of the column runs first / second
# a second component re-supplying a column with ANOTHER dtype than the column holds: (column dtype, update dtype)
XPAIRS = [("int", "flt"), ("int", "i32"), ("int", "bool"), ("flt", "int"), ("flt", "f32"), ("bool", "int"), ("bool", "flt"),
          ("str", "int"), ("str", "cat"), ("str", "obj"), ("cat", "str"), ("cat", "obj")]
XRELS = ["equal", "differ", "lossy"]


class C13(tk.TableProp):
    id = "C13"
    lean_modules = ["VivModel.Props.C13", "VivModel.Props.C13Src"]
    technique = ("Lean 4 proof (labels = [n, n+k); induction over arbitrary histories with the invariant rows = range n: no "
                 "label is ever reused; existing cells preserved; zero creation; columns fixed outside initial creation; "
                 "conflicting initial data rejected) + differential correspondence of creation histories in real simulations")
    partial = ("the order in which initializers run and the clock values they see are taken from the running simulation "
               "(C09 / C08 own them) and checked by the oracle only; a creation whose initializer raises is not rolled back "
               "(explicit non-claim); pandas reindex / astype are modelled as list functions")
    n_quick = 150
    n_thorough = 2500
    rule = ("case = a real simulation: 1-3 components with typed columns, initial population 0-6, 1-3 steps on a simple or "
            "datetime clock, scripted listeners on the four time-step channels (births of 0-3, updates, untracking) and one "
            "of twelve initializer behaviours; non-trivial = at least one birth of k>0 after the initial creation completed")

    # ------------------------------------------------------------------ generation
    def boundary(self):
        rng = random.Random("C13-boundary")
        return ([self._gen(rng, "quick", mode=m) for m in MODES[2:]] + [self._gen(rng, "quick", mode="clean", pop=p) for p in (0, 1)]
                + [self._gen(rng, "quick", mode="clean", nocol=k) for k in ("builder", "component", "ledger", "all")]
                + [self._gen(rng, "quick", mode=m, xpair=p, xrel=r, pop=3) for p in XPAIRS for r in XRELS
                   for m in ("xdtype_initial", "xdtype_birth")]
                + [self._gen(rng, "quick", mode="null_initial", pop=(1 if (i + k) % 5 == 0 else 4),
                             nullspec={"dtype": d, "pattern": pt, "who": w, "order": o, "nullobj": ["none", "nan"][(i + k) % 2]})
                   for i, d in enumerate(NULL_DTYPES) for k, (pt, w) in enumerate((pt, w) for pt in NULL_PATTERNS for w in NULL_WHO)
                   for o in NULL_ORDERS if (pt != "one" or o == "owner-first")]
                + [self._gen(rng, "quick", mode="null_birth", pop=2, nullspec={"dtype": d, "pattern": pt, "who": w, "order": "owner-first", "nullobj": "nan"})
                   for d in NULL_DTYPES[:4] for pt in NULL_PATTERNS for w in NULL_WHO])

    def generate(self, rng, i, tier):
        return self._gen(rng, tier)

    def _gen(self, rng, tier, mode=None, pop=None, nocol=None, xpair=None, xrel=None, nullspec=None):
        mode = mode or rng.choice(MODES)
        ns = None
        if mode.startswith("null_"):
            ns = dict(nullspec) if nullspec else {
                "dtype": rng.choice(NULL_DTYPES if mode == "null_initial" else NULL_DTYPES[:4]), "pattern": rng.choice(NULL_PATTERNS + ["all"]),
                "who": rng.choice(NULL_WHO + ["first"]), "nullobj": rng.choice(["none", "nan"]),
                "order": rng.choice(NULL_ORDERS + ["owner-first"]) if mode == "null_initial" else "owner-first"}
        ncomp = rng.randint(1, 3)
        if mode in OVERLAP:
            ncomp = max(ncomp, 2)
        xpair = rng.choice(XPAIRS) if xpair is None else tuple(xpair)
        xrel = rng.choice(XRELS) if xrel is None else xrel
        names = iter(["x", "y", "z", "u", "v", "w"])
        comps, dt = [], {"tracked": "bool"}
        for j in range(ncomp):
            cols = [[next(names), rng.choice(DTYPES)] for _ in range(rng.randint(1, 2))]
            for c, d in cols:
                dt[c] = d
            if mode.startswith("xdtype"):
                cols[0][1] = xpair[0]             # any component's first column may be the one that is re-supplied
            if ns:
                cols[0][1] = dt[cols[0][0]] = ns["dtype"]
                if ns["order"] == "other-first" and len(cols) < 2:          # its creator runs second and must still bring something new
                    cols.append([next(names), rng.choice(DTYPES)])
                    dt[cols[1][0]] = cols[1][1]
            comps.append({"name": f"c{j}", "cols": cols, "views": [], "requires": [comps[j - 1]["cols"][0][0]] if j else []})
        # views: the component's own columns (+ the first column of the previous component for the overlap modes, + zz)
        for j, c in enumerate(comps):
            vc = [x for x, _ in c["cols"]]
            if j and mode in OVERLAP:
                vc = vc + [comps[j - 1]["cols"][0][0]]
            if mode == "newcol_birth":
                vc = vc + ["zz"]
            c["views"].append({"id": 10 + j, "cols": vc, "q": ["T"]})
        comps[0]["views"].append({"id": 30, "cols": [], "q": ["T"]})
        for c in comps:
            if rng.random() < 0.3:
                c["reg"] = "component"            # registered by Component (on_initialize_simulants + columns_created)
        # initializers that create NO column (resource type "null"), in the three ways one can be registered
        nocol = rng.choice(["none", "none", "builder", "component", "ledger", "all"]) if nocol is None else nocol
        owned = [c["cols"][0][0] for c in comps]
        if nocol in ("builder", "all"):
            comps.append({"name": "wb", "cols": [], "views": [], "reg": "builder", "requires": rng.choice([[], [rng.choice(owned)]])})
        if nocol in ("component", "all"):
            comps.append({"name": "wc", "cols": [], "views": [], "reg": "component", "requires": rng.choice([[], [rng.choice(owned)]])})
        if nocol in ("ledger", "all"):
            comps[0]["ledgers"] = ["ledger"]
        pop = (0 if mode == "zero_pop" else rng.choice([1, 2, 3, 4, 6])) if pop is None else pop
        clock = {"kind": rng.choice(["simple", "simple", "datetime"]), "step": rng.choice([1, 1, 2, 3])}
        if clock["kind"] == "simple":
            clock["start"] = rng.choice([0, 0, 5])
        steps = rng.randint(1, 3)

        def fill(j, labels, overlap=None, extra_zz=False, drop_row=False, only_existing=False):
            """the update made by component j's initializer for `labels`"""
            c = comps[j]
            rows = list(labels)
            r = rng.random()
            if r < 0.3:
                rng.shuffle(rows)
            elif r < 0.55:
                rows.reverse()                    # with a range kind: a DESCENDING range object (reaching 0 at the initial creation)
            cols = [[x, d, tk.value_tokens(d, rng, len(rows), allow_null=d != "int" and rng.random() < 0.3,
                                           nulls=rng.choice([None] * 8 + ["all", "one"]))] for x, d in c["cols"]]
            if mode.startswith("xdtype"):
                x, d = c["cols"][0]
                cols[0][2] = ([f"s{rng.randint(0, 9)}" for _ in rows] if (d, xpair[1]) == ("str", "int")
                              else [f"i{rng.randint(0, 1)}" for _ in rows] if (d, xpair[1]) == ("int", "bool")
                              else tk.value_tokens(d, rng, len(rows), allow_null=False))
            if overlap is not None:
                cols.append(overlap(rows))
            if only_existing:
                cols = [overlap(rows)]
            if extra_zz:
                cols.append(["zz", "int", tk.value_tokens("int", rng, len(rows))])
            if drop_row and len(rows) > 1:
                k = rng.randrange(len(rows))
                rows.pop(k)
                for col in cols:
                    col[2].pop(k)
            rng.shuffle(cols)
            act = {"a": "upd", "view": 10 + j, "form": "D", "rows": rows, "cols": cols, "catch": False, "ikind": rng.choice(IKINDS)}
            if ns:
                act["nullobj"] = ns["nullobj"]
            if len(cols) == 1 and rng.random() < 0.3:
                act["form"] = "S"
            return act

        def null_pair(d, labels):
            """what the provider that runs first / second supplies for the shared column, by label: the two differ only where
            one side is null (`who` first / second), not at all (both-same), or in one cell of two partly-null sets (both-differ)"""
            full = tk.value_tokens(d, rng, len(labels), allow_null=False)
            holes = tk.value_tokens(d, rng, len(labels), nulls=ns["pattern"])
            holes = [h if h == "n" else f for h, f in zip(holes, full)]
            if ns["who"] == "first":
                t1, t2 = holes, full
            elif ns["who"] == "second":
                t1, t2 = full, holes
            elif ns["who"] == "both-same":
                t1, t2 = holes, list(holes)
            else:
                t1, t2 = holes, list(holes)
                k = rng.randrange(len(labels))
                t2[k] = full[k] if t1[k] == "n" else "n"
            return dict(zip(labels, t1)), dict(zip(labels, t2))

        def with_col(act, name, d, by_label):
            """the fill `act` with the shared column `name` set to (or added with) the given values"""
            cols = [c for c in act["cols"] if c[0] != name] + [[name, d, [by_label[r] for r in act["rows"]]]]
            rng.shuffle(cols)
            return dict(act, form="D", cols=cols)

        def null_kind(birth):
            return f"null:{'birth' if birth else 'initial'}:{ns['dtype']}:{ns['pattern']}:{ns['who']}:{ns['order']}"

        def extras(labels, birth):
            """what a well-behaved initializer may do besides filling its columns: look at the population, read through the
            whole-table view that c0 obtained, and - at a birth - try to untrack an existing simulant (rejected: the cell is
            not null and the value differs) or re-assert its current tracked value"""
            out = []
            if rng.random() < 0.25:
                out.append({"a": "pop", "untracked": rng.random() < 0.5, "via": rng.choice(["sim", "manager", "default"]),
                            "mutate": rng.random() < 0.5})
            if rng.random() < 0.3:
                last = labels[-1] if labels else -1
                idx = rng.choice([list(labels) + ([0] if labels and labels[0] > 0 else []), list(labels)[::-1], list(range(last, -1, -1)),
                                  list(range(last, -1, -2)), list(range(0, last + 1, 2))])
                out.append({"a": "get", "view": 30, "idx": idx, "q": ["T"],
                            "noq": rng.random() < 0.5, "ikind": rng.choice(IKINDS), "mutate": rng.random() < 0.5})
            if birth and labels and labels[0] > 0 and rng.random() < 0.2:
                out.append({"a": "upd", "view": 0, "form": "S", "rows": [rng.randrange(labels[0])], "catch": True,
                            "cols": [["tracked", "bool", [rng.choice(["b0", "b1"])]]]})
            return out

        given = {}      # (col, label) -> token supplied by the owner (to build equal / conflicting duplicates)

        def remember(act):
            for name, _, toks in act["cols"]:
                for r, v in zip(act["rows"], toks):
                    given[(name, r)] = v

        def overlap_of(j, same, keep_order_of=None):
            oc = comps[j - 1]["cols"][0][0]

            def mk(rows):
                toks = [given[(oc, r)] for r in rows]
                if not same and rows:
                    k = rng.randrange(len(rows))
                    alt = tk.value_tokens(dt[oc], rng, 1, allow_null=False)[0]
                    while tk.norm_tok(alt) == tk.norm_tok(toks[k]):
                        alt = tk.value_tokens(dt[oc], rng, 1, allow_null=False)[0] + ("q" if dt[oc] == "str" else "")
                        if dt[oc] == "bool":
                            alt = "b0" if toks[k] == "b1" else "b1"
                    toks[k] = alt
                return [oc, dt[oc], toks]
            return mk

        def overlap_x(j):
            """the previous component's first column re-supplied in another dtype: `equal` = the same Python values, `differ` =
            clearly other values, `lossy` = values that differ but would coincide after a cast to the column's dtype"""
            oc, d = comps[j - 1]["cols"][0]
            ud = xpair[1]

            def conv(t, rel):
                v = tk.untok(t)
                if (d, ud) in (("int", "flt"), ("int", "i32"), ("flt", "int"), ("flt", "f32")):
                    if ud in ("int", "i32"):
                        base = int(v)                                           # (a fractional float offered as int: lossy by itself)
                        return f"i{base + (3 if rel == 'differ' else 0)}"
                    x = float(v) + (3 if rel == "differ" else 0.5 if rel == "lossy" and d == "int" else 0)
                    return tk.ftok(x)
                if (d, ud) == ("int", "bool"):
                    return "b1" if (v != 0) != (rel == "differ") else "b0"
                if d == "bool":
                    n = (1 if v else 0) if rel == "equal" else ((0 if v else 1) if rel == "differ" else (2 if v else 0))
                    return f"i{n}" if ud == "int" else tk.ftok(float(n) + (0.5 if rel == "lossy" and v else 0))
                if (d, ud) == ("str", "int"):
                    return f"i{int(v) + (1 if rel == 'differ' else 0)}"        # "3" vs 3: other Python values, equal after astype(str)
                # str / cat / obj among each other: the same text, or another category
                return t if rel != "differ" else "s" + rng.choice([c for c in tk.CATS if c != v])

            def mk(rows):
                toks = [given[(oc, r)] for r in rows]
                if xrel == "equal":
                    new = [conv(t, "equal") for t in toks]
                else:
                    k = rng.randrange(len(rows)) if rows else 0
                    new = [conv(t, xrel if i == k or rng.random() < 0.3 else "equal") for i, t in enumerate(toks)]
                return [oc, ud, new]
            return mk

        # initial creation
        init = {}
        labels0 = list(range(pop))
        bad_j = rng.randrange(1, ncomp) if ncomp > 1 else 0
        null_init = {}
        if ns and ns["order"] == "other-first":
            o, b = comps[bad_j - 1], comps[bad_j]
            b["requires"], o["requires"] = list(o["requires"]), [b["cols"][0][0]]      # the creator of the column waits for the other one
        if mode == "null_initial" and pop:
            oj, bj = bad_j - 1, bad_j
            oc, d = comps[oj]["cols"][0]
            first_j, second_j = (oj, bj) if ns["order"] == "owner-first" else (bj, oj)
            t1, t2 = null_pair(d, labels0)
            a1 = with_col(fill(first_j, labels0), oc, d, t1)                            # all its columns are new: accepted
            a2 = self._reorder(with_col(fill(second_j, labels0), oc, d, t2), labels0)    # brings new column(s) of its own as well
            a2["catch"], a2["kind"] = rng.random() < 0.5, null_kind(False)
            null_rejected = [tk.norm_tok(t1[r]) for r in labels0] != [tk.norm_tok(t2[r]) for r in labels0]
            null_init = {first_j: [a1], second_j: [a2]}
            if a2["catch"] and null_rejected:                                            # then the component does (the rest of) its own job
                own = fill(second_j, labels0)
                own = dict(own, form="D", cols=[c for c in own["cols"] if c[0] != oc])
                if own["cols"]:
                    null_init[second_j].append(own)
            for r in labels0:
                given[(oc, r)] = t1[r]
        for j in range(ncomp):
            acts = []
            if j in null_init:
                acts = null_init[j]
                init[f"c{j}"] = acts
                continue
            if mode in ("conflict_initial", "sloppy_initial") and j == bad_j and pop:
                a = fill(j, labels0, overlap=overlap_of(j, same=(mode == "sloppy_initial")))
                a = self._reorder(a, labels0)                     # `equals` compares positionally: keep the table's order
                acts.append(a)
            elif mode == "xdtype_initial" and j == bad_j and pop:
                a = self._reorder(fill(j, labels0, overlap=overlap_x(j)), labels0)
                a["catch"] = rng.random() < 0.5
                a["kind"] = f"xdtype:{xpair[0]}<-{xpair[1]}:{xrel}"
                acts.append(a)
                if a["catch"]:
                    acts.append(fill(j, labels0))                  # then the component does its own job properly
            elif mode == "missing_rows_initial" and j == bad_j and pop > 1:
                acts.append(fill(j, labels0, drop_row=True))
            else:
                acts.append(fill(j, labels0))
            if mode == "nonew_initial" and j == bad_j and pop:
                again = dict(acts[0], cols=[list(c) for c in acts[0]["cols"]], catch=rng.random() < 0.5)
                again = self._reorder(again, labels0)
                acts.append(again)
            for a in (acts[-1:] if mode == "xdtype_initial" and j == bad_j else acts[:1]):
                remember({"rows": a["rows"], "cols": [c for c in a["cols"] if c[0] in [x for x, _ in comps[j]["cols"]]]})
            init[f"c{j}"] = acts
        aborted = (mode in ("conflict_initial",) and pop > 0) or (mode == "missing_rows_initial" and pop > 1) or \
                  (mode == "xdtype_initial" and pop > 0 and not init[f"c{bad_j}"][0]["catch"]) or \
                  (mode == "nonew_initial" and pop > 0 and not init[f"c{bad_j}"][1]["catch"]) or \
                  (mode == "null_initial" and pop > 0 and null_rejected and not a2["catch"])
        hooks = {}
        n = pop
        special_done = False
        if not aborted:
            for s in range(steps):
                for ph in tk.PHASES:
                    for j in range(len(comps)):
                        if rng.random() > (0.3 if j < ncomp else 0.15):
                            continue
                        acts = []
                        for _ in range(rng.randint(1, 2)):
                            r = rng.random()
                            if r < 0.55:
                                k = rng.choice([0, 1, 1, 2, 3])
                                labels = list(range(n, n + k))
                                fills = {}
                                stop = False
                                null_now = mode == "null_birth" and not special_done and k > 0
                                if null_now:
                                    oc, d = comps[bad_j - 1]["cols"][0]
                                    t1, t2 = null_pair(d, labels)
                                for q in range(ncomp):
                                    special = (not special_done and q == bad_j and k > 0 and mode.endswith("_birth"))
                                    if null_now and q == bad_j - 1:            # the creator of the column runs first …
                                        fills[f"c{q}"] = extras(labels, True) + [with_col(fill(q, labels), oc, d, t1)]
                                    elif null_now and q == bad_j:              # … then another component supplies the column again
                                        a = with_col(fill(q, labels), oc, d, t2)
                                        a["catch"], a["kind"] = rng.random() < 0.5, null_kind(True)
                                        # the code that exists: a conflict only if the column holds something non-null for these simulants
                                        rejected = any(t1[r] != "n" for r in labels) and any(tk.norm_tok(t1[r]) != tk.norm_tok(t2[r]) for r in labels)
                                        fills[f"c{q}"] = [a] + ([fill(q, labels)] if a["catch"] and rejected else [])
                                        stop = rejected and not a["catch"]
                                    elif special and mode == "newcol_birth":
                                        a = fill(q, labels, extra_zz=True)
                                        a["catch"] = rng.random() < 0.5
                                        fills[f"c{q}"] = [a] + ([fill(q, labels)] if a["catch"] else [])
                                        stop = not a["catch"]
                                    elif special and mode in ("conflict_birth", "sloppy_birth") and q > 0:
                                        a = fill(q, labels, overlap=overlap_of(q, same=(mode == "sloppy_birth")))
                                        fills[f"c{q}"] = [a]
                                        stop = mode == "conflict_birth"
                                    elif special and mode == "xdtype_birth" and q > 0:
                                        a = fill(q, labels, overlap=overlap_x(q))
                                        a["catch"] = rng.random() < 0.5
                                        a["kind"] = f"xdtype:{xpair[0]}<-{xpair[1]}:{xrel}"
                                        fills[f"c{q}"] = [a] + ([fill(q, labels)] if a["catch"] else [])
                                        stop = not a["catch"]
                                    elif special and mode == "partial_birth" and k > 1 and all(d in ("flt", "str", "time") for _, d in comps[q]["cols"]):
                                        fills[f"c{q}"] = [fill(q, labels, drop_row=True)]
                                    else:
                                        fills[f"c{q}"] = extras(labels, True) + [fill(q, labels)]
                                    if special:
                                        special_done = True
                                    last = fills[f"c{q}"][-1]
                                    remember({"rows": last["rows"], "cols": [c for c in last["cols"] if c[0] in [x for x, _ in comps[q]["cols"]]]})
                                    if stop:
                                        break
                                acts.append({"a": "create", "k": k, "comp": comps[j]["name"], "fills": fills,
                                             "user": rng.choice([None, {"tag": "b"}])})
                                n += k
                                if stop:
                                    aborted = True
                                elif rng.random() < 0.2 and not any(a.get("kind") for f in fills.values() for a in f):
                                    # the same creation request again, right away: the same count, user data and initial values
                                    again = {"a": "create", "k": k, "comp": comps[j]["name"], "user": copy.deepcopy(acts[-1]["user"]),
                                             "move": "repeat:create", "fills": {}}
                                    for cn, f in fills.items():
                                        again["fills"][cn] = [dict(copy.deepcopy(a), rows=[r0 + k for r0 in a["rows"]]) for a in f
                                                              if a["a"] == "upd" and a["view"] != 0]
                                        for a in again["fills"][cn]:
                                            remember({"rows": a["rows"], "cols": [c for c in a["cols"] if c[0] in [x for x, _ in comps[int(cn[1:])]["cols"]]]})
                                    acts.append(again)
                                    n += k
                            elif r < 0.62 and n and comps[j]["cols"] and rng.random() < 0.5:
                                # lesson 12: this component writes U through its own view, somebody overwrites a cell through c0's
                                # whole-table view (or: the tracked column through the manager's view vs the whole-table view), a
                                # read in between, then U again verbatim
                                rows = rng.sample(range(n), rng.randint(1, min(n, 3)))
                                plain = [c for c in comps[j]["cols"] if c[1] != "obj"]
                                if plain and rng.random() < 0.6:
                                    x, d = rng.choice(plain)
                                    v, toks = 10 + j, tk.value_tokens(d, rng, len(rows), allow_null=False)
                                    alt = tk.value_tokens(d, rng, 1, allow_null=False)[0]
                                    if d == "bool":
                                        alt = "b0" if toks[0] == "b1" else "b1"
                                    elif tk.norm_tok(alt) == tk.norm_tok(toks[0]):
                                        alt = {"int": "i77", "flt": "f77/1", "str": "sz" if toks[0] != "sz" else "sy", "cat": "sz" if toks[0] != "sz" else "sy",
                                               "time": f"t{tk.T0 + 20 * tk.DAY}"}[d]
                                else:
                                    x, d, v = "tracked", "bool", 0
                                    toks = [rng.choice(["b0", "b1"]) for _ in rows]
                                    alt = "b0" if toks[0] == "b1" else "b1"
                                u = {"a": "upd", "view": v, "form": rng.choice(["S", "D"]), "rows": rows, "cols": [[x, d, toks]],
                                     "ikind": rng.choice(IKINDS), "move": "first-write"}
                                acts += [u, {"a": "upd", "view": 30, "form": "D", "rows": [rows[0]], "cols": [[x, d, [alt]]], "move": "overwrite-by-another-handle"}]
                                if rng.random() < 0.5:
                                    acts.append({"a": "get", "view": v, "idx": rows, "q": ["T"], "mutate": rng.random() < 0.5, "move": "read-in-between"})
                                acts.append(dict(copy.deepcopy(u), move="repeat:verbatim"))
                            elif r < 0.62:
                                acts.append({"a": "pop", "untracked": rng.random() < 0.5, "via": rng.choice(["sim", "manager", "default"]),
                                             "mutate": rng.random() < 0.5})
                            elif r < 0.68:
                                kk = rng.randint(1, max(1, n))                 # the listener's index as handed over, or sliced the way components do
                                acts.append({"a": "get", "view": rng.choice([30, 10]), "q": ["T"], "noq": rng.random() < 0.5, "mutate": rng.random() < 0.5,
                                             "idx": rng.choice(["event", "event", {"from": "event", "slices": [[None, None, -1]]},
                                                                {"from": "event", "slices": [[None, kk, None], [None, None, -1]]},
                                                                {"from": "event", "slices": [[None, None, rng.choice([2, -2, -3])]]},
                                                                {"from": "pop", "slices": [[None, None, -1]]}])})
                            elif r < 0.85 and n:
                                rows = rng.sample(range(n), rng.randint(1, min(n, 3)))
                                acts.append({"a": "upd", "view": 0, "form": "S", "rows": rows,
                                             "cols": [[rng.choice([None, "tracked"]), "bool", [rng.choice(["b0", "b0", "b1"]) for _ in rows]]]})
                            elif n and comps[j]["cols"]:
                                rows = rng.sample(range(n), rng.randint(1, min(n, 3)))
                                x, d = rng.choice(comps[j]["cols"])
                                if d == "obj":
                                    continue          # (an object column that was written once reads back as `str`: only its creation is exercised)
                                acts.append({"a": "upd", "view": 10 + j, "form": rng.choice(["D", "D", "S"]), "rows": rows, "ikind": rng.choice(IKINDS),
                                             "cols": [[x, d, tk.value_tokens(d, rng, len(rows), allow_null=False, nulls=rng.choice([None, None, None, "all", "one"]))]]})
                            if aborted:
                                break
                        if acts:
                            hooks[f"{s}:{ph}:{comps[j]['name']}"] = acts
                        if aborted:
                            break
                    if aborted:
                        break
                if aborted:
                    break
        return {"comps": comps, "pop": pop, "clock": clock, "init": init, "steps": steps, "hooks": hooks, "ops": [],
                "mode": mode, "seeds": [rng.choice([1, 2, 3])]}

    @staticmethod
    def _reorder(act, labels):
        """put the rows of an update in table order (Series.equals is positional)"""
        pos = {r: i for i, r in enumerate(act["rows"])}
        order = [pos[r] for r in labels if r in pos]
        return dict(act, rows=[act["rows"][i] for i in order], cols=[[c[0], c[1], [c[2][i] for i in order]] for c in act["cols"]])

    # ------------------------------------------------------------------ oracle (the property itself)
    def oracle(self, case, obs):
        fails = self.seed_failures(case, obs)

        def fail(sig, msg):
            fails.append({"sig": sig, "msg": msg})

        clock = case.get("clock", {"kind": "simple", "step": 1})
        step = clock["step"] if clock["kind"] == "simple" else clock["step"] * tk.DAY
        start = clock.get("start", 0) if clock["kind"] == "simple" else tk.T0
        pre = "i" if clock["kind"] == "simple" else "t"
        handed = set()
        supplied = {}          # creation no -> {(simulant, column): (token, component)} from the updates accepted so far in that creation
        creations = {}
        cur_event = None
        probes = [c["name"] for c in case["comps"]] + [l for c in case["comps"] for l in c.get("ledgers", [])]
        for i, e, prev, cr in tk.walk(obs):
            t = e["t"]
            if t == "event":
                cur_event = e
            elif t == "create":
                creations[e["no"]] = {"create": e, "inits": [], "pos": i, "event": cur_event if e["no"] else None}
                n0 = len(e["before"]["rows"]) if e.get("before") else 0
                want = list(range(n0, n0 + e["k"]))
                # creation time and window: the clock and step at the moment of the call
                j = None if e["no"] == 0 else (creations[e["no"]]["event"] or {}).get("step")
                exp_clock = start - step if e["no"] == 0 else (None if j is None else start + j * step)
                if exp_clock is not None and e.get("clock") != f"{pre}{exp_clock}":
                    fail("creation-clock", f"log {i} creation {e['no']}: clock at the call is {e.get('clock')}, expected {pre}{exp_clock}")
                if e["out"] == "ok":
                    if e["labels"] != want:
                        fail("labels-wrong", f"log {i} creation {e['no']} of {e['k']} with {n0} simulants in the table returned {e['labels']}, expected {want}")
                    reused = [l for l in e["labels"] if l in handed or (e.get("before") and l in e["before"]["rows"])]
                    if reused:
                        fail("label-reused", f"log {i} creation {e['no']}: labels {reused} had been used before")
                    handed.update(e["labels"])
            elif t == "init":
                c = creations.get(e["no"])
                if c is None:
                    continue
                c["inits"].append(e)
                ce = c["create"]
                n0 = len(ce["before"]["rows"]) if ce.get("before") else 0
                want = list(range(n0, n0 + ce["k"]))
                if e["index"] != want:
                    fail("initializer-wrong-index", f"log {i}: initializer of {e['comp']} in creation {e['no']} got index {e['index']}, the new simulants are {want}")
                if e["time"] != ce.get("clock") or e["window"] != ce.get("step_size") or e["window"] != f"{pre}{step}":
                    fail("initializer-wrong-time", f"log {i}: initializer of {e['comp']} got creation_time {e['time']} / window {e['window']}; "
                                                   f"clock {ce.get('clock')} step {ce.get('step_size')}")
                want_user = {"sim_state": "setup"} if e["no"] == 0 else (ce.get("user") or {})
                if e["user"] != want_user:
                    fail("initializer-wrong-user-data", f"log {i}: initializer of {e['comp']} got user_data {e['user']}, expected {want_user}")
                self._existing(i, ce, e.get("table"), fail, during=True)
            elif t == "upd" and cr is not None:
                self._creation_update(i, e, prev, cr, fail, supplied.setdefault(cr.get("no"), {}))
            elif t == "endcreate":
                c = creations.get(e["no"])
                if c is None:
                    continue
                ce = c["create"]
                after = e.get("table")
                if e["ok"]:
                    seen = [x["comp"] for x in c["inits"]]
                    if sorted(seen) != sorted(probes):
                        fail("initializer-count", f"log {i}: creation {e['no']} completed but the initializers that ran were {seen} (components {probes})")
                    n0 = len(ce["before"]["rows"]) if ce.get("before") else 0
                    if after is None or after["rows"] != list(range(n0 + ce["k"])):
                        fail("create-rows", f"log {i}: after creation {e['no']} the index is {after and after['rows']}, expected 0..{n0 + ce['k'] - 1}")
                        continue
                    self._existing(i, ce, after, fail, during=False)
                    tr = tk.col_of(after, "tracked")
                    if tr is None or tr[1] != "bool" or any(v != "b1" for v in tr[2][n0:]):
                        fail("new-not-tracked", f"log {i}: tracked after creation {e['no']}: {tr}")
                    if ce["k"] == 0 and ce.get("before") is not None and tk.table_diff(ce["before"], after):
                        fail("create-zero-changed", f"log {i}: creating nobody changed the table: {tk.table_diff(ce['before'], after)}")
                    if ce.get("before") is not None and [c0[0] for c0 in after["cols"]] != [c0[0] for c0 in ce["before"]["cols"]]:
                        fail("birth-added-columns", f"log {i}: columns {[c0[0] for c0 in ce['before']['cols']]} -> {[c0[0] for c0 in after['cols']]}")
                else:
                    self._existing(i, ce, after, fail, during=True)
                    # a creation may only fail because an initializer did something the property forbids
                    culprit = None
                    for j2, e2, prev2, cr2 in tk.walk(obs):
                        if c["pos"] < j2 < i and e2["t"] == "upd" and cr2 is ce and e2["out"] != "ok" and not e2["caught"]:
                            culprit = (j2, e2, prev2)
                    if culprit is None:
                        fail("creation-raised", f"log {i}: creation {e['no']} ({ce['out']}) raised although no initializer update was rejected")
                    else:
                        j2, e2, prev2 = culprit
                        if self._verdict(e2["spec"], prev2, ce) == "fine":
                            fail("well-behaved-initializer-rejected",
                                 f"log {j2}: update {tk.upd_line(e2['spec'])} of a well-behaved initializer was rejected ({e2['out']}) in creation {e['no']}")
        fails += tk.held_failures(obs) + tk.population_failures(obs) + tk.history_failures(case, obs) + tk.read_failures(case, obs)
        return fails

    @staticmethod
    def _verdict(spec, prev, ce):
        """'forbidden' (the property says: reject), 'fine' (fills only empty cells of existing columns with their own dtype,
        for all the new simulants), or 'unclear' (no opinion)"""
        if spec["form"] == "X" or prev is None:
            return "unclear"
        initial = ce.get("before") is None
        have = {c[0]: c for c in prev["cols"]}
        names = [c[0] if c[0] is not None else "tracked" for c in spec["cols"]]
        n0 = len(ce["before"]["rows"]) if ce.get("before") else 0
        new_labels = list(range(n0, n0 + ce["k"]))
        if any(r not in prev["rows"] for r in spec["rows"]):
            return "forbidden"
        if initial:
            if sorted(spec["rows"]) != sorted(prev["rows"]) or all(n in have for n in names):
                return "forbidden"
            over = [n for n in names if n in have]
            return "fine" if not over else "unclear"
        if any(n not in have for n in names):
            return "forbidden"
        verdict = "fine"
        for (name, dt, toks), n in zip(spec["cols"], names):
            was = [tk.cell(prev, r, n) for r in spec["rows"]]
            if any(w != "n" and not tk.same_value(tk.norm_tok(w), tk.norm_tok(v)) for w, v in zip(was, toks)):
                return "forbidden"
            logical = tk.col_of(ce["before"], n)[1] if tk.col_of(ce["before"], n) else have[n][1]
            if any(w != "n" for w in was) or dt != logical or sorted(spec["rows"]) != new_labels:
                verdict = "unclear"
        return verdict

    @staticmethod
    def _existing(i, ce, table, fail, during):
        """the simulants that existed before the creation hold what they held"""
        b = ce.get("before")
        if b is None or table is None:
            return
        for name, dt, vals in b["cols"]:
            now = tk.col_of(table, name)
            if now is None:
                fail("existing-column-lost", f"log {i}: column {name} disappeared during creation {ce['no']}")
                return
            for r, v in zip(b["rows"], vals):
                w = tk.cell(table, r, name)
                if w is None or not tk.same_value(tk.norm_tok(v), tk.norm_tok(w)):
                    fail("existing-simulant-changed", f"log {i}: cell ({r},{name}) was {v} before creation {ce['no']}, is {w} "
                                                      f"{'inside an initializer' if during else 'afterwards'}")
                    return
            if not during and now[1] != dt and all(x != "n" for x in now[2]):
                fail("existing-dtype-changed", f"log {i}: dtype of {name} was {dt} before creation {ce['no']}, is {now[1]} afterwards")

    @staticmethod
    def _creation_update(i, e, prev, cr, fail, supplied):
        """rules for updates made by initializers: new columns only at the initial creation, conflicting values rejected.
        NULL IS A VALUE (lesson 15): while the initial population is built a column is in the table only because another
        component has supplied it, so a null cell IS that component's initial value and null vs value is a conflict. At a
        birth the table cannot tell "not supplied yet" from "supplied null"; there only non-null held cells are judged;
        `supplied` (who has supplied what in this creation) is used to COUNT the null-then-value case, not to judge it."""
        spec = e["spec"]
        if spec["form"] == "X" or prev is None:
            return
        initial = cr.get("before") is None
        have = {c[0]: c for c in prev["cols"]}
        names = [c[0] if c[0] is not None else "tracked" for c in spec["cols"]]
        ok = e["out"] == "ok"
        if not ok and tk.table_diff(prev, e["table"], dtypes=False, exact=False):
            fail("rejected-update-changed-table", f"log {i}: rejected update {tk.upd_line(spec)} changed the table: {tk.table_diff(prev, e['table'], dtypes=False, exact=False)}")
        new = [n for n in names if n not in have]
        if new and not initial and ok:
            fail("new-column-at-birth-accepted", f"log {i}: update {tk.upd_line(spec)} brings new columns {new} at a birth and was accepted")
        if not initial and e["table"] is not None and [c[0] for c in e["table"]["cols"]] != [c[0] for c in prev["cols"]]:
            fail("birth-added-columns", f"log {i}: columns changed by {tk.upd_line(spec)} at a birth")

        def differ(w, v):
            if w == "n" or v == "n":
                return w != v
            return not tk.same_value(tk.norm_tok(w), tk.norm_tok(v))

        # conflicting values: the column already holds something for these simulants and the update says otherwise
        for (name, dt, toks), n in zip(spec["cols"], names):
            if n not in have:
                continue
            pairs = [(r, tk.cell(prev, r, n), v) for r, v in zip(spec["rows"], toks) if r in prev["rows"]]
            if initial and n != "tracked":
                diff = [p for p in pairs if differ(p[1], p[2])]
                if diff and ok:
                    nulls = any(p[1] == "n" or p[2] == "n" for p in diff)
                    fail("conflicting-values-accepted", f"log {i}: while the initial population is built, update {tk.upd_line(spec)} supplies "
                         f"{'(null vs value) ' if nulls else ''}other initial values {diff[:3]} (simulant, held, supplied) for column {n}, which "
                         f"another component has already supplied, and was accepted")
                continue
            diff = [p for p in pairs if p[1] != "n" and differ(p[1], p[2])]
            if diff and ok:
                fail("conflicting-values-accepted", f"log {i}: update {tk.upd_line(spec)} contradicts existing values {diff[:3]} in column {n} and was accepted")
            # No opinion (coordinator's decision, "observed, not findings" in the report): at a birth the new rows exist as null
            # cells before any initializer runs, so when every value the earlier provider wrote for these simulants is null the
            # table - and the property, which needs two VALUES - cannot tell "supplied null" from "not supplied yet"; the code
            # accepts a later value there. Counted in the distribution (`observed:birth-null-then-value-accepted`), not judged.
            if ok and not diff and any(w == "n" and v != "n" and supplied.get((r, n), ("", None))[0] == "n"
                                       and supplied[(r, n)][1] != e.get("comp") for r, w, v in pairs):
                e["observed_null_then_value"] = True
        if ok:
            for (name, dt, toks), n in zip(spec["cols"], names):
                for r, v in zip(spec["rows"], toks):
                    supplied.setdefault((r, n), (v, e.get("comp")))

    # ------------------------------------------------------------------ reporting
    def nontrivial(self, case, obs):
        return any(e["t"] == "create" and e["no"] > 0 and e["k"] > 0 and e["out"] == "ok" for e in obs["log"])

    def tags(self, case, obs):
        t = ["nocol-initializer:" + (c.get("reg", "builder") if not c["cols"] else "") for c in case["comps"] if not c["cols"]]
        t += ["nocol-initializer:ledger" for c in case["comps"] for _ in c.get("ledgers", [])]
        t += ["registered-by-component" for c in case["comps"] if c.get("reg") == "component" and c["cols"]]
        for acts in list(case.get("init", {}).values()) + [f for h in case.get("hooks", {}).values() for a in h if a["a"] == "create"
                                                           for f in a["fills"].values()]:
            t += [a["kind"] for a in acts if a.get("kind")]
        t += ["move:" + a["move"] for h in case.get("hooks", {}).values() for a in h if a.get("move")]
        t += ["mode:" + case.get("mode", "?"), "clock:" + case["clock"]["kind"], f"comps:{len(case['comps'])}", f"pop:{min(case['pop'], 6)}"]
        for i, e, prev, cr in tk.walk(obs):
            if e["t"] == "create":
                ph = "initial" if e["no"] == 0 else "birth"
                t.append(f"create:{ph}:k{min(e['k'], 3)}:{'ok' if e['out'] == 'ok' else 'raised'}")
            elif e["t"] == "event":
                t.append("listener:" + e["phase"])
            elif e["t"] == "upd":
                where = "step" if cr is None else ("initial" if cr.get("before") is None else "birth")
                t.append(f"upd:{where}:{'ok' if e['out'] == 'ok' else 'rejected'}")
                if e["out"] != "ok":
                    t.append("exc:" + e["out"][4:])
            elif e["t"] == "endcreate" and not e["ok"]:
                t.append("creation-aborted")
            if e.get("observed_null_then_value"):
                t.append("observed:birth-null-then-value-accepted")
        if any(e["t"] == "upd" and cr is None and e["spec"]["view"] == 0 for _, e, _, cr in tk.walk(obs)):
            t.append("untracking-between-births")
        t += ["model-err:" + k for k in obs.get("model_errs", [])]
        return t + tk.form_tags(case, obs)


PROP = C13()
