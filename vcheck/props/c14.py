"""C14 — a pipeline value is source, then modifiers in order, then post-processing.

Tie: correspondence. Whole simulations with probe components that register sources and modifiers for
several pipelines (modifiers before the source, from other components, second sources, source-less
pipelines), both combiners, post-processors none / rescale (also through register_rate_producer) /
union / custom probe, per-simulant step sizes through `builder.time.register_step_size_modifier`.
Pipelines are called between steps and inside time_step listeners with permuted / partial indexes,
positional and keyword arguments, with and without `skip_post_processor`. Every probe logs its tag, the
arguments it received and what it returned. Driver/C14.lean runs the same registrations and calls on
the model (same exact rational effects) and must predict value and call trace.

Two number streams (DESIGN.md 2.5): *exact* – dyadic constants and step sizes 365·j/2^k days, every
intermediate checked to be exactly representable, compared through `float.as_integer_ratio()` for
equality; *general* – arbitrary floats, compared with relative tolerance 2^-40.
"""
from __future__ import annotations

import random
from fractions import Fraction as F

from .. import impl
from ..runner import Prop

YEAR_NS = 365 * 86400 * 10**9
DAY_NS = 86400 * 10**9
TOL = F(1, 2**40)


# ----------------------------------------------------------------------------------------------- values
def fr(s) -> F:
    return F(s)


def fs(x: F) -> str:
    return f"{x.numerator}/{x.denominator}"


def fnum(x) -> str:
    """a float of the implementation as an exact rational; NaN / inf (never produced by a correct run) as text"""
    x = float(x)
    return fs(F(x)) if x == x and abs(x) != float("inf") else "nan"


def pnum(t: str):
    return None if t == "nan" else F(t)


def canon(v):
    """implementation value -> the driver's value syntax (exact rationals of the floats)"""
    import numpy as np
    import pandas as pd
    if isinstance(v, pd.Series):
        return "v:" + ",".join(f"{int(i)}={fnum(x)}" for i, x in zip(v.index, v.values))
    if isinstance(v, pd.DataFrame):
        return "f:" + "|".join(f"{c}[" + ",".join(f"{int(i)}={fnum(x)}" for i, x in zip(v.index, v[c].values)) + "]" for c in v.columns)
    if isinstance(v, np.ndarray) and v.ndim == 0:
        return "s:" + fnum(v)
    if isinstance(v, np.ndarray):
        return "a:" + ",".join(fnum(x) for x in v)
    if isinstance(v, (list, tuple)):
        return "l:" + ";".join(canon(x) for x in v)
    if isinstance(v, (int, float, np.floating, np.integer)):
        return "s:" + fnum(v)
    return "?:" + type(v).__name__


def parse_val(s: str):
    """value syntax -> ('s', F) | ('v', [(label, F)]) | ('l', [items]) | ('?', text)"""
    if s.startswith("s:"):
        return ("s", pnum(s[2:]))
    if s.startswith("v:"):
        body = s[2:]
        return ("v", [(int(e.split("=")[0]), pnum(e.split("=")[1])) for e in body.split(",")] if body else [])
    if s.startswith("l:"):
        body = s[2:]
        return ("l", [parse_val(e) for e in body.split(";")] if body else [])
    if s.startswith("f:"):
        cols = []
        for c in s[2:].split("|"):
            name, body = c[:-1].split("[")
            cols.append((name, [(int(e.split("=")[0]), pnum(e.split("=")[1])) for e in body.split(",")] if body else []))
        return ("f", cols)
    if s.startswith("a:"):
        return ("a", [pnum(e) for e in s[2:].split(",")] if s[2:] else [])
    return ("?", s)


SCALE = [F(0)]      # magnitude of the intermediate values of the call being judged (general stream: a value that is a small
                    # difference of large intermediates carries their absolute rounding error)


def close(a, b) -> bool:
    if a is None or b is None:
        return False            # NaN is never a correct value
    return a == b or abs(a - b) <= TOL * max(abs(a), abs(b), SCALE[0])


def set_scale(rec):
    m = F(1)
    for t in rec.get("trace", []):
        for txt in (t["out"], t["prev"]):
            if txt:
                for _, x in cells(parse_val(txt)):
                    if x is not None and abs(x) > m:
                        m = abs(x)
    SCALE[0] = m


def val_eq(a, b, exact: bool) -> bool:
    if a[0] != b[0]:
        return False
    if any(x is None for _, x in cells(a)) or any(x is None for _, x in cells(b)):
        return False
    if a[0] == "s":
        return a[1] == b[1] if exact else close(a[1], b[1])
    if a[0] == "v":
        return len(a[1]) == len(b[1]) and all(i == j and (x == y if exact else close(x, y)) for (i, x), (j, y) in zip(a[1], b[1]))
    if a[0] == "l":
        return len(a[1]) == len(b[1]) and all(val_eq(x, y, exact) for x, y in zip(a[1], b[1]))
    if a[0] == "f":
        return len(a[1]) == len(b[1]) and all(n == m and val_eq(("v", x), ("v", y), exact) for (n, x), (m, y) in zip(a[1], b[1]))
    if a[0] == "a":
        return len(a[1]) == len(b[1]) and all((x == y if exact else close(x, y)) for x, y in zip(a[1], b[1]))
    return False


def cells(v):
    """(label | None, number) for every number in a numeric value"""
    if v[0] == "s":
        return [(None, v[1])]
    if v[0] == "v":
        return list(v[1])
    if v[0] == "a":
        return [(None, x) for x in v[1]]
    if v[0] == "f":
        return [c for _, col in v[1] for c in col]
    if v[0] == "l":
        return [c for it in v[1] for c in cells(it)]
    return []


def vmap(v, g):
    """apply g(label, x) to every number of a numeric value"""
    if v[0] == "s":
        return ("s", g(None, v[1]))
    if v[0] == "v":
        return ("v", [(i, g(i, x)) for i, x in v[1]])
    if v[0] == "a":
        return ("a", [g(None, x) for x in v[1]])
    if v[0] == "f":
        return ("f", [(n, [(i, g(i, x)) for i, x in col]) for n, col in v[1]])
    raise ValueError(v[0])


# ---------------------------------------------------------------------------- reference effects (Fractions)
def ref_gen(eff, idx, a):
    _, b, c, d = eff.split(":")
    b, c, d = fr(b), fr(c), fr(d)
    if idx is None:
        return ("s", b + d * a)
    return ("v", [(i, b + c * i + d * a) for i in idx])


def ref_frame(eff, idx, a):
    _, b, c, d, k = eff.split(":")
    b, c, d = fr(b), fr(c), fr(d)
    return ("f", [(f"c{j}", [(i, (b + F(j, 4)) + c * i + d * a) for i in idx]) for j in range(int(k))])


def ref_eff(eff, idx, a, prev):
    """the probe's effect over exact rationals"""
    k = eff.split(":")[0]
    if k == "gen":
        return ref_gen(eff, idx, a)
    if k == "lgen":
        return ("l", [ref_gen(eff, idx, a)])
    if k == "fgen":
        return ref_frame(eff, idx, a)
    if k == "lfgen":
        return ("l", [ref_frame(eff, idx, a)])
    if k == "agen":
        return ("a", [x for _, x in ref_gen(eff, idx, a)[1]])
    if k in ("mark", "tmark", "smark"):
        return ("l", [("s", fr(eff.split(":")[1]))])
    if k == "cmark":
        return ("s", fr(eff.split(":")[1]))
    if k == "app":
        return ("l", list(prev[1]) + [("s", fr(eff.split(":")[1]))])
    if k == "sq":
        return vmap(prev, lambda i, x: x * x)
    if k == "aff":
        _, p, q, r, s = eff.split(":")
        p, q, r, s = fr(p), fr(q), fr(r), fr(s)
        return vmap(prev, lambda i, x: p * x + q + s * a if i is None else p * x + q + r * i + s * a)
    raise ValueError(eff)


def intermediates(eff, idx, a, prev):
    """every partial result the float evaluation of the probe goes through"""
    k = eff.split(":")[0]
    out = []
    if k in ("gen", "lgen", "agen", "fgen", "lfgen"):
        b, c, d = (fr(x) for x in eff.split(":")[1:4])
        ncol = int(eff.split(":")[4]) if k in ("fgen", "lfgen") else 1
        for j in range(ncol):
            bj = b + F(j, 4)
            for i in (idx if idx is not None else [0]):
                out += [bj, c * i, bj + c * i, d * a, bj + c * i + d * a, bj + d * a]
    elif k == "aff":
        _, p, q, r, s = eff.split(":")
        p, q, r, s = fr(p), fr(q), fr(r), fr(s)
        for i, x in cells(prev):
            i = 0 if i is None else i
            out += [p * x, p * x + q, r * i, p * x + q + r * i, s * a, p * x + q + r * i + s * a, p * x + q + s * a]
    elif k == "sq":
        out += [x * x for _, x in cells(prev)]
    return out


def is_exact(x: F) -> bool:
    d = x.denominator
    return d & (d - 1) == 0 and abs(x.numerator).bit_length() <= 48 and d.bit_length() <= 48


def ref_rescale(v, steps):
    """annual value · step / year: the row's own step for indexed values (Series, DataFrame), the global step for
    values without an index (number, array)"""
    return vmap(v, lambda i, x: x * F(steps["g"] if i is None else steps["s"][i], YEAR_NS))


def ref_union(items):
    """1 - prod(1 - p) with scalar/Series broadcasting; a single value is returned as it is"""
    if len(items) == 1:
        return items[0]
    if any(it[0] == "f" for it in items):
        first = next(it for it in items if it[0] == "f")
        out = []
        for cpos, (name, col) in enumerate(first[1]):
            ncol = []
            for pos, (lab, _) in enumerate(col):
                prod = F(1)
                for it in items:
                    prod *= 1 - (it[1] if it[0] == "s" else it[1][cpos][1][pos][1])
                ncol.append((lab, 1 - prod))
            out.append((name, ncol))
        return ("f", out)
    labels = next((list(i for i, _ in it[1]) for it in items if it[0] == "v"), None)
    if labels is None:
        prod = F(1)
        for it in items:
            prod *= 1 - it[1]
        return ("s", 1 - prod)
    out = []
    for pos, lab in enumerate(labels):
        prod = F(1)
        for it in items:
            prod *= 1 - (it[1] if it[0] == "s" else it[1][pos][1])
        out.append((lab, 1 - prod))
    return ("v", out)


# ----------------------------------------------------------------------------------------- implementation
STEP_PIPE = "simulant_step_size"


def _run(case, prior=False):
    impl.load()
    import functools
    import numpy as np
    import pandas as pd
    from vivarium import Component
    from vivarium.framework.engine import SimulationContext
    from vivarium.framework.values import (list_combiner, replace_combiner, rescale_post_processor,
                                           union_post_processor)

    if case.get("prior") and not prior:
        # an earlier simulation in this process with other registrations under the same names (its results are dropped)
        _run(dict(case, prior=False, comps=[list(reversed(c)) for c in reversed(case["comps"])], mults=None, untrack=[],
                  calls=[dict(c, where="outside", after=0, handle="get_value") for c in case["calls"][:1]], stepsize_calls=[], late_regs=[]), prior=True)

    TRACE = []       # probe invocations of the current call
    REG = []         # registration outcomes in execution order
    CALLS = []       # call observations in execution order
    HANDLES = {}     # pipelines as returned by register_value_producer / register_rate_producer
    OBJECTS = {}     # (pipe, tag) -> the callable object that was registered (to register the very same object again)
    out = {"error": None, "late": [], "stepsize": [], "ops": []}

    def fl(s):
        return float(F(s))

    def decode(role, args, kwargs):
        """(idx | None, a | None, prev, extras) from what the probe received"""
        args = list(args)
        prev = None
        if role == "replace-mod" or role == "post":
            prev = args.pop()
        idx = None
        if args and isinstance(args[0], pd.Index):
            idx = args.pop(0)
        a = kwargs["a"] if "a" in kwargs else (args.pop(0) if args else None)
        extras = {"pos": [fnum(x) for x in args], "kw": {k: fnum(v) for k, v in sorted(kwargs.items()) if k != "a"}}
        return idx, a, prev, extras

    def effect(eff, idx, a, prev):
        k = eff.split(":")[0]
        c = [fl(x) for x in eff.split(":")[1:]]
        a = 0.0 if a is None else a
        if k in ("gen", "lgen"):
            v = (c[0] + c[2] * a) if idx is None else pd.Series([c[0] + c[1] * int(i) + c[2] * a for i in idx], index=idx, dtype=float)
            return v if k == "gen" else [v]
        if k in ("fgen", "lfgen"):
            v = pd.DataFrame({f"c{j}": [(c[0] + j / 4) + c[1] * int(i) + c[2] * a for i in idx] for j in range(int(c[3]))},
                             index=idx, dtype=float)
            return v if k == "fgen" else [v]
        if k == "agen":
            return np.array([c[0] + c[1] * int(i) + c[2] * a for i in idx], dtype=float)
        if k == "mark":
            return [c[0]]
        if k == "cmark":
            return c[0]
        if k == "tmark":
            return (c[0],)
        if k == "app":
            return (tuple(prev) + (c[0],)) if isinstance(prev, tuple) else list(prev) + [c[0]]
        if k == "sq":
            return prev * prev
        if k == "aff":
            if isinstance(prev, pd.DataFrame):
                return pd.DataFrame({col: [c[0] * float(x) + c[1] + c[2] * int(i) + c[3] * a for i, x in zip(prev.index, prev[col].values)]
                                     for col in prev.columns}, index=prev.index, dtype=float)
            if isinstance(prev, np.ndarray) and prev.ndim == 1:
                return np.array([c[0] * float(x) + c[1] + c[3] * a for x in prev], dtype=float)
            if isinstance(prev, pd.Series):
                return pd.Series([c[0] * float(x) + c[1] + c[2] * int(i) + c[3] * a for i, x in zip(prev.index, prev.values)],
                                 index=prev.index, dtype=float)
            return c[0] * float(prev) + c[1] + c[3] * a
        raise ValueError(eff)

    def shape_out(v, act, ncall=0):
        """the same numbers in the dtype / scalar type the case asks for (never normalised to float64); `alt`: integer dtype on
        every other call of the same callable (the representation varies ALONG the history)"""
        if isinstance(v, list):
            return [shape_out(x, act, ncall) for x in v]
        if act.get("dtype") == "int" or (act.get("dtype") == "alt" and ncall % 2 == 0):
            if isinstance(v, (pd.Series, pd.DataFrame, np.ndarray)):
                if v.size and bool(np.all(np.asarray(v) == np.floor(np.asarray(v)))):
                    return v.astype("int64")
            elif isinstance(v, float) and v == int(v):
                return int(v)
        if isinstance(v, float):
            return {"np": np.float64(v), "0d": np.array(v)}.get(act.get("scalar_kind"), v)
        return v

    def mk_probe(pipe, tag, eff, role, act):
        ncall, shared = [0], []

        def f(*args, **kwargs):
            idx, a, prev, extras = decode(role, args, kwargs)
            if role == "post":                 # post_processor(value, manager)
                idx, a, prev, extras = None, 0.0, args[0], {"pos": [], "kw": {}}
            if eff.startswith("smark:"):       # a source that owns ONE list object and returns that same object every time
                if not shared:
                    shared.append([fl(eff.split(":")[1])])
                res = shared[0]
            else:
                res = shape_out(effect(eff, idx, a, prev), act, ncall[0])
            ncall[0] += 1
            TRACE.append({"pipe": pipe, "tag": tag, "idx": None if idx is None else [int(i) for i in idx],
                          "a": None if a is None else fnum(a), "extra": extras,
                          "prev": None if prev is None else canon(prev), "out": canon(res)})
            return res
        f.__name__ = "probe_" + tag
        return f

    class _Holder:
        """owner of a bound-method probe"""
        def __init__(self, f, tag):
            self._f, self.tag = f, tag

        def method(self, *args, **kwargs):
            return self._f(*args, **kwargs)

    class _CallableObject:
        """an anonymous callable object: no `name`, no `__self__`, no `__name__`"""
        def __init__(self, f):
            self._f = f

        def __call__(self, *args, **kwargs):
            return self._f(*args, **kwargs)

    class _NamedCallable(_CallableObject):
        """a callable object with a `name` attribute (like a Pipeline or a lookup table)"""
        def __init__(self, f, name):
            super().__init__(f)
            self.name = name

    def as_callable(kind, f, tag):
        """the same probe as each kind of Python callable the framework may be handed"""
        if kind == "lambda":
            return lambda *args, **kwargs: f(*args, **kwargs)
        if kind == "method":
            return _Holder(f, tag).method
        if kind == "partial":
            return functools.partial(f)
        if kind == "object":
            return _CallableObject(f)
        if kind == "named":
            return _NamedCallable(f, "named_" + tag)
        return f

    def register(b, act, comp):
        """one registration call through the builder interface; returns the outcome class"""
        try:
            if act["op"] == "mod":
                role = "list-mod" if act["eff"].split(":")[0] in ("gen", "fgen", "cmark") else "replace-mod"
                key = (act["pipe"], act["tag"])
                if key not in OBJECTS or not act.get("same_object"):
                    OBJECTS[key] = as_callable(act.get("callable", "function"), mk_probe(act["pipe"], act["tag"], act["eff"], role, act), act["tag"])
                b.value.register_value_modifier(act["pipe"], OBJECTS[key])
            else:
                kind = act.get("source_kind", "probe")
                if kind == "table":            # a lookup table as the source (constant data broadcast over the index)
                    e = act["eff"].split(":")
                    data = fl(e[1]) if e[0] == "gen" else [fl(e[1]) + j / 4 for j in range(int(e[4]))]
                    src = b.lookup.build_table(data, value_columns=["value"] if e[0] == "gen" else [f"c{j}" for j in range(int(e[4]))])
                elif kind == "pipeline":       # another pipeline as the source
                    src = b.value.get_value(act["of"])
                else:
                    src = as_callable(act.get("callable", "function"), mk_probe(act["pipe"], act["tag"], act["eff"], "source", act), act["tag"])
                post = act["post"]
                if act.get("via") == "rate":
                    h = b.value.register_rate_producer(act["pipe"], source=src)
                else:
                    pp = {"none": None, "rescale": rescale_post_processor, "union": union_post_processor}.get(post, 0)
                    if pp == 0:
                        pp = as_callable(act.get("post_callable", "function"), mk_probe(act["pipe"], "post", post[2:], "post", {}), "post")
                    kw = {}
                    if act["comb"] == "list" or not act.get("default_combiner"):
                        kw["preferred_combiner"] = list_combiner if act["comb"] == "list" else replace_combiner
                    if pp is not None or not act.get("default_post"):
                        kw["preferred_post_processor"] = pp
                    h = b.value.register_value_producer(act["pipe"], source=src, **kw)
                HANDLES.setdefault(act["pipe"], h)
            return "ok"
        except Exception as e:  # noqa: BLE001
            return "err:" + type(e).__name__

    class Reg(Component):
        def __init__(self, k, acts):
            super().__init__()
            self.k, self.acts = k, acts

        @property
        def name(self):
            return f"c{self.k}"

        def setup(self, b):
            for act in self.acts:
                REG.append({"op": act["op"], "pipe": act["pipe"], "comp": self.name, "tag": act.get("tag", "src:" + self.name),
                            "outcome": register(b, act, self.name)})

    class Driver(Component):
        """obtains the pipelines, the clock's views of the step sizes, and calls pipelines inside listeners / an initializer"""

        def __init__(self):
            super().__init__()
            self.nstep = 0

        @property
        def name(self):
            return "driver"

        def setup(self, b):
            self.b = b
            self.get = b.value.get_value
            self.pipes = {c["pipe"]: b.value.get_value(c["pipe"]) for c in case["calls"] if not c.get("op")}
            self.step_pipe = b.value.get_value(STEP_PIPE)
            self.tracked = b.population.get_view(["tracked"])
            self.stepview = b.population.get_view(["step_size", "tracked"])
            self.gstep = b.time.step_size()
            self.sstep = b.time.simulant_step_sizes()
            self.clock = b.time.clock()
            if case["mults"] is not None:
                unit = pd.Timedelta(case["min_step_ns"], unit="ns")
                later = case.get("mults_later")         # [step number, multipliers]: the modifier's answer changes during the run

                def modifier(idx):
                    m = later[1] if later and self.nstep >= later[0] else case["mults"]
                    return pd.Series([unit * m[int(i)] for i in idx], index=idx)
                b.time.register_step_size_modifier(modifier)
            if any(c["where"] == "initializer" for c in case["calls"] if not c.get("op")):
                # an initializer that creates nothing and needs the clock's column: pipelines used during population creation
                b.population.initializes_simulants(self.first_use, creates_columns=[], requires_columns=["step_size"])

        def on_post_setup(self, e):
            # registrations after setup must be refused (and change nothing)
            for act in case.get("late_regs", []):
                out["late"].append(register(self.b, act, self.name))

        def first_use(self, pop_data):
            for ci, c in enumerate(case["calls"]):
                if c["where"] == "initializer" and not c.get("op"):
                    do_call(ci, c, created=pop_data.index)

        def on_time_step(self, e):
            self.nstep += 1
            # simulants leave the simulation: `tracked = False` written by this listener at the start of step `at`
            for at, sims in case.get("untrack", []):
                if at == self.nstep and sims:
                    self.tracked.update(pd.Series(False, index=pd.Index(np.array(sims, dtype="int64")), name="tracked"))
            for ci, c in enumerate(case["calls"]):
                if c["where"] == "listener" and c["after"] == self.nstep and not c.get("op"):
                    do_call(ci, c, event=e)

    drv = Driver()

    def mk_index(c, labels):
        kind = c.get("index_kind", "int64")
        if kind == "range" and labels and labels == list(range(labels[0], labels[-1] + 1)):
            return pd.RangeIndex(labels[0], labels[-1] + 1)
        if kind == "named":
            return pd.Index(np.array(labels, dtype="int64"), name="simulant_id")
        return pd.Index(np.array(labels, dtype="int64"))

    def observe_steps(rec):
        allidx = pd.Index(np.arange(case["pop"], dtype="int64"))
        rec["gstep_ns"] = int(pd.Timedelta(drv.gstep()).value)
        rec["sstep_ns"] = {int(i): int(pd.Timedelta(x).value) for i, x in drv.sstep(allidx).items()}
        pop = sim._population.get_population(True)
        rec["untracked"] = [int(i) for i in pop.index[~pop["tracked"].astype(bool)]]
        rec["col_ns"] = ({int(i): int(pd.Timedelta(x).value) for i, x in pop["step_size"].items()}
                         if "step_size" in pop.columns and case["mults"] is not None else None)

    def do_call(ci, c, event=None, created=None):
        handle = c.get("handle", "get_value")
        pipe = HANDLES[c["pipe"]] if handle == "producer" and c["pipe"] in HANDLES else drv.get(c["pipe"]) if handle == "late" else drv.pipes[c["pipe"]]
        if created is not None:
            index = created
        elif c["idx"] == "event":                 # the index the framework hands to listeners (untracked simulants included)
            index = event.index
        elif c["idx"] == "all":
            index = sim.get_population(untracked=True).index
        elif c["idx"] is not None:
            index = mk_index(c, c["idx"])
        args = [] if c["idx"] is None else [index]
        kwargs = {}
        if not c.get("noarg"):
            a = fl(c["a"])
            if c["kw"]:
                kwargs["a"] = a
            else:
                args.append(a)
        if c.get("extra"):
            if c["extra"][0] == "pos":
                args.append(fl(c["extra"][1]))
            else:
                kwargs["b"] = fl(c["extra"][1])
        if c["skip"]:
            kwargs["skip_post_processor"] = True
        rec = {"call": ci, "idx": None if c["idx"] is None else [int(i) for i in index]}
        observe_steps(rec)
        TRACE.clear()
        try:
            res = pipe(*args, **kwargs)
            rec["outcome"], rec["value"] = "ok", canon(res)
        except Exception as e:  # noqa: BLE001
            rec["outcome"], rec["value"] = "err:" + type(e).__name__, None
        rec["trace"] = list(TRACE)
        CALLS.append(rec)

    def step_pipe_call(j, c):
        rec = {"call": j}
        try:
            res = drv.step_pipe(pd.Index(np.array(c["idx"], dtype="int64")), **({"skip_post_processor": True} if c["skip"] else {}))
            rec["outcome"] = "ok"
            if isinstance(res, list):
                rec["entries"] = len(res)
            else:
                rec["steps"] = [[int(i), None if pd.isna(x) else int(pd.Timedelta(x).value)] for i, x in res.items()]
        except Exception as e:  # noqa: BLE001
            rec["outcome"] = "err:" + type(e).__name__
        out["stepsize"].append(rec)

    SimulationContext._clear_context_cache()
    comps = [Reg(k, acts) for k, acts in enumerate(case["comps"])]
    order = case.get("driver_pos", 0) % (len(comps) + 1)
    comps.insert(order, drv)
    d = F(case["min_step_ns"], DAY_NS)
    cfg = {"population": {"population_size": case["pop"]},
           "time": {"start": {"year": 2020, "month": 1, "day": 1}, "end": {"year": 2120, "month": 1, "day": 1},
                    "step_size": float(d)}}
    try:
        sim = SimulationContext(components=comps, configuration=cfg, logging_verbosity=0)
        sim.setup()
        sim.initialize_simulants()
        out["min_step_ns"] = int(sim._clock.minimum_step_size.value)
        nsteps = max([c["after"] for c in case["calls"]] + [c["after"] for c in case.get("stepsize_calls", [])] + [0])
        for k in range(nsteps + 1):
            for ci, c in enumerate(case["calls"]):
                if c["where"] == "outside" and c["after"] == k:
                    if c.get("op") == "set_step":     # another component writes the step_size column between two calls
                        try:
                            col = sim.get_population(untracked=True)["step_size"]
                            drv.stepview.update(pd.Series(pd.Timedelta(case["min_step_ns"] * c["mult"], unit="ns"),
                                                          index=pd.Index(np.array(c["sims"], dtype="int64")), name="step_size").astype(col.dtype))
                            out["ops"].append("ok")
                        except Exception as e:  # noqa: BLE001
                            out["ops"].append("err:" + type(e).__name__)
                    elif c.get("op") == "late_reg":   # a registration attempted while the simulation runs
                        out["ops"].append(register(drv.b, c["act"], "driver"))
                    else:
                        do_call(ci, c)
            for j, c in enumerate(case.get("stepsize_calls", [])):
                if c["after"] == k:
                    step_pipe_call(j, c)
            if k < nsteps:
                sim.step()
    except Exception as e:  # noqa: BLE001
        out["error"] = f"{type(e).__name__}: {e}"
    out["reg"], out["calls"] = REG, CALLS
    return out


# ------------------------------------------------------------------------------------------------ property
class C14(Prop):
    id = "C14"
    lean_modules = ["VivModel.Props.C14", "VivModel.Props.C14Src"]
    build_targets = ["VivModel.Model.Pipeline", "VivModel.Model.Proto"]
    driver = "C14"
    technique = ("Lean 4 proof (pipelines over arbitrary effectful callables in a logging state monad: induction over the "
                 "mutator list and over registration histories; exact rationals for rescale / union) + differential "
                 "correspondence with real pipelines in running simulations (probe call logs, exact dyadic values)")
    partial = None
    n_quick = 110
    n_thorough = 2000
    workers = 4
    case_timeout = 60
    rule = ("each case is a whole simulation: 1-3 pipelines (replace/list combiner; post none, rescale via value and via rate "
            "producer, union, custom probe), 0-6 modifiers each with non-commuting exact effects (a·x+b+c·i+d·arg, x², append "
            "marker), registered from 1-4 components in a random interleaving (modifiers before the source, second sources, "
            "source-less pipelines), optional per-simulant step sizes, 2-6 calls (between steps / inside a time_step listener, "
            "permuted / partial / empty / no index, positional / keyword argument, skip_post_processor); distinct by case hash; "
            "non-trivial = some accepted call ran at least two modifiers")

    # ------------------------------------------------------------------ generation
    def _pipeline(self, rng, name, exact, ids):
        kind = rng.choice(["num", "num", "rate", "rate", "marks", "list", "list", "slist"])
        # what the numeric callables return: a Series (or a number when called without index), a DataFrame with several
        # values per simulant, or a numpy array (no index)
        shape = rng.choice(["series", "series", "frame", "frame", "array"]) if kind in ("num", "rate") else \
            rng.choice(["series", "series", "frame"]) if kind == "list" else "series"
        if kind == "slist":
            # list combiner on a source that returns the SAME list object on every call: list_combiner appends to it in place, so the
            # object keeps growing from call to call (what the code does; the property holds call by call: source value + one entry each)
            pq = (lambda: fs(F(rng.randint(0, 8), 8))) if exact else (lambda: fs(F(round(rng.uniform(0, 1), 3))))
            src = {"op": "src", "pipe": name, "comb": "list", "post": rng.choice(["none", "none", "union", "c:app:99"]), "eff": f"smark:{pq()}", "via": "value"}
            acts = [{"op": "mod", "pipe": name, "eff": f"cmark:{pq()}"} for _ in range(rng.choice([0, 1, 2, 2, 3]))]
            return self._finish(rng, kind, shape, src, acts, ids)
        ncol = rng.choice([2, 2, 3])
        nm = rng.choice([0, 1, 2, 3, 3, 4, 5, 6])
        q = (lambda lo, hi, den: fs(F(rng.randint(lo * den, hi * den), den))) if exact else \
            (lambda lo, hi, den: fs(F(round(rng.uniform(lo, hi), 3))))
        acts = []
        if kind in ("num", "rate"):
            post = "rescale" if kind == "rate" else rng.choice(["none", "none", "rescale", "c:aff:2:1:0:0", "c:sq"])
            g = {"series": "gen", "frame": "fgen", "array": "agen"}[shape]
            src = {"op": "src", "pipe": name, "comb": "replace", "post": post,
                   "eff": f"{g}:{q(0, 3, 4)}:{q(0, 1, 4)}:{q(0, 1, 2)}" + (f":{ncol}" if shape == "frame" else ""),
                   "via": "rate" if kind == "rate" and rng.random() < 0.6 else "value",
                   "dtype": rng.choice(["float", "float", "float", "int", "alt"]), "scalar_kind": rng.choice(["float", "float", "np", "0d"]),
                   "default_combiner": rng.random() < 0.4, "default_post": rng.random() < 0.4}
            if shape != "array" and rng.random() < 0.14:
                # the source is a lookup table (scalar data broadcast over the index): constant, called with the index only
                src.update(source_kind="table", eff=f"{g}:{q(0, 3, 4)}:0:0" + (f":{ncol}" if shape == "frame" else ""))
            nsq = 0
            for _ in range(nm):
                if rng.random() < 0.3 and nsq < 2:
                    eff = "sq"
                    nsq += 1
                else:
                    p = rng.choice(["2", "1", "1/2", "3", "-1"]) if exact else fs(F(round(rng.uniform(-2, 3), 2)))
                    eff = f"aff:{p}:{q(-2, 2, 4)}:{rng.choice(['0', '0', q(0, 1, 4)])}:{rng.choice(['0', q(0, 1, 2)])}"
                acts.append({"op": "mod", "pipe": name, "eff": eff})
        elif kind == "marks":
            post = rng.choice(["none", "none", "c:app:99", "c:app:99", "rescale"])     # rescale of a Python list: the code raises
            src = {"op": "src", "pipe": name, "comb": "replace", "post": post, "eff": rng.choice(["mark:0", "mark:0", "tmark:0"]), "via": "value",
                   "default_combiner": rng.random() < 0.4, "default_post": rng.random() < 0.4}
            for _ in range(nm):
                acts.append({"op": "mod", "pipe": name, "eff": "app:1"})     # marker filled in below
        else:
            post = rng.choice(["none", "union", "union", "c:app:99"])
            pq = (lambda: fs(F(rng.randint(0, 8), 8))) if exact else (lambda: fs(F(round(rng.uniform(0, 1), 3))))
            pc = (lambda: rng.choice(["0", "0", "1/16"])) if exact else (lambda: rng.choice(["0", fs(F(round(rng.uniform(0, 0.05), 3)))]))
            if shape == "frame":
                pq = (lambda: fs(F(rng.randint(0, 4), 8))) if exact else (lambda: fs(F(round(rng.uniform(0, 0.5), 3))))   # + j/4 per column
            tail = f":{ncol}" if shape == "frame" else ""
            src = {"op": "src", "pipe": name, "comb": "list", "post": post,
                   "eff": f"{'lfgen' if shape == 'frame' else 'lgen'}:{pq()}:{pc()}:0{tail}", "via": "value"}
            for _ in range(nm):
                acts.append({"op": "mod", "pipe": name, "eff": f"{'fgen' if shape == 'frame' else 'gen'}:{pq()}:{pc()}:0{tail}"})
        return self._finish(rng, kind, shape, src, acts, ids)

    def _finish(self, rng, kind, shape, src, acts, ids):
        kinds = ["function", "function", "lambda", "method", "partial", "object", "named"]
        src["callable"] = rng.choice(kinds)
        src["post_callable"] = rng.choice(kinds)
        for a in acts:
            a["callable"] = rng.choice(kinds)
            ids[0] += 1
            a["tag"] = f"m{ids[0]}"
            if a["eff"].startswith("app:"):
                a["eff"] = f"app:{ids[0]}"
        if acts and rng.random() < 0.12:
            # the very same callable object registered a second time for the same pipeline: it runs twice
            k = rng.randrange(len(acts))
            acts.insert(rng.randint(k + 1, len(acts)), dict(acts[k], same_object=True))
        src["tag"] = "src"
        r = rng.random()
        sources = [src] if r < 0.8 else []
        if r >= 0.9:
            # a second source with a different effect and post-processor (must be rejected, the first one stays)
            alt = {"num": "gen:5:0:0", "rate": "gen:5:0:0", "marks": "mark:7", "list": "lgen:1/2:0:0", "slist": "smark:1/2"}[kind]
            sources = [src, dict(src, eff=alt, tag="src2", post="none", via="value", source_kind="probe")]
        return kind + ("" if shape == "series" else ":" + shape), sources, acts

    def generate(self, rng: random.Random, i: int, tier: str):
        exact = rng.random() < 0.7
        pop = rng.choice([1, 2, 3, 4, 6])
        if exact:
            j, k = rng.choice([1, 1, 2, 3]), rng.choice([2, 3, 4])
            min_ns = 365 * j * DAY_NS // 2**k
        else:
            min_ns = int(round(rng.choice([1, 3.5, 30.4375, 7, 0.75]) * DAY_NS))
        r = rng.random()
        mults = None if r < 0.25 else [rng.randint(1, 4) for _ in range(pop)]
        if mults is not None and rng.random() < 0.4:
            mults = [m + 1 for m in mults]           # nobody on the minimum step: the global step differs from the minimum
        ids = [0]
        pipes, allacts = {}, []
        for pn in range(rng.randint(1, 3)):
            name = f"p{pn}"
            kind, sources, acts = self._pipeline(rng, name, exact, ids)
            pipes[name] = kind
            numeric = [q for q, kq in pipes.items() if q != name and kq.split(":")[0] in ("num", "rate")]
            if sources and numeric and kind.split(":")[0] in ("num", "rate") and rng.random() < 0.35:
                # the source is ANOTHER PIPELINE (registered earlier or later; obtained with get_value): its value, post-processed,
                # is what this pipeline's modifiers work on
                sources[0].update(source_kind="pipeline", of=rng.choice(numeric))
                sources[0].pop("dtype", None)
            # interleave: keep the relative order of this pipeline's modifiers, put the sources anywhere
            seq = list(acts)
            for s in sources:
                seq.insert(rng.randint(0, len(seq)), s)
            if len(sources) == 2 and seq.index(sources[0]) > seq.index(sources[1]):
                a, b = seq.index(sources[0]), seq.index(sources[1])
                seq[a], seq[b] = seq[b], seq[a]
            allacts.append(seq)
        # merge the per-pipeline sequences into one global registration order, then cut it into components
        merged = []
        ptr = [0] * len(allacts)
        while any(p < len(s) for p, s in zip(ptr, allacts)):
            c = rng.choice([k for k, (p, s) in enumerate(zip(ptr, allacts)) if p < len(s)])
            merged.append(allacts[c][ptr[c]])
            ptr[c] += 1
        ncomp = rng.randint(1, 4)
        cuts = sorted(rng.randint(0, len(merged)) for _ in range(ncomp - 1))
        comps = [merged[a:b] for a, b in zip([0] + cuts, cuts + [len(merged)])]
        calls = []
        for _ in range(rng.randint(2, 6)):
            pn = rng.choice(list(pipes))
            kind = pipes[pn]
            ridx = rng.random()
            if kind in ("num", "rate", "slist") and ridx < 0.2:
                idx = None
            elif ridx < 0.3:
                idx = []
            else:
                idx = rng.sample(range(pop), rng.randint(1, pop))
            a = fs(F(rng.randint(0, 4), 4)) if exact else fs(F(round(rng.uniform(0, 2), 3)))
            if idx and rng.random() < 0.15:
                idx = idx + [rng.choice(idx) for _ in range(rng.randint(1, 2))]          # repeated labels
            call = {"pipe": pn, "idx": idx, "a": a, "kw": rng.random() < 0.4, "skip": rng.random() < 0.3,
                    "after": rng.choice([0, 0, 1, 1, 2, 3]), "where": rng.choice(["outside", "outside", "outside", "listener", "listener", "initializer"]),
                    "handle": rng.choice(["get_value", "get_value", "producer", "producer", "late"]),
                    "index_kind": rng.choice(["int64", "int64", "range", "named"]), "extra": None}
            if rng.random() < 0.25:
                call["extra"] = [rng.choice(["pos", "kw"]), fs(F(rng.randint(1, 9), 2))]
                if call["extra"][0] == "pos":
                    call["kw"] = False          # a positional argument cannot follow a keyword one
            calls.append(call)
        srcs = {a["pipe"]: a for seq in allacts for a in seq if a["op"] == "src" and a["tag"] == "src"}

        def table_inside(name, depth=0):
            a = srcs.get(name)
            if a is None or depth > 4:
                return False
            return a.get("source_kind") == "table" or (a.get("source_kind") == "pipeline" and table_inside(a["of"], depth + 1))
        def scalar_ok(name, depth=0):
            """can the pipeline be called without an index (every callable down the chain produces a plain number then)?"""
            a = srcs.get(name)
            if a is None:
                return True
            if a.get("source_kind") == "pipeline":
                return depth < 4 and scalar_ok(a["of"], depth + 1) and pipes.get(a["of"], "num") in ("num", "rate")
            return a["eff"].split(":")[0] in ("gen", "smark") and a.get("source_kind", "probe") == "probe"
        for c in calls:
            if c["idx"] is None and not scalar_ok(c["pipe"]):
                c["idx"] = rng.sample(range(pop), rng.randint(1, pop))
            if c["where"] == "listener" and c["after"] == 0:
                c["after"] = 1
            if c["where"] == "initializer":     # first use of the pipeline: inside an initializer while the population is created
                c.update(after=0, idx="created" if c["idx"] is not None else None)
            if table_inside(c["pipe"]):         # a lookup table takes the index and nothing else
                c.update(noarg=True, kw=False, extra=None)
                if c["idx"] is None:
                    c["idx"] = list(range(pop))
        # simulants that leave the simulation (tracked = False) while it runs; later requests still name them
        untrack = []
        if rng.random() < 0.4:
            at = rng.choice([1, 1, 2])
            untrack = [[at, sorted(rng.sample(range(pop), rng.randint(1, pop)))]]
            for c in calls:
                if rng.random() < 0.7 and c["where"] != "initializer":
                    c["after"] = max(c["after"], at if c["where"] == "listener" else at + rng.choice([0, 0, 1]))
        for c in calls:
            if c["idx"] is not None and c["where"] != "initializer" and rng.random() < 0.25:
                c["idx"] = "event" if c["where"] == "listener" and rng.random() < 0.6 else "all"
        # LESSONS 12: step sizes that change during the run – the modifiers answer differently from some step on, with one simulant
        # kept on the minimum so that the GLOBAL step stays pinned while own steps change
        mults_later = None
        if mults is not None and rng.random() < 0.35:
            new = [rng.randint(1, 5) for _ in range(pop)]
            if rng.random() < 0.6:
                pin = rng.randrange(pop)
                mults[pin] = new[pin] = 1
            mults_later = [rng.choice([1, 1, 2]), new]
        # … and the SAME call again – verbatim, on a covered sub-index, permuted, with another argument, in another call form –
        # after other calls, after another component wrote the step_size column, after a refused registration, after a clock step
        if rng.random() < 0.55:
            base = rng.choice([c for c in calls if c["where"] != "initializer"] or [None])
            if base is not None:
                extra = []
                for _ in range(rng.randint(0, 2)):
                    r = rng.random()
                    if r < 0.45 and mults is not None:
                        pool = base["idx"] if isinstance(base["idx"], list) and base["idx"] else list(range(pop))
                        extra.append({"op": "set_step", "after": base["after"], "where": "outside", "pipe": base["pipe"], "idx": [],
                                      "sims": sorted(set(rng.sample(pool, rng.randint(1, len(set(pool)))))), "mult": rng.randint(1, 6)})
                    elif r < 0.6:
                        extra.append({"op": "late_reg", "after": base["after"], "where": "outside", "pipe": base["pipe"], "idx": [],
                                      "act": {"op": "mod", "pipe": base["pipe"], "eff": "aff:3:1:0:0", "tag": "late"}})
                    else:
                        other = rng.choice(calls)
                        extra.append(dict(other, after=base["after"], where="outside", idx=other["idx"] if isinstance(other["idx"], list) or other["idx"] is None else "all"))
                variant = rng.choice(["verbatim", "verbatim", "sub-index", "permuted", "other-argument", "other-form"])
                rpt = dict(base, repeat=variant, where=rng.choice(["outside", "outside", "listener"]), after=base["after"] + rng.choice([0, 0, 0, 1]))
                if isinstance(base["idx"], list) and base["idx"]:
                    if variant == "sub-index":
                        rpt["idx"] = rng.sample(base["idx"], rng.randint(1, len(base["idx"])))
                    elif variant == "permuted":
                        rpt["idx"] = rng.sample(base["idx"], len(base["idx"]))
                if variant == "other-argument" and not base.get("noarg"):
                    rpt["a"] = fs(F(base["a"]) + F(1, 4)) if exact else fs(F(round(float(F(base["a"])) + 0.37, 3)))
                if variant == "other-form" and not base.get("noarg"):      # same call, other representation: keyword / positional, other index kind, other handle
                    rpt.update(kw=not base["kw"] if not base.get("extra") or base["extra"][0] != "pos" else False,
                               index_kind=rng.choice(["int64", "range", "named"]), handle=rng.choice(["get_value", "producer", "late"]))
                if rpt["where"] == "listener":
                    rpt["after"] += 1
                if rpt["idx"] == "created" or (rpt["idx"] == "event" and rpt["where"] != "listener"):
                    rpt["idx"] = "all"
                calls = calls + extra + [rpt]
        # registrations attempted from a post_setup listener (must be refused), the clock's own pipeline, a second source for it
        late = []
        if rng.random() < 0.15:
            for _ in range(rng.randint(1, 2)):
                pn = rng.choice(list(pipes))
                late.append({"op": "mod", "pipe": pn, "eff": "app:77" if pipes[pn] == "marks" else "aff:3:1:0:0", "tag": "late"} if rng.random() < 0.6 else
                            {"op": "src", "pipe": pn + "_late", "comb": "replace", "post": "none", "eff": "gen:9:0:0", "via": "value", "tag": "late"})
        stepcalls = [{"after": rng.choice([0, 1, 2]), "idx": rng.sample(range(pop), rng.randint(1, pop)), "skip": rng.random() < 0.3}
                     for _ in range(rng.randint(1, 2))] if rng.random() < 0.2 else []
        if rng.random() < 0.08:
            comps[rng.randrange(len(comps))].append({"op": "src", "pipe": STEP_PIPE, "comb": "list", "post": "none", "eff": "lgen:0:0:0", "via": "value", "tag": "src2"})
        case = {"stream": "exact" if exact else "general", "pop": pop, "min_step_ns": min_ns, "mults": mults,
                "comps": comps, "calls": calls, "driver_pos": rng.randint(0, 4), "untrack": untrack,
                "late_regs": late, "stepsize_calls": stepcalls, "prior": rng.random() < 0.1, "mults_later": mults_later}
        if exact:
            case = self._make_exact(case)
        return case

    def _make_exact(self, case):
        """weaken effects until every intermediate of every call is exactly representable"""
        for _ in range(20):
            bad = self._inexact_pipes(case)
            if not bad:
                return case
            for comp in case["comps"]:
                for act in comp:
                    if act["pipe"] in bad:
                        if act["eff"] == "sq" or act.get("post") == "c:sq":
                            if act["op"] == "mod":
                                act["eff"] = "aff:1:1/4:0:0"
                            else:
                                act["post"] = "c:aff:2:1:0:0"
                            break
                        if act["eff"].startswith("aff:") and act["eff"].split(":")[1] not in ("1", "-1"):
                            act["eff"] = "aff:1:" + ":".join(act["eff"].split(":")[2:])
                            break
            first = {}
            for comp in case["comps"]:          # one callable object registered twice has one effect
                for act in comp:
                    if act["op"] == "mod":
                        k = (act["pipe"], act["tag"])
                        if act.get("same_object") and k in first:
                            act["eff"] = first[k]["eff"]
                        first.setdefault(k, act)
        return dict(case, stream="general")      # could not be made exact: compare with the tolerance instead

    def _inexact_pipes(self, case):
        bad = set()
        regs = [dict(a, outcome="?") for comp in case["comps"] for a in comp]
        tl, state = self._timeline(case), {}
        for ci in self._order(case):
            c = case["calls"][ci]
            if c.get("op"):
                continue
            if isinstance(c["idx"], str):
                c = dict(c, idx=list(range(case["pop"])))
            try:
                self._expected(case, self._registered(regs, assume=True), c, tl[ci], check=True, state=state)
            except _Inexact:
                bad.add(c["pipe"])
        return bad

    def boundary(self):
        m = lambda pipe, eff, tag: {"op": "mod", "pipe": pipe, "eff": eff, "tag": tag}     # noqa: E731
        s = lambda pipe, comb, post, eff, via="value", tag="src": {"op": "src", "pipe": pipe, "comb": comb, "post": post, "eff": eff, "via": via, "tag": tag}  # noqa: E731
        c = lambda pipe, idx, a="1/2", kw=False, skip=False, after=0, where="outside": {"pipe": pipe, "idx": idx, "a": a, "kw": kw, "skip": skip, "after": after, "where": where}  # noqa: E731
        year8 = 365 * DAY_NS // 8
        out = []
        # three non-commuting modifiers, the first two registered before the source by another component
        out.append({"stream": "exact", "pop": 3, "min_step_ns": year8, "mults": None, "driver_pos": 0,
                    "comps": [[m("p0", "aff:2:1:0:0", "m1"), m("p0", "sq", "m2")],
                              [s("p0", "replace", "c:aff:2:1:0:0", "gen:1/4:1/4:1/2"), m("p0", "aff:1:0:1/4:1", "m3")]],
                    "calls": [c("p0", [2, 0, 1]), c("p0", [1], kw=True, skip=True), c("p0", None), c("p0", [], after=1, where="listener")]})
        # rate pipeline, per-simulant steps all above the minimum, permuted request, scalar rate, skip
        out.append({"stream": "exact", "pop": 4, "min_step_ns": year8, "mults": [2, 3, 4, 2], "driver_pos": 1,
                    "comps": [[m("p0", "aff:2:0:0:0", "m1")], [s("p0", "replace", "rescale", "gen:1/2:1/4:0", via="rate")],
                              [s("p1", "replace", "rescale", "gen:3/4:0:1")]],
                    "calls": [c("p0", [3, 1, 0, 2]), c("p0", [3, 1, 0, 2], after=2), c("p0", [2, 3], skip=True, after=1),
                              c("p1", None, after=1), c("p0", [0, 2], after=2, where="listener"), c("p1", None, after=2, skip=True)]})
        # several rates per simulant (DataFrame) and a numpy array as rate values, per-simulant steps all different from the global
        # step, permuted / partial requests; a Python list as a rate (the code raises)
        out.append({"stream": "exact", "pop": 4, "min_step_ns": year8, "mults": [2, 3, 4, 2], "driver_pos": 0,
                    "comps": [[s("p0", "replace", "rescale", "fgen:1/2:1/4:0:2", via="rate"), m("p0", "aff:2:0:1/4:0", "m1")],
                              [s("p1", "replace", "rescale", "agen:1/2:1/4:0"), s("p2", "replace", "rescale", "mark:1"), m("p2", "app:2", "m2"),
                               s("p3", "replace", "rescale", "fgen:1:0:0:3")]],
                    "calls": [c("p0", [3, 1, 0, 2]), c("p0", [2, 3], after=1), c("p0", [1], skip=True), c("p1", [2, 0, 1]), c("p2", [0]),
                              c("p2", [0], skip=True), c("p3", [1, 2], after=2, where="listener"), c("p3", [], after=1)]})
        # simulants 1 and 3 are untracked during step 1; rate pipelines (Series, DataFrame), a union and a plain value are then
        # called with explicit labels that include them, with event.index and with the whole population
        out.append({"stream": "exact", "pop": 4, "min_step_ns": year8, "mults": [2, 3, 2, 4], "driver_pos": 0, "untrack": [[1, [1, 3]]],
                    "comps": [[s("p0", "replace", "rescale", "gen:1/2:1/4:0", via="rate"), m("p0", "aff:2:0:1/4:0", "m1"),
                               s("p1", "replace", "rescale", "fgen:1/2:1/4:0:2"), s("p2", "list", "union", "lgen:1/8:1/16:0"), m("p2", "gen:1/4:0:0", "m2"),
                               s("p3", "replace", "none", "gen:1:1:0")]],
                    "calls": [c("p0", [3, 1, 0, 2], after=1), c("p1", [1, 2, 3], after=2), c("p0", "event", after=2, where="listener"),
                              c("p1", "all", after=1, where="listener"), c("p2", [3, 0], after=1), c("p3", "all", after=2), c("p0", [1], after=0),
                              c("p0", [3], after=3, skip=True)]})
        # every kind of Python callable as modifier, source and post-processor: function, lambda, bound method, functools.partial,
        # callable object, callable object with a `name`
        kinds = ["function", "lambda", "method", "partial", "object", "named"]
        out.append({"stream": "exact", "pop": 2, "min_step_ns": year8, "mults": None, "driver_pos": 1, "untrack": [],
                    "comps": [[dict(m("p0", f"app:{k + 1}", f"m{k + 1}"), callable=kind) for k, kind in enumerate(kinds)],
                              [dict(s("p0", "replace", "c:app:99", "mark:0"), callable="object", post_callable="partial")]
                              + [dict(s(f"q{k}", "replace", "c:aff:2:1:0:0", "gen:1/2:1/4:0"), callable=kind, post_callable=kind) for k, kind in enumerate(kinds)]
                              + [dict(m(f"q{k}", "aff:2:1:0:0", f"m{10 + k}"), callable=kinds[-1 - k]) for k in range(6)]],
                    "calls": [c("p0", [1, 0])] + [c(f"q{k}", [0, 1]) for k in range(6)]})
        # LESSONS audit: every kind of handle (returned by register_value_producer / register_rate_producer, get_value before the
        # source exists, get_value at call time), extra positional / keyword arguments, a lookup table and another pipeline (sourced
        # LATER, by another component) as sources, the same callable registered twice, integer dtype / numpy scalar / 0-d values,
        # RangeIndex / named index / repeated labels, first use inside an initializer, registrations from post_setup (refused),
        # the clock's own pipeline and a second source for it, an earlier simulation in the process
        cx = lambda pipe, idx, **kw: {**c(pipe, idx), "handle": "get_value", "index_kind": "int64", "extra": None, **kw}     # noqa: E731
        out.append({"stream": "exact", "pop": 4, "min_step_ns": year8, "mults": [2, 3, 2, 4], "driver_pos": 0, "untrack": [[2, [1]]], "prior": True,
                    "late_regs": [{"op": "mod", "pipe": "p0", "eff": "aff:3:1:0:0", "tag": "late"}, {"op": "src", "pipe": "p9", "comb": "replace", "post": "none", "eff": "gen:9:0:0", "via": "value", "tag": "late"}],
                    "stepsize_calls": [{"after": 0, "idx": [3, 0, 1], "skip": False}, {"after": 2, "idx": [1, 2], "skip": True}, {"after": 2, "idx": [1], "skip": False}],
                    "comps": [[dict(s("p1", "replace", "c:aff:2:1:0:0", "gen:0:0:0"), source_kind="pipeline", of="p0", default_combiner=True), m("p1", "aff:2:0:1/4:0", "m1"),
                               dict(m("p1", "aff:2:0:1/4:0", "m1"), same_object=True),
                               dict(s("p2", "replace", "rescale", "gen:3/4:0:0", via="rate"), source_kind="table"), m("p2", "aff:2:1:0:0", "m2"),
                               dict(s("p3", "replace", "rescale", "fgen:1/2:0:0:2"), source_kind="table"),
                               dict(s("p4", "replace", "none", "gen:0:0:0"), source_kind="pipeline", of="p2", default_combiner=True, default_post=True), m("p4", "sq", "m3")],
                              [dict(s("p0", "replace", "rescale", "gen:2:1:1", via="rate"), dtype="int", scalar_kind="0d", callable="object"), m("p0", "aff:2:0:0:1", "m0"),
                               dict(s("p5", "replace", "none", "gen:1:0:1"), dtype="int", scalar_kind="np"),
                               {"op": "src", "pipe": STEP_PIPE, "comb": "list", "post": "none", "eff": "lgen:0:0:0", "via": "value", "tag": "src2"},
                               dict(s("p6", "replace", "none", "gen:0:0:0"), source_kind="pipeline", of="nowhere")]],
                    "calls": [cx("p1", [3, 0, 2, 1], extra=["pos", "5/2"]), cx("p1", [2, 2, 0], after=1, kw=True, extra=["kw", "7/2"], handle="producer", where="listener"),
                              cx("p1", "created", after=0, where="initializer", handle="late"), cx("p0", [0, 1, 2, 3], handle="producer", index_kind="range", after=2),
                              cx("p0", None, handle="producer", kw=True), cx("p5", None, handle="late", extra=["kw", "1/2"]), cx("p5", None, skip=True),
                              cx("p2", [3, 1], noarg=True, handle="producer", after=1), cx("p2", "created", noarg=True, where="initializer"),
                              cx("p3", [1, 3, 0], noarg=True, index_kind="named", after=2), cx("p4", [2, 3, 3], noarg=True, after=1, where="listener"),
                              cx("p6", [0]), cx("p0", "all", after=2, handle="late", extra=["pos", "1/2"])]})
        # LESSONS 12-13: the same call again – verbatim, sub-index, permuted, other argument, other call form – with other calls, a
        # write to the step_size column, a refused registration and clock steps in between; two rate pipelines alternating; own steps
        # changing while the global step stays pinned (simulant 2 always on the minimum); a source that returns the SAME list object
        # every time (list_combiner appends in place: the object grows from call to call); integer / float dtype alternating per call
        ss = lambda sims, mult, after=0: {"op": "set_step", "after": after, "where": "outside", "pipe": "r0", "idx": [], "sims": sims, "mult": mult}      # noqa: E731
        out.append({"stream": "exact", "pop": 4, "min_step_ns": year8, "mults": [2, 3, 1, 4], "mults_later": [2, [4, 1, 1, 2]], "driver_pos": 0, "untrack": [[2, [3]]],
                    "late_regs": [], "stepsize_calls": [{"after": 1, "idx": [0, 1, 2, 3], "skip": False}, {"after": 3, "idx": [0, 1, 2, 3], "skip": False}], "prior": False,
                    "comps": [[dict(s("r0", "replace", "rescale", "gen:1/2:1/4:1", via="rate"), dtype="alt"), m("r0", "aff:2:0:0:1/2", "m1"),
                               dict(s("r1", "replace", "rescale", "fgen:1:1/4:0:2"), dtype="alt"),
                               s("sl", "list", "union", "smark:1/2"), m("sl", "cmark:1/4", "m2"), m("sl", "cmark:1/8", "m3"),
                               s("s2", "list", "none", "smark:3")]],
                    "calls": [cx("r0", [3, 0, 2, 1]), cx("r0", [3, 0, 2, 1], repeat="verbatim"), cx("r1", [3, 0, 2, 1]), ss([0, 3], 5),
                              cx("r0", [3, 0, 2, 1], repeat="verbatim"), cx("r1", [0, 3], repeat="sub-index"), cx("r0", [1, 2, 0, 3], repeat="permuted", a="3/4"),
                              {"op": "late_reg", "after": 0, "where": "outside", "pipe": "r0", "idx": [], "act": {"op": "mod", "pipe": "r0", "eff": "aff:3:1:0:0", "tag": "late"}},
                              cx("r0", [3, 0, 2, 1], repeat="other-form", kw=True, index_kind="named", handle="producer"),
                              cx("r0", [3, 0, 2, 1], repeat="verbatim", after=1), cx("r1", [3, 0, 2, 1], repeat="verbatim", after=2, where="listener"),
                              cx("r0", [3, 0, 2, 1], repeat="verbatim", after=2), ss([2], 3, after=2), cx("r0", [3, 0, 2, 1], repeat="verbatim", after=2),
                              cx("r0", [3, 0, 2, 1], repeat="verbatim", after=3), cx("r1", "all", after=3),
                              cx("sl", None, skip=True), cx("sl", None, skip=True, repeat="verbatim"), cx("sl", [1, 0]), cx("s2", None), cx("sl", None, repeat="verbatim", after=1),
                              cx("s2", None, repeat="verbatim", after=1)]})
        # union of DataFrames
        out.append({"stream": "exact", "pop": 3, "min_step_ns": year8, "mults": None, "driver_pos": 0,
                    "comps": [[s("p0", "list", "union", "lfgen:1/8:1/16:0:2"), m("p0", "fgen:1/4:0:0:2", "m1"), m("p0", "fgen:0:1/16:0:2", "m2")]],
                    "calls": [c("p0", [2, 0, 1]), c("p0", [1], skip=True)]})
        # union of four contributions incl. 0 and 1; singleton; skip; custom post on a list
        out.append({"stream": "exact", "pop": 2, "min_step_ns": year8, "mults": None, "driver_pos": 0,
                    "comps": [[m("p0", "gen:1/4:1/16:0", "m1"), s("p0", "list", "union", "lgen:1/2:0:0"), m("p0", "gen:0:0:0", "m2"),
                               m("p0", "gen:1/8:0:0", "m3"), s("p1", "list", "union", "lgen:3/8:1/16:0"),
                               s("p2", "list", "union", "lgen:1/2:0:0"), m("p2", "gen:1:0:0", "m4")]],
                    "calls": [c("p0", [1, 0]), c("p0", [0], skip=True), c("p1", [0, 1]), c("p2", [1, 0])]})
        # second source rejected (other component), source-less pipeline with modifiers, never-mentioned pipeline
        out.append({"stream": "exact", "pop": 2, "min_step_ns": year8, "mults": None, "driver_pos": 2,
                    "comps": [[s("p0", "replace", "none", "mark:0"), m("p0", "app:1", "m1")],
                              [s("p0", "replace", "c:app:99", "mark:7", tag="src2"), m("p0", "app:2", "m2"), m("p1", "app:3", "m3")]],
                    "calls": [c("p0", [0, 1]), c("p1", [0]), c("p9", [1])]})
        return out

    def shrink(self, case):
        if len(case["calls"]) > 1:
            for i in range(len(case["calls"])):
                yield dict(case, calls=case["calls"][:i] + case["calls"][i + 1:])
        used = {c["pipe"] for c in case["calls"]}
        for k, comp in enumerate(case["comps"]):
            for i, act in enumerate(comp):
                if act["pipe"] not in used or act["op"] == "mod":
                    yield dict(case, comps=case["comps"][:k] + [comp[:i] + comp[i + 1:]] + case["comps"][k + 1:])
        if case["mults"] is not None and case["pop"] > 1:
            yield dict(case, mults=None, mults_later=None, calls=[c for c in case["calls"] if c.get("op") != "set_step"])
        if case.get("mults_later"):
            yield dict(case, mults_later=None)
        if case.get("untrack"):
            yield dict(case, untrack=[])
        for i, c in enumerate(case["calls"]):
            if isinstance(c["idx"], str):
                yield dict(case, calls=case["calls"][:i] + [dict(c, idx=list(range(case["pop"])))] + case["calls"][i + 1:])
        for i, c in enumerate(case["calls"]):
            if c["after"] > 0 and c["where"] == "outside":
                yield dict(case, calls=case["calls"][:i] + [dict(c, after=0)] + case["calls"][i + 1:])

    def run_impl(self, case):
        return _run(case)

    # ------------------------------------------------------------------ what was registered (observed)
    @staticmethod
    def _registered(regs, assume=False):
        """per pipeline: accepted source act (first) and modifier acts in registration order"""
        pipes = {}
        for r in regs:
            p = pipes.setdefault(r["pipe"], {"src": None, "mods": [], "src_attempts": []})
            if r["op"] == "mod":
                if assume or r["outcome"] == "ok":
                    p["mods"].append(r)
            else:
                p["src_attempts"].append(r)
                if p["src"] is None and (assume or r["outcome"] == "ok"):
                    p["src"] = r
        return pipes

    @staticmethod
    def _call(case, rec):
        """the call of the case with its index resolved to the labels that were actually passed (event.index / whole population)"""
        c = case["calls"][rec["call"]]
        return dict(c, idx=rec["idx"], spec=c["idx"] if isinstance(c["idx"], str) else "labels", ci=rec["call"])

    def _acts_by_tag(self, case):
        return {(a["pipe"], a["tag"]): a for comp in case["comps"] for a in comp}

    @staticmethod
    def _order(case):
        """indices of case["calls"] in execution order: initializer calls, then for k = 0, 1, …: the outside operations after k
        steps (list order), then the calls made inside the time_step listener of step k + 1"""
        calls = case["calls"]
        out = [i for i, c in enumerate(calls) if c["where"] == "initializer"]
        n = max([c["after"] for c in calls] + [0])
        for k in range(n + 1):
            out += [i for i, c in enumerate(calls) if c["where"] == "outside" and c["after"] == k]
            out += [i for i, c in enumerate(calls) if c["where"] == "listener" and c["after"] == k + 1]
        return out

    @classmethod
    def _timeline(cls, case):
        """the global step and every simulant's own step at each call, from the CONFIGURATION and the HISTORY of the case alone
        (minimum step, step modifiers and when their answer changes, writes to the step_size column by other components):
        {call index: {"g": ns, "s": {simulant: ns}}}. Per-simulant clocks: a simulant whose next event time has come is given
        the step its modifier asks for at that moment; the global step is the time to the earliest next event."""
        unit, pop, calls = case["min_step_ns"], case["pop"], case["calls"]
        res = {}
        snap = lambda g, own: {"g": g * unit, "s": {i: own[i] * unit for i in range(pop)}}     # noqa: E731
        if case["mults"] is None:
            return {i: snap(1, [1] * pop) for i in range(len(calls))}
        later = case.get("mults_later")
        mults_at = lambda s: later[1] if later and s >= later[0] else case["mults"]           # noqa: E731
        for i, c in enumerate(calls):
            if c["where"] == "initializer":
                res[i] = snap(1, [1] * pop)
        own = list(mults_at(0))                  # initialize_simulants ends with a step_forward: everybody is due
        clock, nxt = 0, list(own)
        g = min(nxt) - clock
        n = max([c["after"] for c in calls] + [0])
        for k in range(n + 1):
            for i, c in enumerate(calls):
                if c["where"] == "outside" and c["after"] == k:
                    if c.get("op") == "set_step":
                        for sim in c["sims"]:
                            own[sim] = c["mult"]
                    res[i] = snap(g, own)
            for i, c in enumerate(calls):
                if c["where"] == "listener" and c["after"] == k + 1:
                    res[i] = snap(g, own)
            clock += g                            # step_forward of step k + 1
            m = mults_at(k + 1)
            for sim in range(pop):
                if nxt[sim] <= clock:
                    own[sim] = m[sim]
                    nxt[sim] = clock + own[sim]
            g = min(nxt) - clock
        return res

    @classmethod
    def _steps_cfg(cls, case, c):
        return cls._timeline(case)[c["ci"]]

    def _expected(self, case, pipes, c, steps, check=False, depth=0, state=None):
        """expected (value, trace as [pipe, tag] pairs, pre-post value) of call `c` over exact rationals; None if rejected.
        `state` carries what earlier calls of the history left behind (the content of list objects that a source hands out again
        and again, to which the list combiner appends in place) and is updated."""
        p = pipes.get(c["pipe"])
        if p is None or p["src"] is None or depth > 4:
            return None
        acts = self._acts_by_tag(case)
        src = acts[(c["pipe"], p["src"]["tag"])]
        idx, a = c["idx"], (F(0) if c.get("noarg") else F(c["a"]))

        def chk(eff, prev):
            if check:
                for x in intermediates(eff, idx, a, prev):
                    if not is_exact(x):
                        raise _Inexact()
        kind = src.get("source_kind", "probe")
        if kind == "pipeline":         # the source is another pipeline: it is called with the same arguments, post-processed
            inner = self._expected(case, pipes, dict(c, pipe=src["of"], skip=False), steps, check, depth + 1, state)
            if inner is None:
                return None
            v, tags = inner[0], list(inner[1])
        else:
            chk(src["eff"], None)
            v = ref_eff(src["eff"], idx, a, None)
            if src["eff"].startswith("smark:") and state is not None:
                v = ("l", list(state.setdefault("shared", {}).get(c["pipe"], v[1])))      # the same list object as last time
            tags = [[c["pipe"], src["tag"]]] if kind == "probe" else []     # a lookup table is not a probe: it logs nothing
        for mreg in p["mods"]:
            eff = acts[(c["pipe"], mreg["tag"])]["eff"]
            tags.append([c["pipe"], mreg["tag"]])
            if src["comb"] == "list":
                chk(eff, None)
                v = ("l", v[1] + [ref_eff(eff, idx, a, None)])
            else:
                chk(eff, v)
                v = ref_eff(eff, idx, a, v)
        pre = v
        if src["eff"].startswith("smark:") and state is not None:
            state["shared"][c["pipe"]] = list(pre[1])                        # … which has grown by one entry per modifier
        post = src["post"]
        if post != "none" and not c["skip"]:
            if post.startswith("c:"):
                if check:
                    for x in intermediates(post[2:], None, F(0), v):
                        if not is_exact(x):
                            raise _Inexact()
                v = ref_eff(post[2:], None, F(0), v)
                tags.append([c["pipe"], "post"])
            elif post == "union":
                v = ref_union(v[1])
            elif post == "rescale":
                if v[0] == "l":
                    return None         # a Python list / tuple reaches `value.mul`: the call raises
                v = ref_rescale(v, steps)
            if check:
                for _, x in cells(v):
                    if not is_exact(x):
                        raise _Inexact()
        return v, tags, pre

    # ------------------------------------------------------------------ model
    def model_lines(self, case, obs):
        if obs["error"]:
            return []
        # the clock registers the source of its step-size pipeline before any component is set up
        L = [f"src {STEP_PIPE} clock list none lgen:0:0:0"]
        acts = self._acts_by_tag(case)
        for r in obs["reg"]:
            a = acts[(r["pipe"], r["tag"])]
            if r["op"] == "mod":
                L.append(f"mod {r['pipe']} {r['comp']} {r['tag']} {a['eff']}")
            else:
                eff = "pipe:" + a["of"] if a.get("source_kind") == "pipeline" else a["eff"].replace("tmark:", "mark:")     # a tuple is a list to the model
                L.append(f"src {r['pipe']} {r['comp']} {a['comb']} {a['post']} {eff}")
        for rec in obs["calls"]:
            c = self._call(case, rec)
            st = self._steps_cfg(case, c)          # from the configuration, not from the implementation
            sims = ",".join(f"{i}={ns}" for i, ns in sorted(st["s"].items())) or "-"
            L.append(f"clock {st['g']} {sims}")
            idx = "none" if c["idx"] is None else (",".join(map(str, c["idx"])) or "-")
            L.append(f"call {c['pipe']} {idx} {'0' if c.get('noarg') else c['a']} {1 if c['skip'] else 0}")
        return L

    def _innermost_table(self, case, pipes, name, depth=0):
        """does evaluating pipeline `name` start with a lookup table (which logs nothing in the implementation)?"""
        p = pipes.get(name)
        if p is None or p["src"] is None or depth > 4:
            return False
        src = self._acts_by_tag(case)[(name, p["src"]["tag"])]
        if src.get("source_kind") == "pipeline":
            return self._innermost_table(case, pipes, src["of"], depth + 1)
        return src.get("source_kind") == "table"

    def compare(self, case, obs, replies):
        dis = []
        exact = case["stream"] == "exact"
        if replies[0] != "ok":
            dis.append(f"model refused the clock's own source: {replies[0]}")
        replies = replies[1:]
        n = len(obs["reg"])
        pipes = self._registered(obs["reg"])
        for r, rep in zip(obs["reg"], replies[:n]):
            if (r["outcome"] == "ok") != (rep == "ok") or (r["outcome"] != "ok" and rep != "err dup"):
                dis.append(f"registration {r['op']} {r['pipe']} by {r['comp']}: impl {r['outcome']}, model {rep}")
        acts = self._acts_by_tag(case)
        for k, rec in enumerate(obs["calls"]):
            rep = replies[n + 2 * k + 1]
            c = self._call(case, rec)
            set_scale(rec)
            if rep.startswith("err"):
                if rec["outcome"] == "ok":
                    dis.append(f"call {c}: impl ok, model {rep}")
                elif rep.startswith("err raised:"):
                    itrace = (["src"] if self._innermost_table(case, pipes, c["pipe"]) else []) + ["src" if t["tag"].startswith("src") else t["tag"] for t in rec["trace"]]
                    mtrace = rep.split(" ")[2]
                    # which exception a list-valued rate raises is an accident of evaluation order: only "raised, after these callables"
                    if itrace != ([] if mtrace == "-" else mtrace.split(",")):
                        dis.append(f"call {c}: impl {rec['outcome']} after {itrace}, model {rep}")
                continue
            if rep == "bad-op" or rec["outcome"] != "ok":
                dis.append(f"call {c}: impl {rec['outcome']}, model {rep}")
                continue
            _, mval, mtrace = rep.split(" ")
            # the model logs the source as "src": map the implementation's source tag
            itrace = (["src"] if self._innermost_table(case, pipes, c["pipe"]) else []) + ["src" if t["tag"].startswith("src") else t["tag"] for t in rec["trace"]]
            if itrace != ([] if mtrace == "-" else mtrace.split(",")):
                dis.append(f"call {c}: trace impl {itrace}, model {mtrace}")
            if not val_eq(parse_val(rec["value"]), parse_val(mval), exact):
                dis.append(f"call {c}: value impl {rec['value']}, model {mval}")
        return dis

    # ------------------------------------------------------------------ oracle: the property on the observed behaviour
    def _sourced(self, case, pipes, name, depth=0):
        """has pipeline `name` a source all the way down (a pipeline used as a source needs one too)?"""
        p = pipes.get(name)
        if p is None or p["src"] is None or depth > 4:
            return False
        src = self._acts_by_tag(case)[(name, p["src"]["tag"])]
        return self._sourced(case, pipes, src["of"], depth + 1) if src.get("source_kind") == "pipeline" else True

    def oracle(self, case, obs):
        f = []
        if obs["error"]:
            return [{"sig": "simulation-raised", "msg": obs["error"]}]
        exact = case["stream"] == "exact"
        acts = self._acts_by_tag(case)
        if len(obs["reg"]) != sum(len(c) for c in case["comps"]):
            f.append({"sig": "registration-missing", "msg": f"{len(obs['reg'])} registrations observed"})
        # registration outcomes: modifiers always accepted; first source accepted, later ones rejected
        seen_src = {STEP_PIPE}           # the clock has registered the source of its own pipeline before any component
        for r in obs["reg"]:
            if r["op"] == "mod" and r["outcome"] != "ok":
                f.append({"sig": "modifier-rejected", "msg": f"{r} ({acts[(r['pipe'], r['tag'])].get('callable', 'function')})"})
            if r["op"] == "src":
                if r["pipe"] in seen_src and r["outcome"] == "ok":
                    f.append({"sig": "second-source-accepted", "msg": f"{r}"})
                if r["pipe"] not in seen_src and r["outcome"] != "ok":
                    f.append({"sig": "first-source-rejected", "msg": f"{r}"})
                if r["pipe"] in seen_src and r["outcome"] not in ("ok", "err:DynamicValueError"):
                    f.append({"sig": "second-source-wrong-error", "msg": f"{r}"})
                seen_src.add(r["pipe"])
        # registrations attempted after setup (from a post_setup listener) are refused
        late = obs.get("late", [])
        if len(late) != len(case.get("late_regs", [])):
            f.append({"sig": "late-registration-missing", "msg": f"{late}"})
        for act, got in zip(case.get("late_regs", []), late):
            if got == "ok":
                f.append({"sig": "late-registration-accepted", "msg": f"{act['op']} for {act['pipe']} registered during post_setup was accepted"})
        if obs["min_step_ns"] != case["min_step_ns"]:
            f.append({"sig": "clock-min-step", "msg": f"configured {case['min_step_ns']} ns, clock says {obs['min_step_ns']}"})
        # what the property says is registered: the FIRST source offered, every modifier in call order
        pipes = self._registered([dict(r, outcome="ok") if r["op"] == "mod" else r for r in obs["reg"] if r["pipe"] != STEP_PIPE])
        for p in pipes.values():
            p["src"] = p["src_attempts"][0] if p["src_attempts"] else None
        if len(obs["calls"]) != sum(1 for c in case["calls"] if not c.get("op")):
            f.append({"sig": "call-missing", "msg": f"{len(obs['calls'])} of {len(case['calls'])} calls were made"})
        nops = [c for c in case["calls"] if c.get("op")]
        if len(obs.get("ops", [])) != len(nops):
            f.append({"sig": "operation-missing", "msg": f"{obs.get('ops')}"})
        for c, got in zip(nops, obs.get("ops", [])):
            if c["op"] == "set_step" and got != "ok":
                f.append({"sig": "harness-update-refused", "msg": f"writing the step_size column: {got}"})
            if c["op"] == "late_reg" and got == "ok":
                f.append({"sig": "late-registration-accepted", "msg": f"{c['act']['op']} for {c['act']['pipe']} registered while the simulation runs was accepted"})
        state = {}
        for rec in obs["calls"]:
            c = self._call(case, rec)
            set_scale(rec)
            where = (f"call {c['pipe']}({c['idx']}{'' if c['spec'] == 'labels' else ' = ' + c['spec']}, a={None if c.get('noarg') else c['a']}, extra={c.get('extra')}, "
                     f"skip={c['skip']}) via {c.get('handle', 'get_value')} after {c['after']} steps ({c['where']})")
            # the clock at this moment, from the configuration: global step, every simulant's own step (tracked or not)
            steps = self._steps_cfg(case, c)
            if rec["gstep_ns"] != steps["g"]:
                f.append({"sig": "global-step", "msg": f"{where}: global step {rec['gstep_ns']}, configuration gives {steps['g']}"})
                continue
            if case["mults"] is not None and rec["col_ns"] != steps["s"]:
                f.append({"sig": "simulant-step", "msg": f"{where}: step column {rec['col_ns']}, configuration gives {steps['s']}"})
                continue
            if rec["sstep_ns"] != steps["s"]:     # every simulant of the population has a step of its own, tracked or not
                f.append({"sig": "simulant-step-sizes", "msg": f"{where}: simulant_step_sizes(whole population) = {rec['sstep_ns']}, expected {steps['s']} (untracked: {rec['untracked']})"})
            if not self._sourced(case, pipes, c["pipe"]):
                if rec["outcome"] == "ok":
                    f.append({"sig": "no-source-accepted", "msg": f"{where}: returned {rec['value']}"})
                elif rec["outcome"] != "err:DynamicValueError":
                    f.append({"sig": "no-source-wrong-error", "msg": f"{where}: {rec['outcome']}"})
                if rec["trace"]:
                    f.append({"sig": "no-source-ran-callables", "msg": f"{where}: {[t['tag'] for t in rec['trace']]}"})
                continue
            p = pipes[c["pipe"]]
            src = acts[(c["pipe"], p["src"]["tag"])]
            post = src["post"]
            exp = self._expected(case, pipes, c, steps, state=state)
            if exp is None:
                continue    # a Python list / tuple as a rate: the code raises AttributeError (`list.index` exists, `list.mul` does not); not in the property
            if rec["outcome"] != "ok":
                f.append({"sig": "call-raised", "msg": f"{where}: {rec['outcome']}"})
                continue
            want_tags = exp[1]
            tags = [[t["pipe"], t["tag"]] for t in rec["trace"]]
            if tags != want_tags:
                sig = "trace-count" if sorted(tags) != sorted(want_tags) else "trace-order"
                f.append({"sig": sig, "msg": f"{where}: callables ran {tags}, registered {want_tags}"})
                continue
            # the caller's arguments reach every callable (of this pipeline and of a pipeline used as its source)
            want_a = None if c.get("noarg") else F(c["a"])
            want_extra = {"pos": [F(c["extra"][1])] if c.get("extra") and c["extra"][0] == "pos" else [],
                          "kw": {"b": F(c["extra"][1])} if c.get("extra") and c["extra"][0] == "kw" else {}}
            for t in rec["trace"]:
                if t["tag"] == "post":
                    continue
                got_extra = {"pos": [F(x) for x in t["extra"]["pos"]], "kw": {k: F(v) for k, v in t["extra"]["kw"].items()}}
                if t["idx"] != c["idx"] or (None if t["a"] is None else F(t["a"])) != want_a or got_extra != want_extra:
                    f.append({"sig": "arguments", "msg": f"{where}: {t['pipe']}/{t['tag']} received idx={t['idx']} a={t['a']} extra={t['extra']}"})
            own = [t for t in rec["trace"] if t["pipe"] == c["pipe"] and t["tag"] != "post"]
            # combiner: replace -> each modifier receives the previous stage's output; list -> one entry each
            pre_v = None
            if src["comb"] == "replace":
                for prev, cur in zip(own, own[1:]):
                    if cur["prev"] != prev["out"]:
                        f.append({"sig": "chain", "msg": f"{where}: {cur['tag']} received {cur['prev']}, previous stage {prev['tag']} returned {prev['out']}"})
                if own:
                    pre_v = parse_val(own[-1]["out"])
            else:
                if any(t["prev"] is not None for t in own[1:]):
                    f.append({"sig": "chain", "msg": f"{where}: a list modifier received a previous value"})
                pre_v = ("l", list(parse_val(own[0]["out"])[1]) + [parse_val(t["out"]) for t in own[1:]])
            got = parse_val(rec["value"])
            # post-processing
            applied = post != "none" and not c["skip"]
            if pre_v is None:
                pass            # neither the source nor a modifier of this pipeline is a probe: only the recomputed value is checked
            elif not applied:
                if not val_eq(got, pre_v, True):
                    f.append({"sig": "post-skipped-value" if c["skip"] else "value", "msg": f"{where}: returned {rec['value']}, last stage produced {pre_v}"})
            elif post.startswith("c:"):
                pt = rec["trace"][-1]
                if not val_eq(parse_val(pt["prev"]), pre_v, True) or pt["out"] != rec["value"]:
                    f.append({"sig": "post-processor-io", "msg": f"{where}: post-processor received {pt['prev']}, returned {pt['out']}; call returned {rec['value']}"})
            elif post == "rescale":
                want = ref_rescale(pre_v, steps)
                if not val_eq(got, want, exact):
                    nan = [i for i, x in cells(got) if x is None]
                    f.append({"sig": "rescale-value", "msg": f"{where}: returned {rec['value']}" + (f" (NaN for simulants {nan}; untracked: {rec['untracked']})" if nan else "")
                              + f"; annual {pre_v} with steps {steps} should give {want}"})
            elif post == "union":
                want = ref_union(pre_v[1])
                if not val_eq(got, want, exact):
                    f.append({"sig": "union-value", "msg": f"{where}: returned {rec['value']}; 1 - prod(1 - p) of {pre_v[1]} is {want}"})
                flat = [x for it in pre_v[1] for _, x in cells(it)]
                res = [y for _, y in cells(got)]
                if all(0 <= x <= 1 for x in flat) and any(not (-TOL <= y <= 1 + TOL) for y in res):
                    f.append({"sig": "union-range", "msg": f"{where}: {rec['value']} leaves [0, 1]"})
            # the whole value, recomputed from the registered effects: m_n(args, ... m_1(args, src(args)))
            if not val_eq(got, exp[0], exact):
                f.append({"sig": "value", "msg": f"{where}: returned {rec['value']}, expected {exp[0]}"})
        # the clock's own pipeline (list combiner, the clock's post-processor): every requested simulant's step, from the configuration
        if len(obs.get("stepsize", [])) != len(case.get("stepsize_calls", [])):
            f.append({"sig": "call-missing", "msg": f"step-size pipeline: {len(obs.get('stepsize', []))} calls"})
        for rec in obs.get("stepsize", []):
            c = case["stepsize_calls"][rec["call"]]
            where = f"{STEP_PIPE}({c['idx']}, skip={c['skip']}) after {c['after']} steps"
            if rec["outcome"] != "ok":
                f.append({"sig": "step-pipeline-raised", "msg": f"{where}: {rec['outcome']}"})
            elif c["skip"]:
                if rec.get("entries") != 1 + (case["mults"] is not None):
                    f.append({"sig": "step-pipeline-value", "msg": f"{where}: {rec.get('entries')} list entries (source + {int(case['mults'] is not None)} modifier)"})
            else:
                later = case.get("mults_later")
                m = [1] * case["pop"] if case["mults"] is None else later[1] if later and c["after"] >= later[0] else case["mults"]
                want = [[i, m[i] * case["min_step_ns"]] for i in c["idx"]]
                if rec.get("steps") != want:
                    f.append({"sig": "step-pipeline-value", "msg": f"{where}: {rec.get('steps')}, configuration gives {want}"})
        return f

    # ------------------------------------------------------------------ reporting
    def nontrivial(self, case, obs):
        return not obs["error"] and any(r["outcome"] == "ok" and len(r["trace"]) >= 3 for r in obs["calls"])

    def tags(self, case, obs):
        t = ["stream:" + case["stream"], "steps:" + ("global" if case["mults"] is None else
                                                       "per-simulant-distinct" if len(set(case["mults"])) > 1 else "per-simulant-equal")]
        if obs["error"]:
            return t + ["simulation-error"]
        t += ["late-registration:" + ("refused" if r != "ok" else "accepted") for r in obs.get("late", [])]
        t += ["step-size-pipeline:" + ("skip" if case["stepsize_calls"][r["call"]]["skip"] else "value") for r in obs.get("stepsize", [])]
        t += ["prior-simulation"] * bool(case.get("prior"))
        t += ["op:" + c["op"] + (":refused" if c["op"] == "late_reg" and r != "ok" else "") for c, r in zip([c for c in case["calls"] if c.get("op")], obs.get("ops", []))]
        if case.get("mults_later"):
            t.append("steps:change-during-run" + (":global-step-pinned" if 1 in [a for a, b in zip(case["mults"], case["mults_later"][1]) if a == b == 1] else ""))
        if any(a.get("same_object") for comp in case["comps"] for a in comp):
            t.append("same-callable-registered-twice")
        if case["mults"] is not None and min(case["mults"]) > 1:
            t.append("steps:nobody-on-minimum")
        acts = self._acts_by_tag(case)
        pipes = self._registered(obs["reg"])
        first_src_pos = {}
        for k, r in enumerate(obs["reg"]):
            t.append(f"reg:{r['op']}:{'ok' if r['outcome'] == 'ok' else 'rejected'}")
            act = acts[(r["pipe"], r["tag"])]
            t.append(f"callable:{r['op']}:{act.get('callable', 'function')}")
            if r["op"] == "src":
                t.append("source:" + act.get("source_kind", "probe"))
                t.append("source-dtype:" + act.get("dtype", "float"))
                t += ["register:combiner-defaulted"] * bool(act.get("default_combiner") and act["comb"] == "replace" and act.get("via") != "rate")
                t += ["register:second-source-for-clock-pipeline"] * (r["pipe"] == STEP_PIPE)
            if r["op"] == "src" and r["pipe"] not in first_src_pos:
                first_src_pos[r["pipe"]] = (k, r["comp"])
        for k, r in enumerate(obs["reg"]):
            if r["op"] == "mod" and r["pipe"] in first_src_pos:
                pos, comp = first_src_pos[r["pipe"]]
                if k < pos:
                    t.append("modifier-before-source" + (":other-component" if comp != r["comp"] else ""))
                elif comp != r["comp"]:
                    t.append("modifier-after-source:other-component")
        for rec in obs["calls"]:
            c = self._call(case, rec)
            p = pipes.get(c["pipe"])
            t.append("call:" + ("ok" if rec["outcome"] == "ok" else "rejected-no-source" if not (p and p["src"]) else "raised:" + rec["outcome"][4:]))
            t.append("where:" + c["where"])
            if p and p["src"] is not None and rec["outcome"] == "ok":
                src = acts[(c["pipe"], p["src"]["tag"])]
                n = len(p["mods"])
                t.append(f"combiner:{src['comb']}")
                t.append("post:" + (src["post"].split(":")[0] if not src["post"].startswith("c:") else "custom") + (":skipped" if c["skip"] else ""))
                if src.get("via") == "rate":
                    t.append("via:register_rate_producer")
                t.append("modifiers:" + ("0" if n == 0 else "1" if n == 1 else "2" if n == 2 else "3+"))
                t.append("index:" + ("none" if c["idx"] is None else "empty" if not c["idx"] else
                                     "permuted" if c["idx"] != sorted(c["idx"]) else "partial" if len(c["idx"]) < case["pop"] else "full"))
                t.append("arg:" + ("none" if c.get("noarg") else "keyword" if c["kw"] else "positional"))
                t.append("handle:" + c.get("handle", "get_value"))
                if c.get("repeat"):
                    t.append("repeat:" + c["repeat"])
                if src["eff"].startswith("smark"):
                    t.append("source:same-list-object-every-call")
                t.append("extra-arg:" + (c["extra"][0] if c.get("extra") else "none"))
                t.append("index-kind:" + c.get("index_kind", "int64"))
                if c["idx"] and len(set(c["idx"])) < len(c["idx"]):
                    t.append("index:repeated-labels")
                t.append("request:" + c["spec"])
                if c["idx"] and set(c["idx"]) & set(rec["untracked"]):
                    t.append("request:includes-untracked")
                    if src["post"] == "rescale" and not c["skip"]:
                        t.append("rescale:untracked-simulant" + (":per-simulant-clocks" if case["mults"] is not None else ""))
                shape = {"s": "number", "v": "series", "f": "frame", "a": "array", "l": "list"}.get(rec["value"][0], "?")
                t.append("value:" + shape)
                if src["post"] == "rescale" and not c["skip"]:
                    t.append("rescale:" + shape)
                    if shape == "frame" and c["idx"] and rec["col_ns"] and any(rec["col_ns"][i] != rec["gstep_ns"] for i in c["idx"]):
                        t.append("rescale:frame:own-step-differs-from-global")
                if src["post"] == "rescale" and not c["skip"] and c["idx"] and rec["col_ns"] and len({rec["col_ns"][i] for i in c["idx"]}) > 1:
                    t.append("rescale:simulants-with-different-steps")
                if src["post"] == "rescale" and not c["skip"] and c["idx"] and rec["col_ns"] and any(rec["col_ns"][i] != rec["gstep_ns"] for i in c["idx"]):
                    t.append("rescale:own-step-differs-from-global")
        return t

    def sample_view(self, case, obs):
        return {"stream": case["stream"], "mults": case["mults"], "registrations": [(r["op"], r["pipe"], r["comp"], r["outcome"]) for r in obs.get("reg", [])][:8],
                "calls": [{"call": self._call(case, r), "outcome": r["outcome"], "value": r["value"], "trace": [t["tag"] for t in r["trace"]]}
                          for r in obs.get("calls", [])][:3], "error": obs.get("error")}


class _Inexact(Exception):
    pass


PROP = C14()
