"""C15 — lookup tables return each simulant's own row of data.

Tie: correspondence. Real `builder.lookup.build_table` in a real simulation (attributes in the state
table, `year` from the running clock, `interpolation.extrapolate` from the configuration), called with
permuted / partial / repeated / empty indexes between steps, against Driver/C15.lean (validation
outcome, well-formedness, per-simulant cells or rejection) and against a brute-force row scan (oracle).

All bin edges and attribute values are quarter-integers (exact floats), given in the case as integers
q = 4·value; value cells are distinct integers, compared for equality only.
"""
from __future__ import annotations

import itertools
import random
from fractions import Fraction as F

from .. import impl
from ..runner import Prop

KEYVALS = [["a", "b", "c"], ["x", "y"]]


def _is_leap(y):
    return y % 4 == 0 and (y % 100 != 0 or y % 400 == 0)


# ----------------------------------------------------------------------------------------- implementation
def _run_unit(case):
    """np.digitize + the clamp of Order0Interp.__call__, exactly as the code writes them (unit validation of the model primitive)"""
    import numpy as np
    bins = [b / 4 for b in case["bins"]]
    d = np.digitize(np.array([x / 4 for x in case["xs"]], dtype=float), bins)
    idx = d.copy()
    idx[idx > 0] -= 1
    return {"error": None, "digitize": [int(v) for v in d], "index": [int(v) for v in idx]}


INTKEY = {"a": 1, "b": 2, "c": 3, "x": 10, "y": 20, "zz": 99}


def _run(case, prior=False):
    impl.load()
    import numpy as np
    import pandas as pd
    if case["kind"] == "unit":
        return _run_unit(case)
    from vivarium import Component
    from vivarium.framework.engine import SimulationContext

    forms = case.get("forms", {})
    if forms.get("prior") and not prior:
        # an earlier simulation in this process, with the opposite extrapolation setting and the rows reversed (its results are dropped)
        ex = case.get("extrapolate")
        _run(dict(case, forms=dict(forms, prior=False), extrapolate=(False if ex in (True, None) else True), rows=case["rows"][::-1],
                  untrack=[], calls=[dict(c, where="outside", after=0, idx=c["idx"] if isinstance(c["idx"], list) else "all")
                                      for c in case["calls"][:1]]), prior=True)
    nk, params = len(case["keys"]), case["params"]
    pop_cols = case["keys"] + [p for p in params if p != "year"]
    kd = forms.get("key_dtype", "str")
    def seq(xs, pos="values"):
        """column-name arguments as a list or – where the case says so – as a tuple (the signature allows both)"""
        t = forms.get("tuples")
        return tuple(xs) if t is True or (isinstance(t, list) and pos in t) else list(xs)

    pkd = forms.get("pop_key_dtype", kd) if kd != "int" else "int"

    def keycol(values, data_side):
        """a key column in the dtype of the case – the data's and the population's may differ: str (pandas string dtype), object,
        int64 or pandas categorical"""
        k = kd if data_side else pkd
        if k == "int":
            return np.array([INTKEY[v] for v in values], dtype="int64")
        if k == "category":
            allv = sorted({v for r in case["rows"] for v in r["keys"]} | {v for a in case["attrs"] for v in a["keys"]}
                          | {v for u in case["calls"] if u.get("op") == "update" for a in u["attrs"] for v in a["keys"]})
            return pd.Categorical(values, categories=allv + (["unused"] if data_side else ["zz"] if "zz" not in allv else []))
        if k == "object":
            return pd.Series(list(values), dtype=object).values
        return list(values)

    def frame():
        cols = {}
        for j, k in enumerate(case["keys"]):
            cols[k] = keycol([r["keys"][j] for r in case["rows"]], True)
        whole = all(b % 4 == 0 for r in case["rows"] for bb in r["bins"] for b in bb)
        for j, p in enumerate(params):
            st, en = [r["bins"][j][0] / 4 for r in case["rows"]], [r["bins"][j][1] / 4 for r in case["rows"]]
            if forms.get("bin_int") and whole:
                st, en = np.array(st, dtype="int64"), np.array(en, dtype="int64")
            cols[f"{p}_start"], cols[f"{p}_end"] = st, en
        for j, v in enumerate(case["values"]):
            cols[v] = [float(r["vals"][j]) for r in case["rows"]]
        for j, v in enumerate(forms.get("extra_values", [])):           # data columns nobody asked for
            cols[v] = [float(-1000 - 10 * i - j) for i in range(len(case["rows"]))]
        names = list(cols)
        if forms.get("col_shuffle") is not None:
            random.Random(forms["col_shuffle"]).shuffle(names)
        return pd.DataFrame({n: cols[n] for n in names})

    def scalar_data():
        form = forms.get("scalar_form") or ("list" if case["scalar_list"] else "float")
        vals = case["scalar"]
        conv = {"float": float, "int": int, "list": float, "tuple": float, "list_int": int,
                "timedelta": lambda x: pd.Timedelta(days=x), "timestamp": lambda x: pd.Timestamp(2000, 1, 1) + pd.Timedelta(days=x)}[form]
        if form in ("list", "tuple", "list_int"):
            return (tuple if form == "tuple" else list)(conv(x) for x in vals)
        return conv(vals[0])

    def cell(v):
        if isinstance(v, pd.Timedelta):
            return int(v.value // (86400 * 10**9))
        if isinstance(v, pd.Timestamp):
            return int((v - pd.Timestamp(2000, 1, 1)).value // (86400 * 10**9))
        if pd.isna(v):
            return None
        return int(v) if float(v) == int(v) else float(v)

    out = {"error": None, "build": None, "calls": [], "badargs": [], "updates": []}

    def lookup(ci, index, now, pop_now):
        table = lk.twin if case["calls"][ci].get("table") == "twin" else lk.table
        rec = {"call": ci, "year": int(now.year), "yday": int(now.timetuple().tm_yday), "idx": [int(i) for i in index],
               "untracked": [] if pop_now is None or "tracked" not in pop_now else [int(i) for i in pop_now.index[~pop_now["tracked"].astype(bool)]]}
        if table is None:
            rec["outcome"] = "no-table"
        else:
            try:
                res = table(index)
                rec["outcome"] = "ok"
                rec["type"] = type(res).__name__
                df = res.to_frame() if isinstance(res, pd.Series) else res
                rec["index"] = [int(i) for i in df.index]
                rec["columns"] = [str(x) for x in df.columns]
                rec["cells"] = [[cell(df.iloc[r, c]) for c in range(df.shape[1])] for r in range(df.shape[0])]
            except Exception as e:  # noqa: BLE001
                rec["outcome"] = "err:" + type(e).__name__
        out["calls"].append(rec)

    class Pop(Component):
        @property
        def name(self):
            return "pop"

        @property
        def columns_created(self):
            return pop_cols

        def on_initialize_simulants(self, pop_data):
            cols = {}
            for j, k in enumerate(case["keys"]):
                cols[k] = keycol([case["attrs"][int(i)]["keys"][j] for i in pop_data.index], False)
            for j, p in enumerate(params):
                if p != "year":
                    xs = [case["attrs"][int(i)]["xs"][j] / 4 for i in pop_data.index]
                    if forms.get("attr_int") and all(a["xs"][j] % 4 == 0 for a in case["attrs"]):
                        xs = np.array(xs, dtype="int64")
                    cols[p] = xs
            self.population_view.update(pd.DataFrame(cols, index=pop_data.index))
            self.int_cols = {c for c, v in cols.items() if getattr(v, "dtype", None) == np.dtype("int64") and c in params}

        def change(self, u):
            """another component's work between two reads: new key values (a simulant changes group) / parameter values (ageing)"""
            cols = {}
            for j, k in enumerate(case["keys"]):
                cols[k] = keycol([a["keys"][j] for a in u["attrs"]], False)
            for j, p in enumerate(params):
                if p != "year":
                    xs = [a["xs"][j] / 4 for a in u["attrs"]]
                    cols[p] = np.array(xs, dtype="int64") if p in self.int_cols else xs
            self.population_view.update(pd.DataFrame(cols, index=pd.Index(np.array(u["sims"], dtype="int64"))))

    class L(Component):
        def __init__(self):
            super().__init__()
            self.table, self.twin, self.build, self.frame, self.before = None, None, None, None, None

        @property
        def name(self):
            return "lookup_probe"

        def setup(self, b):
            self.clock = b.time.clock()
            if forms.get("first_table"):
                b.lookup.build_table(5, value_columns=["other"])              # an unrelated table built first (tables are numbered)
            for kind, args in case.get("badargs", []):
                try:
                    data = {"frame": frame, "list": lambda: [1.0, 2.0], "empty_list": lambda: [], "none": lambda: None, "str": lambda: "abc",
                            "empty_frame": lambda: frame().iloc[:0]}[kind]()
                    b.lookup.build_table(data, **{k: list(v) for k, v in args.items()})
                    out["badargs"].append("ok")
                except Exception as e:  # noqa: BLE001
                    out["badargs"].append("err:" + type(e).__name__)
            try:
                if case["kind"] == "scalar":
                    self.table = b.lookup.build_table(scalar_data(), value_columns=seq(case["values"]))
                else:
                    kwargs = {"key_columns": seq(case["keys"], "keys"), "parameter_columns": seq(params, "params")}
                    if case["explicit_values"]:
                        kwargs["value_columns"] = seq(case["values"])
                    elif forms.get("values_omitted") is False:
                        kwargs["value_columns"] = ()
                    if forms.get("omit_empty"):          # leave out the arguments that are empty (defaults of the interface)
                        kwargs = {k: v for k, v in kwargs.items() if len(v)}
                    self.frame = frame()
                    self.before = self.frame.copy(deep=True)
                    tw = forms.get("twin")
                    if tw and tw.get("first"):        # a second table on the SAME data object, built first
                        self.twin = b.lookup.build_table(self.frame, **dict(kwargs, value_columns=seq(tw["values"])))
                    self.table = b.lookup.build_table(self.frame, **kwargs)
                    if tw and not tw.get("first"):
                        self.twin = b.lookup.build_table(self.frame, **dict(kwargs, value_columns=seq(tw["values"])))
                self.build = "ok"
            except Exception as e:  # noqa: BLE001
                self.build = "err:" + type(e).__name__
            if any(c.get("where") == "initializer" for c in case["calls"]):
                # an initializer that creates no column, declared to need the attribute columns: the first use of the table
                b.population.initializes_simulants(self.first_use, creates_columns=[], requires_columns=pop_cols)

        def first_use(self, pop_data):
            for ci, c in enumerate(case["calls"]):
                if c.get("where") == "initializer":
                    lookup(ci, pop_data.index, self.clock(), None)

    class Untracker(Component):
        """writes tracked = False for some simulants at the start of a step, remembers the index the framework hands to
        listeners (event.index: untracked simulants included) and performs the calls made inside a listener"""

        def __init__(self):
            super().__init__()
            self.nstep, self.event_index = 0, None

        @property
        def name(self):
            return "untracker"

        def setup(self, b):
            self.view = b.population.get_view(["tracked"])
            self.clock = b.time.clock()

        def on_time_step(self, e):
            self.nstep += 1
            for at, sims in case.get("untrack", []):
                if at == self.nstep and sims:
                    self.view.update(pd.Series(False, index=pd.Index(np.array(sims, dtype="int64")), name="tracked"))
            self.event_index = e.index
            for ci, c in enumerate(case["calls"]):
                if c.get("where") == "listener" and c["after"] == self.nstep and not c.get("op"):
                    lookup(ci, resolve(c), self.clock(), sim.get_population(untracked=True))

    def resolve(c):
        if c["idx"] == "event":          # the index of the last time_step event (whole population before the first step)
            return unt.event_index if unt.event_index is not None else sim.get_population(untracked=True).index
        if c["idx"] == "all":
            return sim.get_population(untracked=True).index
        return pd.Index(np.array(c["idx"], dtype="int64"))

    SimulationContext._clear_context_cache()
    lk = L()
    unt = Untracker()
    popc = Pop()
    comps = ([popc] if pop_cols else []) + [lk, unt]
    y, m, d = case["start"]
    cfg = {"population": {"population_size": len(case["attrs"])},
           "time": {"start": {"year": y, "month": m, "day": d}, "end": {"year": y + 30, "month": 1, "day": 1},
                    "step_size": case["step_days"]}}
    if case.get("extrapolate") is not None:          # None: the key is left out, the framework default applies
        cfg["interpolation"] = {"extrapolate": case["extrapolate"]}
    try:
        sim = SimulationContext(components=comps, configuration=cfg, logging_verbosity=0)
        sim.setup()
        out["build"] = lk.build
        sim.initialize_simulants()
        nsteps = max([c["after"] for c in case["calls"]] + [0])
        for k in range(nsteps + 1):
            for ci, c in enumerate(case["calls"]):
                if c["after"] == k and c.get("where", "outside") == "outside":
                    if c.get("op") == "update":
                        try:
                            popc.change(c)
                            out["updates"].append("ok")
                        except Exception as e:  # noqa: BLE001
                            out["updates"].append("err:" + type(e).__name__)
                    else:
                        lookup(ci, resolve(c), sim._clock.time, sim.get_population(untracked=True))
            if k < nsteps:
                sim.step()
    except Exception as e:  # noqa: BLE001
        out["error"] = f"{type(e).__name__}: {e}"
    if lk.frame is not None:          # building and using tables must leave the caller's data object alone
        out["data_unchanged"] = bool(lk.frame.equals(lk.before) and list(lk.frame.columns) == list(lk.before.columns)
                                     and lk.frame.dtypes.astype(str).tolist() == lk.before.dtypes.astype(str).tolist())
    return out


# ------------------------------------------------------------------------------------------------ property
class C15(Prop):
    id = "C15"
    lean_modules = ["VivModel.Props.C15"]
    build_targets = ["VivModel.Model.Lookup", "VivModel.Model.Proto"]
    driver = "C15"
    technique = ("Lean 4 proof (digitize over strictly sorted edges; the code's bin search + left merge equals the unique covering "
                 "row on well-formed grids; grouping / write-back by label equals the pointwise lookup) + differential "
                 "correspondence with real lookup tables in running simulations and a brute-force row scan")
    partial = ("year_param is proved as year_param_partial (tm_yday ≤ 365); on 31 December of a leap year the code's year value leaves "
               "the clock's calendar year (known finding F16, witness theorem year_param_leap_dec31_witness)")
    n_quick = 130
    n_thorough = 2500
    workers = 4
    case_timeout = 60
    rule = ("each case is a whole simulation with one lookup table: binned (0-2 key columns, 1-3 parameters incl. a clock-driven year "
            "parameter, 1-4 irregular quarter-integer bins each, bins differing between key groups, 1-2 value columns, shuffled rows), "
            "categorical or scalar; attributes inside bins, on every edge, outside both ends; 1-4 calls after 0-3 steps with permuted / "
            "partial / repeated / empty indexes; extrapolation on and off; malformed data (gap, overlap, duplicate row, missing "
            "combination) and unknown key values as the rejected stream; distinct by case hash; non-trivial = an accepted call "
            "returned rows for at least two simulants")

    # ------------------------------------------------------------------ generation
    def _edges(self, rng, year_base=None):
        k = rng.choice([1, 2, 2, 3, 3, 4])
        if year_base is None:
            return sorted(rng.sample(range(-8, 25), k + 1))
        if rng.random() < 0.5:           # whole years
            y0 = year_base + rng.choice([-1, 0, 0])
            return [4 * (y0 + i) for i in range(k + 1)]
        return sorted(rng.sample(range(4 * (year_base - 1), 4 * (year_base + 3)), k + 1))

    def generate(self, rng: random.Random, i: int, tier: str):
        r = rng.random()
        if r < 0.04:
            bins = sorted(rng.sample(range(-20, 40), rng.randint(1, 6)))
            xs = bins + [b + d for b in bins for d in (-1, 1)] + [rng.randint(-30, 50) for _ in range(4)]
            rng.shuffle(xs)
            return {"kind": "unit", "bins": bins, "xs": xs}
        kind = "interp" if r < 0.8 else "categorical" if r < 0.9 else "scalar"
        start = rng.choice([[2020, 12, 30], [2020, 12, 30], [2020, 12, 31], [2019, 12, 30], [2021, 12, 30], [2020, 6, 29], [2024, 12, 29],
                            [2020, 2, 28], [2021, 3, 1], [2021, 9, 30], [2022, 4, 1], [2020, 7, 1]]
                           + [[rng.randint(2018, 2024), rng.randint(1, 12), rng.randint(1, 28)] for _ in range(6)])
        step_days = rng.choice([1, 1, 1, 2, 183, 365])
        n = rng.choice([1, 2, 3, 4, 6, 8])
        case = {"kind": kind, "extrapolate": rng.choice([True, True, False, False, None]), "start": start, "step_days": step_days,
                "keys": [], "params": [], "values": [], "rows": [], "attrs": [{"keys": [], "xs": []} for _ in range(n)],
                "wellformed": True, "malformed": None, "explicit_values": rng.random() < 0.8, "scalar": None, "scalar_list": False}
        cell = itertools.count(100 * rng.randint(1, 9))
        if kind == "scalar":
            nv = rng.choice([1, 1, 2, 3])
            case["scalar_list"] = nv > 1 or rng.random() < 0.3
            case["scalar"] = [next(cell) for _ in range(nv)]
            case["values"] = [f"v{j}" for j in range(nv)]
            form = rng.choice(["list", "tuple", "list_int"]) if case["scalar_list"] else rng.choice(["float", "int", "timedelta", "timestamp"])
            case["forms"] = {"scalar_form": form, "tuples": rng.random() < 0.3, "first_table": rng.random() < 0.25, "prior": rng.random() < 0.1}
        else:
            nk = rng.choice([0, 1, 1, 2]) if kind == "interp" else rng.choice([1, 2])
            np_ = rng.choice([1, 1, 2, 2, 3]) if kind == "interp" else 0
            nv = rng.choice([1, 1, 2])
            case["keys"] = [f"k{j}" for j in range(nk)]
            case["values"] = [f"v{j}" for j in range(nv)]
            if case["explicit_values"] and rng.random() < 0.5:
                case["values"].reverse()              # requested in another order than the data has them
            case["forms"] = {"key_dtype": rng.choice(["str", "str", "int", "category", "object"]), "col_shuffle": rng.choice([None, rng.randint(0, 999), rng.randint(0, 999)]),
                             "extra_values": rng.choice([[], [], ["w0"], ["a_extra", "zz_extra"]]) if case["explicit_values"] else [],
                             "bin_int": rng.random() < 0.5, "attr_int": rng.random() < 0.5,
                             "tuples": [t for t in ("keys", "params", "values") if rng.random() < 0.4],
                             "first_table": rng.random() < 0.25, "prior": rng.random() < 0.12, "omit_empty": rng.random() < 0.4}
            params = [f"p{j}" for j in range(np_)]
            if np_ and rng.random() < 0.4:
                params[rng.randrange(np_)] = "year"
            case["params"] = params
            keyvals = [rng.sample(KEYVALS[j], rng.randint(1, len(KEYVALS[j]))) for j in range(nk)]
            combos = [list(c) for c in itertools.product(*keyvals)]
            if nk == 2 and len(combos) > 2 and rng.random() < 0.3:
                combos.pop(rng.randrange(len(combos)))
            shared = [self._edges(rng, start[0] if p == "year" else None) for p in params]
            rows, group_edges = [], {}
            for kc in combos:
                ed = shared if rng.random() < 0.65 else [self._edges(rng, start[0] if p == "year" else None) for p in params]
                group_edges[tuple(kc)] = ed
                for bins in itertools.product(*[list(zip(e[:-1], e[1:])) for e in ed]):
                    rows.append({"keys": kc, "bins": [list(b) for b in bins], "vals": [next(cell) for _ in range(nv)]})
            # malformed data: the rejected stream
            if kind == "interp" and rng.random() < 0.2:
                rows = self._malform(rng, case, rows, combos)
            rng.shuffle(rows)
            case["rows"] = rows
            # population attributes
            in_range_only = (case["extrapolate"] is False) and rng.random() < 0.6
            for a in case["attrs"]:
                kc = rng.choice(combos)
                a["keys"] = list(kc)
                if nk and rng.random() < 0.04:
                    a["keys"] = list(kc[:-1]) + ["zz"]               # a key value the data does not have
                ed = group_edges[tuple(kc)]
                xs = []
                for p, e in zip(params, ed):
                    if p == "year":
                        xs.append(0)
                        continue
                    inside = list(e[:-1]) + [x + 1 for x in e[:-1]] + [e[-1] - 1] + [(e[0] + e[-1]) // 2]
                    inside = [x for x in inside if e[0] <= x < e[-1]]
                    outside = [e[0] - 1, e[0] - 9, e[-1], e[-1] + 1, e[-1] + 13]
                    xs.append(rng.choice(inside if in_range_only or rng.random() < 0.7 else outside))
                a["xs"] = xs
        calls = []
        for _ in range(rng.randint(1, 4)):
            r = rng.random()
            if r < 0.08:
                idx = []
            elif r < 0.3:
                idx = [rng.randrange(n) for _ in range(rng.randint(1, n + 2))]      # repeats allowed
            else:
                idx = rng.sample(range(n), rng.randint(1, n))
            where = rng.choice(["outside", "outside", "outside", "listener", "listener", "initializer"])
            call = {"after": rng.choice([0, 0, 1, 1, 2, 3]), "idx": idx, "where": where}
            if where == "listener":
                call["after"] = max(call["after"], 1)
            if where == "initializer":               # the table's first use: inside an initializer during initial population creation
                call.update(after=0, idx="created")
            calls.append(call)
        if rng.random() < 0.4:
            at = rng.choice([1, 1, 2])
            case["untrack"] = [[at, sorted(rng.sample(range(n), rng.randint(1, n)))]]
            for c in calls:
                if rng.random() < 0.7 and c["where"] != "initializer":
                    c["after"] = max(c["after"], at + rng.choice([0, 0, 1]))
        else:
            case["untrack"] = []
        for c in calls:
            if rng.random() < 0.25 and c["where"] != "initializer":
                c["idx"] = rng.choice(["event", "all"])
        # LESSONS 12: the same read again – verbatim, on a covered sub-index, permuted – after other reads, after another
        # component changed key / parameter attributes of requested simulants, after a clock step; by another caller; on a twin table
        fm = case.get("forms", {})
        if kind != "scalar" and fm.get("key_dtype") in ("str", "object", "category") and rng.random() < 0.5:
            fm["pop_key_dtype"] = rng.choice(["str", "object", "category"])       # the population carries the keys in another dtype
        if kind != "scalar" and case["explicit_values"] and case["wellformed"] and rng.random() < 0.25:
            tv = list(case["values"])
            rng.shuffle(tv)
            fm["twin"] = {"values": tv[:rng.randint(1, len(tv))], "first": rng.random() < 0.5}
        has_cols = bool(case["keys"] or [p for p in case["params"] if p != "year"])
        if rng.random() < 0.5:
            base = rng.choice([c for c in calls if c["where"] != "initializer"] or [None])
            if base is not None:
                extra = []
                for _ in range(rng.randint(0, 2)):
                    r = rng.random()
                    if r < 0.55 and has_cols and n >= 2:
                        # another component's work: two simulants swap their attributes (one of them requested by the base read if possible)
                        pool = base["idx"] if isinstance(base["idx"], list) and base["idx"] else list(range(n))
                        s1 = rng.choice(pool)
                        s2 = rng.choice([x for x in range(n) if x != s1])
                        cur = self._at(dict(case, calls=calls + extra), len(calls) + len(extra))["attrs"]
                        extra.append({"op": "update", "after": base["after"], "where": "outside", "sims": [s1, s2], "attrs": [cur[s2], cur[s1]]})
                    else:
                        extra.append({"after": base["after"], "idx": rng.sample(range(n), rng.randint(1, n)), "where": "outside"})
                variant = rng.choice(["verbatim", "verbatim", "sub-index", "permuted"])
                idx = base["idx"]
                if isinstance(idx, list) and idx:
                    idx = list(idx) if variant == "verbatim" else rng.sample(idx, rng.randint(1, len(idx))) if variant == "sub-index" else rng.sample(idx, len(idx))
                else:
                    variant = "verbatim"
                rpt = dict(base, idx=idx, repeat=variant, where=rng.choice(["outside", "outside", "listener"]),
                           after=base["after"] + rng.choice([0, 0, 0, 1]))
                if rpt["where"] == "listener":
                    rpt["after"] += 1
                calls = calls + extra + [rpt]
        if fm.get("twin"):
            for c in calls:
                if not c.get("op") and rng.random() < 0.4:
                    c["table"] = "twin"
        case["calls"] = calls
        # build_table calls the interface must refuse (made before the real table is built)
        if rng.random() < 0.12:
            cat = [["list", {"value_columns": []}], ["list", {"value_columns": ["a"]}], ["list", {"value_columns": ["a", "b"], "key_columns": ["k"]}],
                   ["list", {"value_columns": ["a", "b"], "parameter_columns": ["p"]}], ["empty_list", {"value_columns": []}], ["none", {}],
                   ["str", {"value_columns": ["a"]}]]
            if case["rows"]:
                ok = {"key_columns": case["keys"], "parameter_columns": case["params"], "value_columns": case["values"]}
                cat += [["frame", {}], ["empty_frame", ok], ["frame", dict(ok, value_columns=["nonexistent"])]]
                if case["keys"]:
                    cat.append(["frame", dict(ok, value_columns=[case["keys"][0]])])
                if case["params"]:
                    cat.append(["frame", dict(ok, key_columns=case["keys"] + [case["params"][0]])])
            case["badargs"] = rng.sample(cat, rng.randint(1, 3))
        return case

    def _malform(self, rng, case, rows, combos):
        kc = rng.choice(combos)
        grp = [r for r in rows if r["keys"] == kc]
        np_ = len(case["params"])
        kinds = ["gap", "overlap", "duplicate"] + (["missing"] * 2 if np_ >= 2 else [])
        rng.shuffle(kinds)
        for kind in kinds:
            if kind == "duplicate":
                r = rng.choice(grp)
                case.update(wellformed=False, malformed="duplicate")
                return rows + [dict(r, vals=[v + 5000 for v in r["vals"]])]
            if kind == "missing":
                cands = [r for r in grp if all(any(o is not r and o["bins"][p][0] == r["bins"][p][0] for o in grp) for p in range(np_))]
                if cands:
                    r = rng.choice(cands)
                    case.update(wellformed=False, malformed="missing")
                    return [x for x in rows if x is not r]
            if kind in ("gap", "overlap"):
                # move the right edge of a bin that has a right neighbour (in every row of the group with that bin)
                p = rng.randrange(np_)
                starts = sorted({r["bins"][p][0] for r in grp})
                if len(starts) < 2:
                    continue
                s = rng.choice(starts[:-1])
                delta = -1 if kind == "gap" else 1
                ok = all(r["bins"][p][1] + delta > r["bins"][p][0] or kind == "gap" for r in grp if r["bins"][p][0] == s)
                if not ok:
                    continue
                case.update(wellformed=False, malformed=kind)
                out = []
                for r in rows:
                    if r["keys"] == kc and r["bins"][p][0] == s:
                        b = [list(x) for x in r["bins"]]
                        b[p][1] += delta
                        r = dict(r, bins=b)
                    out.append(r)
                return out
        return rows

    def boundary(self):
        rows1 = [{"keys": [], "bins": [[4 * y, 4 * (y + 1)]], "vals": [y - 2000]} for y in (2019, 2020, 2021)]
        base = {"kind": "interp", "extrapolate": True, "keys": [], "params": ["year"], "values": ["v0"], "rows": rows1,
                "attrs": [{"keys": [], "xs": [0]}, {"keys": [], "xs": [0]}], "wellformed": True, "malformed": None,
                "explicit_values": True, "scalar": None, "scalar_list": False, "step_days": 1}
        out = []
        # F16: the year parameter across 31 December of a leap year (30 Dec, 31 Dec, 1 Jan, 2 Jan)
        out.append(dict(base, start=[2020, 12, 30], calls=[{"after": k, "idx": [1, 0]} for k in range(4)]))
        # the same dates in a common year
        out.append(dict(base, start=[2019, 12, 30], calls=[{"after": k, "idx": [0, 1]} for k in range(4)]))
        # no extrapolation, last bin ends with the leap year
        out.append(dict(base, extrapolate=False, rows=rows1[:2], start=[2020, 12, 30], calls=[{"after": k, "idx": [0]} for k in range(2)]))
        # quarter-year edges: the day of the year matters (5 May 2021 is in [2021.25, 2021.5); 1 July / 30 June around 2021.5)
        rowsq = [{"keys": [], "bins": [[q, q + 1]], "vals": [q]} for q in range(4 * 2021 - 2, 4 * 2022 + 1)]
        out.append(dict(base, rows=rowsq, start=[2021, 5, 5], step_days=28, calls=[{"after": k, "idx": [0]} for k in range(4)]))
        out.append(dict(base, rows=rowsq, extrapolate=False, start=[2021, 9, 28], step_days=2, calls=[{"after": k, "idx": [1, 0]} for k in range(4)]))
        # every edge, one quarter inside / outside, permuted + repeated request, two keys groups with different bins
        rows2 = []
        cell = itertools.count(1)
        for kc, ed in ((["a"], [-2, 0, 3, 10]), (["b"], [1, 2, 9])):
            for b0 in zip(ed[:-1], ed[1:]):
                for b1 in ((0, 4), (4, 5)):
                    rows2.append({"keys": kc, "bins": [list(b0), list(b1)], "vals": [next(cell), next(cell)]})
        xs = [-3, -2, -1, 0, 1, 2, 3, 9, 10, 11]
        attrs = [{"keys": ["a" if j % 2 == 0 else "b"], "xs": [x, [0, 3, 4, 5][j % 4]]} for j, x in enumerate(xs)]
        attrs_in = [{"keys": ["a" if j % 2 == 0 else "b"], "xs": [x, [0, 3, 4][j % 3]]} for j, x in enumerate([-2, 1, 0, 2, 3, 8, 9, 8])]
        b2 = {"kind": "interp", "keys": ["k0"], "params": ["p0", "p1"], "values": ["v0", "v1"], "rows": rows2[::-1],
              "wellformed": True, "malformed": None, "explicit_values": True, "scalar": None, "scalar_list": False,
              "start": [2021, 5, 5], "step_days": 1}
        out.append(dict(b2, extrapolate=True, attrs=attrs, calls=[{"after": 0, "idx": list(range(10))}, {"after": 0, "idx": [9, 3, 3, 0, 8, 4]},
                                                                   {"after": 1, "idx": [5]}, {"after": 0, "idx": []}]))
        out.append(dict(b2, extrapolate=False, attrs=attrs, calls=[{"after": 0, "idx": [3, 4, 5, 6]}, {"after": 0, "idx": [3, 9]}, {"after": 0, "idx": [0]},
                                                                    {"after": 0, "idx": [8]}, {"after": 0, "idx": [7]}]))
        out.append(dict(b2, extrapolate=False, attrs=attrs_in, explicit_values=False, calls=[{"after": 0, "idx": [7, 6, 5, 4, 3, 2, 1, 0]}, {"after": 0, "idx": [2, 2]}]))
        # malformed: gap, overlap, missing combination, duplicate row
        gap = [dict(r, bins=[[r["bins"][0][0], r["bins"][0][1] - 1], r["bins"][1]]) if r["keys"] == ["a"] and r["bins"][0][0] == 0 else r for r in rows2]
        ovl = [dict(r, bins=[[r["bins"][0][0], r["bins"][0][1] + 1], r["bins"][1]]) if r["keys"] == ["b"] and r["bins"][0][0] == 1 else r for r in rows2]
        for name, rows in (("gap", gap), ("overlap", ovl), ("missing", rows2[:3] + rows2[4:]), ("duplicate", rows2 + [dict(rows2[0], vals=[77, 78])])):
            out.append(dict(b2, extrapolate=True, rows=rows, wellformed=False, malformed=name, attrs=attrs_in, calls=[{"after": 0, "idx": [0]}]))
        # categorical, unknown key; scalar tables
        cat = {"kind": "categorical", "extrapolate": True, "keys": ["k0", "k1"], "params": [], "values": ["v0", "v1"],
               "rows": [{"keys": [a, b], "bins": [], "vals": [10 * i + j, 100 + 10 * i + j]} for i, a in enumerate("ab") for j, b in enumerate("xy")],
               "attrs": [{"keys": ["a", "y"], "xs": []}, {"keys": ["b", "x"], "xs": []}, {"keys": ["a", "y"], "xs": []}, {"keys": ["c", "x"], "xs": []}],
               "wellformed": True, "malformed": None, "explicit_values": True, "scalar": None, "scalar_list": False, "start": [2021, 5, 5], "step_days": 1,
               "calls": [{"after": 0, "idx": [2, 1, 0]}, {"after": 0, "idx": [1, 1]}, {"after": 0, "idx": [3]}, {"after": 0, "idx": [0, 3]}, {"after": 1, "idx": []}]}
        out.append(cat)
        for vals, as_list in (([7], False), ([7], True), ([7, 8, 9], True)):
            out.append({"kind": "scalar", "extrapolate": True, "keys": [], "params": [], "values": [f"v{j}" for j in range(len(vals))], "rows": [],
                        "attrs": [{"keys": [], "xs": []}] * 3, "wellformed": True, "malformed": None, "explicit_values": True, "scalar": vals,
                        "scalar_list": as_list, "start": [2021, 5, 5], "step_days": 1,
                        "calls": [{"after": 0, "idx": [2, 0]}, {"after": 0, "idx": [1, 1, 1]}, {"after": 1, "idx": []}]})
        # simulants become untracked during step 1; later requests (explicit labels, event.index, whole population) include them
        out.append(dict(b2, extrapolate=True, attrs=attrs, untrack=[[1, [0, 3, 4, 9]]],
                        calls=[{"after": 1, "idx": [9, 3, 5, 0]}, {"after": 2, "idx": "event"}, {"after": 1, "idx": "all"}, {"after": 0, "idx": [0, 3]}, {"after": 2, "idx": [4]}]))
        out.append(dict(b2, extrapolate=False, attrs=attrs_in, untrack=[[1, [1, 6]]],
                        calls=[{"after": 1, "idx": [6, 1, 2]}, {"after": 1, "idx": "all"}]))
        out.append(dict(base, start=[2021, 5, 5], untrack=[[2, [1]]], calls=[{"after": 2, "idx": [1, 0]}, {"after": 3, "idx": "event"}]))
        out.append(dict(cat, untrack=[[1, [0, 1]]], calls=[{"after": 1, "idx": [2, 1, 0]}, {"after": 2, "idx": [1]}, {"after": 1, "idx": "event"}]))
        out.append({"kind": "scalar", "extrapolate": True, "keys": [], "params": [], "values": ["v0", "v1"], "rows": [], "attrs": [{"keys": [], "xs": []}] * 3,
                    "wellformed": True, "malformed": None, "explicit_values": True, "scalar": [7, 8], "scalar_list": True, "start": [2021, 5, 5], "step_days": 1,
                    "untrack": [[1, [2]]], "calls": [{"after": 1, "idx": [2, 0]}, {"after": 1, "idx": "all"}]})
        # every accepted data / argument form on one grid: int and categorical keys, value columns requested in another order,
        # unrequested data columns, shuffled column order, integer bin edges, tuples where they work, arguments left out,
        # default extrapolation (key absent from the configuration), another table built first, an earlier simulation in the
        # process; first use of the table inside an initializer during population creation, use inside a time_step listener
        rows_w = [dict(r, bins=[[4 * b for b in r["bins"][0]], [4 * b for b in r["bins"][1]]]) for r in rows2]
        attrs_w = [{"keys": a["keys"], "xs": [4 * x for x in a["xs"]]} for a in attrs]
        for kd, ex in (("int", None), ("category", False), ("str", None)):
            out.append(dict(b2, values=["v1", "v0"], rows=rows_w, attrs=attrs_w, extrapolate=ex,
                            forms={"key_dtype": kd, "col_shuffle": 7, "extra_values": ["w0", "a_extra"], "bin_int": True, "attr_int": True,
                                   "tuples": ["keys", "params"], "first_table": True, "prior": kd == "int", "omit_empty": True},
                            badargs=[["frame", {}], ["list", {"value_columns": ["a"]}], ["none", {}], ["frame", {"key_columns": ["k0"], "parameter_columns": ["p0", "p1"], "value_columns": ["k0"]}]],
                            calls=[{"after": 0, "idx": "created", "where": "initializer"}, {"after": 1, "idx": [9, 0, 3], "where": "listener"},
                                   {"after": 2, "idx": "event", "where": "listener"}, {"after": 0, "idx": [5, 4]}, {"after": 1, "idx": [2]}]))
        out.append(dict(b2, extrapolate=True, attrs=attrs, forms={"tuples": ["keys", "params", "values"]}, calls=[{"after": 0, "idx": [9, 3, 0]}]))
        out.append(dict(b2, extrapolate=True, attrs=attrs, values=["v0"], rows=[dict(r, vals=r["vals"][:1]) for r in rows2], forms={"tuples": ["values"]},
                        calls=[{"after": 0, "idx": [2, 1]}]))
        out.append(dict(cat, forms={"tuples": ["keys", "values"]}, calls=[{"after": 0, "idx": [2, 1, 0]}]))
        out.append(dict(cat, forms={"key_dtype": "category", "col_shuffle": 3, "extra_values": ["w0"], "tuples": ["keys", "values"], "first_table": True},
                        values=["v1", "v0"], calls=[{"after": 0, "idx": "created", "where": "initializer"}, {"after": 1, "idx": [2, 0], "where": "listener"}]))
        out.append(dict(cat, forms={"key_dtype": "int", "omit_empty": True}, explicit_values=False,
                        calls=[{"after": 0, "idx": [1, 0, 2]}, {"after": 0, "idx": [3]}]))
        for form, vals in (("int", [7]), ("tuple", [7, 8]), ("list_int", [7, 8, 9]), ("timedelta", [3]), ("timestamp", [11])):
            out.append({"kind": "scalar", "extrapolate": None, "keys": [], "params": [], "values": [f"v{j}" for j in range(len(vals))], "rows": [],
                        "attrs": [{"keys": [], "xs": []}] * 3, "wellformed": True, "malformed": None, "explicit_values": True, "scalar": vals,
                        "scalar_list": len(vals) > 1, "forms": {"scalar_form": form, "tuples": ["values"], "first_table": True}, "start": [2021, 5, 5], "step_days": 1,
                        "badargs": [["list", {"value_columns": []}], ["empty_list", {"value_columns": []}], ["str", {"value_columns": ["a"]}]],
                        "calls": [{"after": 0, "idx": "created", "where": "initializer"}, {"after": 1, "idx": [2, 0, 2], "where": "listener"}, {"after": 0, "idx": []}]})
        # LESSONS 12: the same read repeated verbatim / on a sub-index / permuted, with another component changing key and parameter
        # attributes of requested simulants in between, by different callers, alternating with a twin table built on the SAME data
        # object; a year read repeated across New Year
        upd = lambda sims, after=0: {"op": "update", "after": after, "where": "outside", "sims": sims, "attrs": [attrs[sims[1]], attrs[sims[0]]]}   # noqa: E731
        out.append(dict(b2, extrapolate=True, attrs=attrs, forms={"twin": {"values": ["v1"], "first": True}, "pop_key_dtype": "category"},
                        calls=[{"after": 0, "idx": [0, 1, 2, 3]}, {"after": 0, "idx": [0, 1, 2, 3], "repeat": "verbatim"}, upd([0, 1]),
                               {"after": 0, "idx": [0, 1, 2, 3], "repeat": "verbatim"}, {"after": 0, "idx": [1, 0], "repeat": "sub-index", "table": "twin"},
                               {"after": 0, "idx": [5, 4]}, {"after": 1, "idx": [3, 2, 1, 0], "repeat": "permuted", "where": "listener"},
                               upd([2, 7], after=1), {"after": 1, "idx": [0, 1, 2, 3], "repeat": "verbatim", "table": "twin"}, {"after": 1, "idx": [0, 1, 2, 3], "repeat": "verbatim"},
                               {"after": 2, "idx": "all", "where": "listener"}]))
        out.append(dict(base, start=[2021, 12, 31], rows=rows1 + [{"keys": [], "bins": [[4 * 2022, 4 * 2023]], "vals": [22]}],
                        calls=[{"after": 0, "idx": [1, 0]}, {"after": 0, "idx": [1, 0], "repeat": "verbatim"}, {"after": 1, "idx": [1, 0], "repeat": "verbatim"},
                               {"after": 2, "idx": [1, 0], "repeat": "verbatim", "where": "listener"}, {"after": 2, "idx": [1, 0], "repeat": "verbatim"}]))
        out.append(dict(cat, forms={"twin": {"values": ["v1", "v0"], "first": False}, "key_dtype": "object", "pop_key_dtype": "category"},
                        calls=[{"after": 0, "idx": [2, 1, 0]}, {"op": "update", "after": 0, "where": "outside", "sims": [0, 1], "attrs": [{"keys": ["b", "x"], "xs": []}, {"keys": ["a", "y"], "xs": []}]},
                               {"after": 0, "idx": [2, 1, 0], "repeat": "verbatim"}, {"after": 0, "idx": [1], "repeat": "sub-index", "table": "twin"}]))
        out.append({"kind": "unit", "bins": [0, 40, 100, 160], "xs": [0, 40, 39, 41, -12, 160, 161, 400, 100]})
        out.append({"kind": "unit", "bins": [5], "xs": [4, 5, 6]})
        return out

    def shrink(self, case):
        if case["kind"] == "unit":
            for i in range(len(case["xs"])):
                yield dict(case, xs=case["xs"][:i] + case["xs"][i + 1:])
            return
        if len(case["calls"]) > 1:
            for i in range(len(case["calls"])):
                yield dict(case, calls=case["calls"][:i] + case["calls"][i + 1:])
        if case.get("untrack"):
            yield dict(case, untrack=[])
        for i, c in enumerate(case["calls"]):
            if c.get("op"):
                continue
            if isinstance(c["idx"], str):
                yield dict(case, calls=case["calls"][:i] + [dict(c, idx=list(range(len(case["attrs"]))))] + case["calls"][i + 1:])
                continue
            if len(c["idx"]) > 1:
                for j in range(len(c["idx"])):
                    yield dict(case, calls=case["calls"][:i] + [dict(c, idx=c["idx"][:j] + c["idx"][j + 1:])] + case["calls"][i + 1:])
        if len(case["values"]) > 1 and case["kind"] != "scalar" and not case.get("forms", {}).get("twin"):
            yield dict(case, values=case["values"][:1], rows=[dict(r, vals=r["vals"][:1]) for r in case["rows"]])
        # drop a key group that no requested simulant uses
        used = {tuple(a["keys"]) for a in case["attrs"]} | {tuple(a["keys"]) for c in case["calls"] if c.get("op") for a in c["attrs"]}
        for kc in {tuple(r["keys"]) for r in case["rows"]} - used:
            yield dict(case, rows=[r for r in case["rows"] if tuple(r["keys"]) != kc])

    def run_impl(self, case):
        return _run(case)

    @staticmethod
    def _extrapolate(case):
        """the extrapolation setting from the configuration of the case (key left out: the documented default, True)"""
        return True if case.get("extrapolate") is None else case["extrapolate"]

    @staticmethod
    def _date(case, c):
        """(year, day of year) of the clock at call `c`, from the configured start and step: after k steps outside, during
        step k inside a time_step listener, one step before the start inside an initializer (initial population creation)"""
        import datetime
        k = {"outside": c["after"], "listener": c["after"] - 1, "initializer": -1}[c.get("where", "outside")]
        d = datetime.date(*case["start"]) + datetime.timedelta(days=case["step_days"] * k)
        return d.year, d.timetuple().tm_yday

    @staticmethod
    def _columns(case):
        """the columns of the result: as requested, or – inferred – every non-key, non-bin column of the data in sorted order"""
        return list(case["values"]) if case["explicit_values"] or case["kind"] == "scalar" else sorted(case["values"])

    @staticmethod
    def _call(case, rec):
        """the call of the case with its index resolved to the labels that were actually requested"""
        c = case["calls"][rec["call"]]
        return dict(c, idx=rec["idx"], spec=c["idx"] if isinstance(c["idx"], str) else "labels")

    @staticmethod
    def _proj(case, c, vals):
        """the value cells of a data row as the table of call `c` returns them (the twin table built on the same data object asks
        for its own value columns)"""
        if c.get("table") != "twin" or vals is None:
            return vals
        return [vals[case["values"].index(v)] for v in case["forms"]["twin"]["values"]]

    def _cols_of(self, case, c):
        return list(case["forms"]["twin"]["values"]) if c.get("table") == "twin" else self._columns(case)

    @staticmethod
    def _order(case):
        """indices of case["calls"] in the order the harness executes them: initializer reads, then for k = 0, 1, …: the
        outside operations after k steps (list order), then the reads made inside the time_step listener of step k + 1"""
        calls = case["calls"]
        out = [i for i, c in enumerate(calls) if c.get("where") == "initializer"]
        n = max([c["after"] for c in calls] + [0])
        for k in range(n + 1):
            out += [i for i, c in enumerate(calls) if c.get("where", "outside") == "outside" and c["after"] == k]
            out += [i for i, c in enumerate(calls) if c.get("where") == "listener" and c["after"] == k + 1]
        return out

    def _at(self, case, ci):
        """the case as call `ci` sees it: the attributes of the population after every update executed before that call
        (expectations follow the HISTORY of the case; nothing is read back from the implementation)"""
        attrs = [dict(a) for a in case["attrs"]]
        for j in self._order(case):
            if j == ci:
                break
            u = case["calls"][j]
            if u.get("op") == "update":
                for sim, a in zip(u["sims"], u["attrs"]):
                    attrs[sim] = dict(a)
        return dict(case, attrs=attrs)

    # ------------------------------------------------------------------ model
    def _scale(self, case, j, q):
        return q * 1461 if case["params"][j] == "year" else q

    def _req(self, case, i):
        a = case["attrs"][i]
        ks = ",".join(a["keys"]) or "-"
        xs = ",".join(str(0 if p == "year" else a["xs"][j]) for j, p in enumerate(case["params"])) or "-"
        return f"{i}|{ks}|{xs}"

    def model_lines(self, case, obs):
        if obs["error"]:
            return []
        L = []
        if case["kind"] == "unit":
            return [f"digitize {','.join(map(str, case['bins']))} {x}" for x in case["xs"]]
        if case["kind"] == "scalar":
            for rec in obs["calls"]:
                c = self._call(case, rec)
                L.append(f"scalar {','.join(map(str, case['scalar']))} {','.join(map(str, c['idx'])) or '-'}")
            return L
        ya = case["params"].index("year") if "year" in case["params"] else "-"
        L.append(f"table {len(case['keys'])} {len(case['params'])} {1 if self._extrapolate(case) else 0} {ya}")
        for r in case["rows"]:
            ks = ",".join(r["keys"]) or "-"
            ss = ",".join(str(self._scale(case, j, b[0])) for j, b in enumerate(r["bins"])) or "-"
            es = ",".join(str(self._scale(case, j, b[1])) for j, b in enumerate(r["bins"])) or "-"
            L.append(f"row {ks} {ss} {es} {','.join(map(str, r['vals']))}")
        L.append("build")
        if obs["build"] == "ok":
            for rec in obs["calls"]:
                c = self._call(case, rec)
                y, yd = self._date(case, c)
                view = self._at(case, rec["call"])
                L.append(" ".join([f"call {y} {yd}"] + [self._req(view, i) for i in c["idx"]]))
        return L

    def compare(self, case, obs, replies):
        dis = []
        if case["kind"] == "unit":
            for x, d, i, rep in zip(case["xs"], obs["digitize"], obs["index"], replies):
                if rep != f"{d} {i}":
                    dis.append(f"digitize({x}, {case['bins']}): numpy {d} / clamped {i}, model {rep}")
            return dis
        if case["kind"] == "scalar":
            calls = replies
        else:
            b = replies[1 + len(case["rows"])]
            if (obs["build"] == "ok") != b.startswith("ok"):
                return [f"build: impl {obs['build']}, model {b}"]
            if obs["build"] != "ok":
                return dis
            if case["kind"] == "interp" and (b == "ok 1") != case["wellformed"]:
                dis.append(f"model wellFormed says {b}, the generator built the data {'well-formed' if case['wellformed'] else 'malformed'}")
            calls = replies[2 + len(case["rows"]):]
        for rec, rep in zip(obs["calls"], calls):
            c = self._call(case, rec)
            if rep.startswith("err"):
                if rec["outcome"] == "ok":
                    dis.append(f"call {c}: impl ok, model {rep}")
                continue
            if not rep.startswith("ok") or rec["outcome"] != "ok":
                dis.append(f"call {c}: impl {rec['outcome']}, model {rep}")
                continue
            mrows = []
            for tok in rep.split()[1:]:
                lab, cells = tok.split("=")
                mrows.append([int(lab), None if cells == "nan" else self._proj(case, c, [int(x) for x in cells.split(",")])])
            irows = [[i, None if all(v is None for v in row) else row] for i, row in zip(rec["index"], rec["cells"])]
            if irows != mrows:
                dis.append(f"call {c} at {rec['year']}/{rec['yday']}: impl {irows}, model {mrows}")
        return dis

    # ------------------------------------------------------------------ oracle: brute-force row scan
    @staticmethod
    def _plausible_years(year, yday):
        """the clock's position in its calendar year, in quarter-year units (×4), as a half-open interval:
        [year + (yday-1)/366, year + yday/365) ∩ [year, year+1)  (any convention for the length of a year)"""
        return F(4 * year) + F(4 * (yday - 1), 366), min(F(4 * year) + F(4 * yday, 365), F(4 * (year + 1)))

    @staticmethod
    def _code_year(year, yday):
        """the value the code under test uses: year + tm_yday / 365.25 (×4), as a point"""
        v = F(4 * year) + F(16 * yday, 1461)
        return v, v

    def _scan(self, case, i, yr):
        """rows of the data that the property allows for simulant i when the year parameter lies in `yr`
        (an interval [x0, x1), or a point if x0 == x1); or a reason for rejection"""
        a = case["attrs"][i]
        grp = [r for r in case["rows"] if r["keys"] == a["keys"]]
        if not grp:
            return "unknown-key", None, None
        outside, year_out = False, None
        cand = grp
        for j, p in enumerate(case["params"]):
            lo = min(r["bins"][j][0] for r in grp)
            hi = max(r["bins"][j][1] for r in grp)
            if p == "year":
                x0, x1 = yr
                point = x0 == x1

                def hit(b):
                    s, e = b
                    inside = (s <= x0 < e) if point else (s < x1 and x0 < e)
                    below = x0 < lo and s == lo
                    above = (x0 >= hi if point else x1 > hi) and e == hi
                    return inside or below or above
                cand = [r for r in cand if hit(r["bins"][j])]
                if x0 >= hi or (x0 < lo if point else x1 <= lo):
                    year_out = "all"
                elif x0 < lo or (not point and x1 > hi):
                    year_out = "some"
                continue
            x = a["xs"][j]
            if x < lo:
                outside = True
                cand = [r for r in cand if r["bins"][j][0] == lo]
            elif x >= hi:
                outside = True
                cand = [r for r in cand if r["bins"][j][1] == hi]
            else:
                cand = [r for r in cand if r["bins"][j][0] <= x < r["bins"][j][1]]
        return ("outside" if outside else "inside"), cand, year_out

    def oracle(self, case, obs):
        f = []
        if obs["error"]:
            return [{"sig": "simulation-raised", "msg": obs["error"]}]
        if case["kind"] == "unit":
            b = case["bins"]
            for x, i in zip(case["xs"], obs["index"]):
                ok = 0 <= i < len(b) and ((x < b[0] and i == 0) or (b[i] <= x and (i + 1 == len(b) or x < b[i + 1])))
                if not ok:
                    f.append({"sig": "digitize-spec", "msg": f"x={x}/4 against left edges {b} (/4): bin index {i}"})
            return f
        for (kind, args), got in zip(case.get("badargs", []), obs.get("badargs", [])):
            if got == "ok":
                f.append({"sig": "bad-arguments-accepted", "msg": f"build_table({kind}, {args}) was accepted"})
        if len(obs.get("badargs", [])) != len(case.get("badargs", [])):
            f.append({"sig": "bad-arguments-missing", "msg": f"{obs.get('badargs')}"})
        if len(obs["calls"]) != sum(1 for c in case["calls"] if not c.get("op")):
            f.append({"sig": "call-missing", "msg": f"{len(obs['calls'])} of {len(case['calls'])} calls were made"})
        ext = self._extrapolate(case)
        nupd = sum(1 for c in case["calls"] if c.get("op") == "update")
        if obs.get("updates", []) != ["ok"] * nupd:
            f.append({"sig": "harness-update-refused", "msg": f"attribute updates between reads: {obs.get('updates')}"})
        if obs.get("data_unchanged") is False:
            f.append({"sig": "data-object-modified", "msg": "the DataFrame handed to build_table was modified by building / using the table(s)"})
        if case["kind"] != "scalar":
            if case["wellformed"] and obs["build"] != "ok":
                return [{"sig": "wellformed-data-rejected", "msg": f"build_table: {obs['build']}"}]
            if not case["wellformed"]:
                if obs["build"] == "ok":
                    f.append({"sig": "malformed-data-accepted", "msg": f"data with a {case['malformed']} was accepted"})
                return f
        elif obs["build"] != "ok":
            return [{"sig": "scalar-rejected", "msg": obs["build"]}]
        has_year = "year" in case["params"]
        for rec in obs["calls"]:
            c = self._call(case, rec)
            where = (f"call {c['idx']}{'' if c['spec'] == 'labels' else ' = ' + c['spec']} after {c['after']} steps "
                     f"(clock {rec['year']} day {rec['yday']}, untracked {rec['untracked']})")
            year, yday = self._date(case, c)
            if (rec["year"], rec["yday"]) != (year, yday):
                f.append({"sig": "clock-date", "msg": f"{where}: start {case['start']}, step {case['step_days']} days give {year} day {yday}"})
                continue
            leap_dec31 = has_year and yday == 366
            if case["kind"] == "scalar":
                want = [[i, list(case["scalar"])] for i in c["idx"]]
                if rec["outcome"] != "ok":
                    f.append({"sig": "scalar-call-rejected", "msg": f"{where}: {rec['outcome']}"})
                elif [[i, row] for i, row in zip(rec["index"], rec["cells"])] != want:
                    f.append({"sig": "scalar-broadcast", "msg": f"{where}: {list(zip(rec['index'], rec['cells']))}, expected {want}"})
                elif (rec["type"] == "Series") != (len(case["scalar"]) == 1):
                    f.append({"sig": "result-shape", "msg": f"{where}: {rec['type']} for {len(case['scalar'])} values"})
                continue
            view = self._at(case, rec["call"])        # the population as the history of the case leaves it before this read
            scans = [self._scan(view, i, self._plausible_years(year, yday)) for i in c["idx"]]
            # what the code's own year value (year + tm_yday/365.25) selects – only used to name the known finding F16
            code = [self._scan(view, i, self._code_year(year, yday)) for i in c["idx"]] if leap_dec31 else None
            unknown = [i for i, s in zip(c["idx"], scans) if s[0] == "unknown-key"]
            if unknown:
                if rec["outcome"] == "ok":
                    f.append({"sig": "unknown-key-accepted", "msg": f"{where}: simulants {unknown} have key values without data"})
                continue
            must_reject = (not ext) and (any(s[0] == "outside" for s in scans) or any(s[2] == "all" for s in scans))
            may_reject = (not ext) and any(s[2] == "some" for s in scans)
            if must_reject:
                if rec["outcome"] == "ok" and leap_dec31 and not any(s[0] == "outside" for s in scans) and not any(s[2] == "all" for s in code):
                    # F16 again: the code's year value (year + 366/365.25) is inside the bins although the clock's year is not
                    f.append({"sig": "year-param-outside-clock-year", "msg": f"{where}: extrapolation is off and the clock's year lies outside the year bins, yet the call was accepted: {rec['cells']}"})
                elif rec["outcome"] == "ok":
                    f.append({"sig": "extrapolation-accepted", "msg": f"{where}: extrapolation is off and some value lies outside the bins, yet {rec['cells']}"})
                continue
            if rec["outcome"] != "ok":
                if may_reject:
                    continue
                if leap_dec31 and any(s[2] == "all" for s in code):
                    f.append({"sig": "year-param-outside-clock-year", "msg": f"{where}: every value is inside the bins (the year bins cover {rec['year']}), but the call was rejected: {rec['outcome']}"})
                else:
                    f.append({"sig": "in-range-call-rejected", "msg": f"{where}: {rec['outcome']}"})
                continue
            if rec["index"] != c["idx"]:
                missing = [i for i in c["idx"] if i not in rec["index"]]
                f.append({"sig": "result-index", "msg": f"{where}: result index {rec['index']}" + (f"; requested labels {missing} are missing" if missing else "")})
                continue
            if rec["columns"] != self._cols_of(case, c):
                f.append({"sig": "result-columns", "msg": f"{where}: columns {rec['columns']}, value columns {self._cols_of(case, c)} ({'requested' if case['explicit_values'] else 'inferred'})"})
            if (rec["type"] == "Series") != (len(self._cols_of(case, c)) == 1):
                f.append({"sig": "result-shape", "msg": f"{where}: {rec['type']} for {len(case['values'])} value columns"})
            for i, row, s in zip(c["idx"], rec["cells"], scans):
                allowed = [self._proj(case, c, r["vals"]) for r in s[1]]
                if not allowed or (not has_year and len(allowed) != 1):
                    f.append({"sig": "oracle-ambiguous", "msg": f"{where}: simulant {i}: {len(allowed)} rows match in data the generator built well-formed"})
                elif row not in allowed:
                    # is it the row of the NEXT year, on 31 December of a leap year?
                    if leap_dec31 and row in [self._proj(case, c, r["vals"]) for r in code[c["idx"].index(i)][1]]:
                        f.append({"sig": "year-param-outside-clock-year", "msg": f"{where}: simulant {i} received the cells {row} of the row for {rec['year'] + 1}; the rows covering the clock's year are {allowed}"})
                    else:
                        f.append({"sig": "wrong-row", "msg": f"{where}: simulant {i} (keys {view['attrs'][i]['keys']}, values {view['attrs'][i]['xs']}) received {row}; brute-force row scan gives {allowed}"})
            # independence: one simulant, one answer within a call
            seen = {}
            for i, row in zip(c["idx"], rec["cells"]):
                if seen.setdefault(i, row) != row:
                    f.append({"sig": "repeat-differs", "msg": f"{where}: simulant {i} received {seen[i]} and {row}"})
        # independence across calls made at the same clock
        by = {}
        for rec in obs["calls"]:
            if rec["outcome"] == "ok" and rec.get("index") == rec["idx"]:
                view = self._at(case, rec["call"])
                for i, row in zip(rec["index"], rec["cells"]):
                    k = (i, rec["year"], rec["yday"], case["calls"][rec["call"]].get("table", "main"), str(view["attrs"][i]))
                    if by.setdefault(k, row) != row:
                        f.append({"sig": "depends-on-request", "msg": f"simulant {i} at {rec['year']}/{rec['yday']}: {by[k]} in one request, {row} in another"})
        return f

    # ------------------------------------------------------------------ reporting
    def nontrivial(self, case, obs):
        if case["kind"] == "unit":
            return len(set(obs["index"])) > 1
        return not obs["error"] and any(r["outcome"] == "ok" and len(set(r["index"])) >= 2 for r in obs["calls"])

    def tags(self, case, obs):
        t = ["kind:" + case["kind"]]
        if obs["error"]:
            return t + ["simulation-error"]
        if case["kind"] == "unit":
            b = case["bins"]
            return t + ["digitize:" + ("below" if x < b[0] else "on-edge" if x in b else "above" if x > b[-1] else "between") for x in case["xs"]]
        t.append("build:" + ("ok" if obs["build"] == "ok" else "rejected"))
        t += ["update-between-reads"] * sum(1 for c in case["calls"] if c.get("op") == "update")
        fm0 = case.get("forms", {})
        if fm0.get("pop_key_dtype") and fm0.get("pop_key_dtype") != fm0.get("key_dtype"):
            t.append(f"key-dtype:data-{fm0.get('key_dtype')}-population-{fm0['pop_key_dtype']}")
        t += ["bad-arguments:" + ("refused" if r != "ok" else "accepted") for r in obs.get("badargs", [])]
        if case["kind"] == "scalar":
            t.append("scalar:" + (case.get("forms", {}).get("scalar_form") or ("list" if case["scalar_list"] else "float")) + f":{len(case['scalar'])}")
        else:
            t += [f"keys:{len(case['keys'])}", f"params:{len(case['params'])}", f"values:{len(case['values'])}",
                  "value-columns:" + ("explicit" if case["explicit_values"] else "inferred")]
            if case["malformed"]:
                t.append("malformed:" + case["malformed"])
            fm = case.get("forms", {})
            t.append("key-dtype:" + fm.get("key_dtype", "str")) if case["keys"] else None
            t += [f"form:{k}" for k in ("bin_int", "attr_int", "first_table", "prior", "omit_empty") if fm.get(k)]
            t += [f"form:tuple-{pos}" for pos in (fm.get("tuples") or [])] if isinstance(fm.get("tuples"), list) else []
            t.append("form:columns-shuffled") if fm.get("col_shuffle") is not None else None
            t.append("form:unrequested-data-columns") if fm.get("extra_values") else None
            t.append("form:values-requested-in-other-order") if case["explicit_values"] and case["values"] != sorted(case["values"]) else None
            if "year" in case["params"]:
                t.append("year-parameter")
            if case["kind"] == "interp":
                t.append("extrapolate:" + ("default" if case.get("extrapolate") is None else "on" if case["extrapolate"] else "off"))
                groups = {tuple(r["keys"]) for r in case["rows"]}
                if len({tuple(sorted({tuple(map(tuple, r["bins"])) for r in case["rows"] if tuple(r["keys"]) == k})) for k in groups}) > 1:
                    t.append("bins-differ-between-key-groups")
        for rec in obs["calls"]:
            c = self._call(case, rec)
            t.append("call:" + ("ok" if rec["outcome"] == "ok" else "no-table" if rec["outcome"] == "no-table" else "rejected:" + rec["outcome"][4:]))
            idx = c["idx"]
            t.append("request:" + c["spec"])
            t.append("where:" + c.get("where", "outside"))
            if c.get("repeat"):
                t.append("repeat:" + c["repeat"])
            if c.get("table") == "twin":
                t.append("table:twin-on-same-data-object")
            if set(idx) & set(rec["untracked"]):
                t.append("request:includes-untracked:" + case["kind"])
            t.append("index:" + ("empty" if not idx else "repeated" if len(set(idx)) < len(idx) else
                                 "permuted" if idx != sorted(idx) else "partial" if len(idx) < len(case["attrs"]) else "full"))
            if "year" in case["params"] and rec["yday"] >= 365:
                t.append("clock:last-day-of-year" + (":leap" if rec["yday"] == 366 else ""))
            if case["kind"] == "interp" and rec["outcome"] == "ok":
                view = self._at(case, rec["call"])
                for i in idx:
                    a = view["attrs"][i]
                    grp = [r for r in case["rows"] if r["keys"] == a["keys"]]
                    for j, p in enumerate(case["params"]):
                        if p == "year" or not grp:
                            continue
                        lo, hi = min(r["bins"][j][0] for r in grp), max(r["bins"][j][1] for r in grp)
                        x = a["xs"][j]
                        t.append("value:" + ("below-range" if x < lo else "on-last-end" if x == hi else "above-range" if x > hi else
                                             "on-first-edge" if x == lo else "on-inner-edge" if any(r["bins"][j][0] == x for r in grp) else "inside-bin"))
        return t

    def sample_view(self, case, obs):
        if case["kind"] == "unit":
            return {"case": case, "observed": obs}
        return {"kind": case["kind"], "keys": case["keys"], "params": case["params"], "values": case["values"], "rows": case["rows"][:4],
                "n_rows": len(case["rows"]), "extrapolate": case["extrapolate"], "malformed": case["malformed"], "attrs": case["attrs"][:3],
                "build": obs.get("build"), "calls": [{"call": case["calls"][r["call"]], **{k: r.get(k) for k in ("outcome", "year", "yday", "index", "cells")}}
                                                     for r in obs.get("calls", [])][:2], "error": obs.get("error")}


PROP = C15()
