"""C16 — stratified results count every eligible simulant exactly once.

Tie (correspondence): generated observer programs run in REAL simulations (SimpleClock, births from a
listener, untracking, values that change over time).  A probe listener at priority 0 of every phase first
mutates the population and then snapshots the WHOLE state table (all columns incl. `tracked`, all rows incl.
simulants born in this very phase, which are not in `event.index`); the results manager's own listeners run at
the default priority 5; a second probe listener at priority 9 records `sim.get_results()` (the running results)
and mutates again.  The results are recomputed from the snapshots
  * by the Lean model (`Driver/C16.lean` over `VivModel/Model/Results.lean`): registration, resolution of the
    stratifications of each observation, `stratify` (unknown category => error), binning, filter -> drop excluded
    -> group -> aggregate -> expand -> add, concatenation; compared per event and at the end, as a map
    category-tuple -> exact value (row order ignored), and
  * by the oracle below (plain Python, independent of the model): the property itself.
"""
from __future__ import annotations

import itertools
import random
from fractions import Fraction

from .. import impl
from ..runner import Prop

PH = ["time_step__prepare", "time_step", "time_step__cleanup", "collect_metrics"]
SCALE = 4                       # x values are multiples of 1/4: every number below is an exact dyadic
EDGES_X = [0, 12, 24, 40]       # bin edges of `xb` in quarter units  (0, 3, 6, 10)
LAB_X = ["lo", "mid", "hi"]
EDGES_PV = [0, 8, 16]           # bin edges of `pvb` (pipeline value 0..3) in quarter units (0, 2, 4)
LAB_PV = ["plo", "phi"]

# kind -> (categories, columns used, python mapper over a snapshot row -> raw mapper output (str) )
#   raw output "NaN" stands for a missing value (pd.cut outside the bins)


def _bin(v4, edges, labels):
    """reference semantics of pd.cut(right=False): [e_i, e_{i+1}); outside -> NaN"""
    for i, lab in enumerate(labels):
        if edges[i] <= v4 < edges[i + 1]:
            return lab
    return "NaN"


def pv_of(row):
    """the value pipeline `pv` of the probe population: (3*y + sid) mod 4, as quarter units"""
    return ((3 * row["y"] + row["sid"]) % 4) * SCALE


KINDS = {
    # categorical column, default mapper (mapper=None)
    "g": (["a", "b", "c"], lambda r: r["g"]),
    # per-row mapper (is_vectorized=False) over one column
    "h2": (["U", "V"], lambda r: r["h"].upper()),
    # binned column (register_binned_stratification, target_type column)
    "xb": (LAB_X, lambda r: _bin(r["x"], EDGES_X, LAB_X)),
    # binned value pipeline (target_type value)
    "pvb": (LAB_PV, lambda r: _bin(pv_of(r), EDGES_PV, LAB_PV)),
    # vectorised mapper over a value pipeline
    "pvs": (["p0", "p1", "p2", "p3"], lambda r: "p%d" % (pv_of(r) // SCALE)),
    # vectorised mapper over two columns
    "gy": (["a0", "a1", "b0", "b1", "c0", "c1"], lambda r: r["g"] + str(r["y"] % 2)),
    # per-row mapper over two sources (column + pipeline)
    "hp": (["ue", "uo", "ve", "vo"], lambda r: r["h"] + ("e" if (pv_of(r) // SCALE) % 2 == 0 else "o")),
    # vectorised mappers that return a complete, correctly id-indexed Series whose ROWS ARE NOT IN THE POPULATION'S ORDER
    # (the framework must attach the values to the simulants by label, never by position):
    # split the population by value, label the parts, pd.concat them
    "gcat": (["A", "B", "C"], lambda r: r["g"].upper()),
    # sort internally by the value
    "ysort": (["y0", "y1", "y2"], lambda r: "y%d" % (r["y"] % 3)),
    # reversed
    "hrev": (["ru", "rv"], lambda r: "r" + r["h"]),
    # build a DataFrame, sort it by another column, return one of its columns
    "xfr": (["small", "large"], lambda r: "small" if r["x"] < 5 * SCALE else "large"),
}
REORDERING = ("gcat", "ysort", "hrev", "xfr")
AGGS = ["len", "count", "sumy", "sumx", "sumpv", "sumy_nosrc"]


def row_value(agg, r):
    """the additive aggregate's per-simulant summand, in the observation's integer unit"""
    if agg in ("len", "count"):
        return 1
    if agg in ("sumy", "sumy_nosrc"):
        return r["y"]
    if agg == "sumx":
        return r["x"]          # quarter units
    if agg == "sumpv":
        return pv_of(r)        # quarter units
    raise ValueError(agg)


def agg_scale(agg):
    return SCALE if agg in ("sumx", "sumpv") else 1


def atom_holds(atom, r):
    col, op, c = atom
    v = {"tracked": r["tracked"], "y": r["y"], "x": Fraction(r["x"], SCALE), "g": r["g"], "h": r["h"],
         "pv": Fraction(pv_of(r), SCALE)}[col]
    if col in ("x", "pv"):
        c = Fraction(c).limit_denominator(64)
    return {"==": v == c, "!=": v != c, "<": v < c, "<=": v <= c, ">": v > c, ">=": v >= c}[op]


def passes(flt, r):
    """flt None = the default filter of the interface (tracked simulants only); [] = no filter"""
    if flt is None:
        return bool(r["tracked"])
    return all(atom_holds(a, r) for a in flt)


def query_string(flt):
    out = []
    for col, op, c in flt:
        out.append(f"{col} {op} {c!r}" if not isinstance(c, str) else f'{col} {op} "{c}"')
    return " and ".join(out)


def filter_columns(flt):
    cols = {a[0] for a in (flt or [])} - {"tracked"}
    return sorted(cols - {"pv"}), sorted(cols & {"pv"})


# ---------------------------------------------------------------------------------------- implementation

def _run(case):
    impl.load()
    import pandas as pd
    from vivarium import Component
    from vivarium.framework.engine import SimulationContext
    from vivarium.framework.results.observer import Observer

    out = {"outcome": "ok", "error": None, "events": [], "final": None}
    traj = random.Random(case["tseed"])
    T = case["traj"]
    holder = {}

    def new_values(n, sids):
        xs = []
        for _ in range(n):
            r = traj.random()
            xs.append(traj.choice([0, 12, 24, 39]) if r < T["p_edge"] else traj.randrange(0, 40))
        return {"g": [traj.choice("abc") for _ in range(n)], "h": [traj.choice("uv") for _ in range(n)],
                "x": [v / SCALE for v in xs], "y": [traj.randrange(0, 6) for _ in range(n)], "sid": list(sids)}

    def frame(vals, index):
        return pd.DataFrame({"g": pd.Series(vals["g"], index=index, dtype="str"),
                             "h": pd.Series(vals["h"], index=index, dtype="str"),
                             "x": pd.Series(vals["x"], index=index, dtype="float64"),
                             "y": pd.Series(vals["y"], index=index, dtype="int64"),
                             "sid": pd.Series(vals["sid"], index=index, dtype="int64")}, index=index)

    class Probe(Component):
        @property
        def name(self):
            return "probe"

        @property
        def columns_created(self):
            return ["g", "h", "x", "y", "sid"]

        def setup(self, b):
            self.creator = b.population.get_simulant_creator()
            self.tv = b.population.get_view(["tracked"])
            self.pvview = b.population.get_view(["y", "sid", "tracked"])
            b.value.register_value_producer("pv", source=self._pv, requires_columns=["y", "sid"])
            for k, ph in enumerate(PH):
                b.event.register_listener(ph, (lambda e, k=k: self.pre(k, e)), priority=0)
                b.event.register_listener(ph, (lambda e, k=k: self.post(k, e)), priority=9)
            self.step = 0

        def _pv(self, idx):
            p = self.pvview.get(idx)
            return ((3 * p["y"] + p["sid"]) % 4).astype(float)

        def on_initialize_simulants(self, d):
            self.population_view.update(frame(new_values(len(d.index), d.index), d.index))

        def mutate(self, k, when):
            sim = holder["sim"]
            pop = sim.get_population()
            nb = traj.randint(0, T["max_births"]) if traj.random() < T["p_birth"] else 0
            changes = {"g": {}, "h": {}, "x": {}, "y": {}}
            untrack = []
            tracked = pop["tracked"].to_dict() if len(pop) else {}
            for sid in list(pop.index):
                if traj.random() < T["p_change"]:
                    col = traj.choice(["g", "h", "x", "y"])
                    changes[col][sid] = new_values(1, [sid])[col][0]
                if tracked[sid] and traj.random() < T["p_untrack"]:
                    untrack.append(sid)
            u = case.get("unknown")
            if u and when == "pre" and u["step"] == self.step and u["phase"] == k and len(pop):
                sid = list(pop.index)[u["who"] % len(pop)]
                changes[u["col"]][sid] = {"g": "zz", "h": "w", "x": 10.0}[u["col"]]
            for col, ch in changes.items():
                if ch:
                    dt = {"g": "str", "h": "str", "x": "float64", "y": "int64"}[col]
                    self.population_view.update(pd.Series(list(ch.values()), index=list(ch.keys()), name=col, dtype=dt))
            if untrack:
                self.tv.update(pd.Series(False, index=untrack, name="tracked"))
            if nb:
                self.creator(nb)

        def pre(self, k, e):
            self.mutate(k, "pre")
            sim = holder["sim"]
            pop = sim.get_population()
            inev = set(int(i) for i in e.index)
            rows = []
            for sid, r in zip(pop.index, pop[["sid", "tracked", "g", "h", "x", "y"]].to_dict("records")):
                x4 = float(r["x"]) * SCALE
                rows.append({"sid": int(r["sid"]), "idx": int(sid), "tracked": bool(r["tracked"]), "g": str(r["g"]), "h": str(r["h"]),
                             "x": int(round(x4)), "xexact": x4 == round(x4), "y": int(r["y"]), "in_event": int(sid) in inev})
            out["events"].append({"step": self.step, "phase": k, "time": int(e.time), "clock": int(sim._clock.time),
                                  "rows": rows, "after": None})

        def post(self, k, e):
            sim = holder["sim"]
            res = sim.get_results()
            out["events"][-1]["after"] = {o["name"]: canon_result(res.get(o["name"]), o, pd)
                                          for o in case["obs"] if o["when"] == PH[k] and o["name"] in res}
            self.mutate(k, "post")
            if k == 3:
                self.step += 1

    def register_strat(b, s):
        kind, name, ex = s["kind"], s["name"], s.get("excl_code")
        c = list(s.get("cats", KINDS[kind][0]))
        if kind == "g":
            b.results.register_stratification(name, c, excluded_categories=ex, requires_columns=["g"])
        elif kind == "h2":
            b.results.register_stratification(name, c, excluded_categories=ex, mapper=lambda row: row["h"].upper(),
                                              is_vectorized=False, requires_columns=["h"])
        elif kind == "xb":
            b.results.register_binned_stratification("x", name, [e / SCALE for e in EDGES_X], c, excluded_categories=ex)
        elif kind == "pvb":
            b.results.register_binned_stratification("pv", name, [e / SCALE for e in EDGES_PV], c, excluded_categories=ex,
                                                     target_type="value")
        elif kind == "pvs":
            b.results.register_stratification(name, c, excluded_categories=ex,
                                              mapper=lambda df: df["pv"].map(lambda v: "p%d" % int(v)),
                                              is_vectorized=True, requires_values=["pv"])
        elif kind == "gy":
            b.results.register_stratification(name, c, excluded_categories=ex,
                                              mapper=lambda df: df["g"] + (df["y"] % 2).astype(str),
                                              is_vectorized=True, requires_columns=["g", "y"])
        elif kind == "hp":
            b.results.register_stratification(name, c, excluded_categories=ex,
                                              mapper=lambda row: row["h"] + ("e" if int(row["pv"]) % 2 == 0 else "o"),
                                              is_vectorized=False, requires_columns=["h"], requires_values=["pv"])
        elif kind == "gcat":
            def split_concat(df):
                known = ["c", "a", "b"]
                parts = [df.loc[df["g"] == v, "g"].str.upper() for v in known]
                parts.append(df.loc[~df["g"].isin(known), "g"].str.upper())
                return pd.concat(parts)
            b.results.register_stratification(name, c, excluded_categories=ex, mapper=split_concat, is_vectorized=True,
                                              requires_columns=["g"])
        elif kind == "ysort":
            b.results.register_stratification(name, c, excluded_categories=ex,
                                              mapper=lambda df: "y" + (df["y"].sort_values(ascending=False) % 3).astype(str),
                                              is_vectorized=True, requires_columns=["y"])
        elif kind == "hrev":
            b.results.register_stratification(name, c, excluded_categories=ex, mapper=lambda df: "r" + df["h"].iloc[::-1],
                                              is_vectorized=True, requires_columns=["h"])
        elif kind == "xfr":
            def frame_column(df):
                tmp = df[["x", "y"]].copy()
                tmp["label"] = tmp["x"].map(lambda v: "small" if v < 5 else "large")
                return tmp.sort_values(["x", "y"], ascending=[False, True])["label"]
            b.results.register_stratification(name, c, excluded_categories=ex, mapper=frame_column, is_vectorized=True,
                                              requires_columns=["x", "y"])
        else:
            raise ValueError(kind)

    def register_obs(b, o, add, exc):
        fc, fv = filter_columns(o["filter"])
        kw = dict(name=o["name"], when=o["when"])
        if o["when"] == "collect_metrics" and o.get("default_when"):
            del kw["when"]
        if o["filter"] is not None:
            kw["pop_filter"] = query_string(o["filter"])
        m, rem = o["mod"], o["rem"]
        if m > 1:
            kw["to_observe"] = lambda e, m=m, rem=rem: int(e.time) % m == rem
        if o["type"] == "cat":
            cols = ["sid"] + [c for c in o["cols"] if c != "pv"]
            vals = [c for c in o["cols"] if c == "pv"]
            kw.update(requires_columns=sorted(set(cols) | set(fc), key=lambda c: (c not in cols, c)), requires_values=sorted(set(vals) | set(fv)))
            b.results.register_concatenating_observation(**kw)
            return
        agg = o["agg"]
        rc, rv = set(fc), set(fv)
        if agg == "count":
            kw["aggregator"] = lambda df: len(df)
        elif agg == "sumy":
            kw.update(aggregator_sources=["y"], aggregator=lambda df: df["y"].sum()); rc.add("y")       # noqa: E702
        elif agg == "sumx":
            kw.update(aggregator_sources=["x"], aggregator=lambda df: df["x"].sum()); rc.add("x")       # noqa: E702
        elif agg == "sumpv":
            kw.update(aggregator_sources=["pv"], aggregator=lambda df: df["pv"].sum()); rv.add("pv")    # noqa: E702
        elif agg == "sumy_nosrc":
            kw.update(aggregator=lambda df: df["y"].sum()); rc.add("y")                                  # noqa: E702
        kw.update(requires_columns=sorted(rc), requires_values=sorted(rv))
        if add or o.get("pass_empty"):
            kw["additional_stratifications"] = list(add)
        if exc or o.get("pass_empty"):
            kw["excluded_stratifications"] = list(exc)
        b.results.register_adding_observation(**kw)

    class Direct(Component):
        @property
        def name(self):
            return "direct_registrations"

        def setup(self, b):
            for item in case["order"]:
                kind, i = item
                if kind == "s":
                    register_strat(b, case["strats"][i])
                else:
                    o = case["obs"][i]
                    if o.get("via") != "observer":
                        register_obs(b, o, o.get("add", []), o.get("exc", []))

    class CfgObserver(Observer):
        def __init__(self, o):
            super().__init__()
            self.o = o

        @property
        def name(self):
            return self.o["name"] + "_observer"

        def register_observations(self, b):
            cfg = b.configuration.stratification[self.get_configuration_name()]
            register_obs(b, self.o, list(cfg.include), list(cfg.exclude))

    comps = [Probe(), Direct()] + [CfgObserver(o) for o in case["obs"] if o.get("via") == "observer"]
    strat_cfg = {}
    if case["cfg_default"] is not None:
        strat_cfg["default"] = list(case["cfg_default"])
    if case["cfg_excl"]:
        strat_cfg["excluded_categories"] = {k: list(v) for k, v in case["cfg_excl"].items()}
    for o in case["obs"]:
        if o.get("via") == "observer":
            strat_cfg[o["name"]] = {"include": list(o.get("add", [])), "exclude": list(o.get("exc", []))}
    cfg = {"population": {"population_size": case["pop"]},
           "time": {"start": 0, "end": case["steps"], "step_size": 1}}
    if strat_cfg:
        cfg["stratification"] = strat_cfg
    plug = {"required": {"clock": {"controller": "vivarium.framework.time.SimpleClock",
                                   "builder_interface": "vivarium.framework.time.TimeInterface"}}}
    SimulationContext._clear_context_cache()
    stage = "construct"
    try:
        sim = SimulationContext(components=comps, configuration=cfg, plugin_configuration=plug, logging_verbosity=0)
        holder["sim"] = sim
        stage = "setup"
        sim.setup()
        stage = "init"
        sim.initialize_simulants()
        stage = "run"
        for _ in range(case["steps"]):
            sim.step()
        stage = "results"
        res = sim.get_results()
        out["final"] = {o["name"]: canon_result(res.get(o["name"]), o, pd) for o in case["obs"]}
        out["final_extra"] = sorted(set(res) - {o["name"] for o in case["obs"]})
    except Exception as e:  # noqa: BLE001
        out["outcome"] = stage + "-error"
        out["error"] = f"{type(e).__name__}: {str(e)[:200]}"
        out["error_class"] = type(e).__name__
    return out


def _num(v):
    """exact canonical form of a float: [numerator, denominator] (or a string for nan/inf)"""
    try:
        f = float(v)
    except Exception:  # noqa: BLE001
        return "notnum:" + type(v).__name__
    if f != f:
        return "nan"
    if f in (float("inf"), float("-inf")):
        return "inf"
    a, b = f.as_integer_ratio()
    return [a, b]


def canon_result(df, o, pd):
    """get_results()[name] -> JSON: adding: {"cols": [...], "rows": [[cat..., value]]}; concatenating: cols + rows"""
    if df is None:
        return None
    if o["type"] == "cat":
        cols = [str(c) for c in df.columns]
        rows = []
        for _, r in df.iterrows():
            rows.append([(int(r[c]) if c in ("event_time", "sid", "y") else str(r[c]) if c in ("g", "h") else _num(r[c]))
                         for c in df.columns])
        return {"cols": cols, "rows": rows}
    cols = [str(c) for c in df.columns]
    rows = []
    for _, r in df.iterrows():
        rows.append([(str(r[c]) if c != "value" else _num(r[c])) for c in df.columns])
    return {"cols": cols, "rows": rows}


# ---------------------------------------------------------------------------------------- specification helpers
# (plain Python over the case and the snapshots; used by the oracle and to feed the model its inputs)

def strat_cats(s):
    return list(s.get("cats", KINDS[s["kind"]][0]))


def raw_category(s, r):
    """reference semantics of the probe mapper of stratification `s` on snapshot row `r`"""
    k = s["kind"]
    if k == "xb":
        return _bin(r["x"], EDGES_X, strat_cats(s)) if len(strat_cats(s)) + 1 == len(EDGES_X) else "NaN"
    if k == "pvb":
        return _bin(pv_of(r), EDGES_PV, strat_cats(s)) if len(strat_cats(s)) + 1 == len(EDGES_PV) else "NaN"
    return KINDS[k][1](r)


def exclusions(case, s):
    ex = s.get("excl_code")
    return list(ex) if ex is not None else list((case["cfg_excl"] or {}).get(s["name"], []))


def invalid_reason(case):
    """why the real code must reject this program at setup (None = a valid program).  Mirrors the documented
    `Raises` of add_stratification / register_observation / on_post_setup; not part of the property."""
    seen, onames = set(), set()
    for kind, i in case["order"]:
        if kind == "s":
            s = case["strats"][i]
            c = strat_cats(s)
            if s["kind"] in ("xb", "pvb") and len(c) + 1 != len(EDGES_X if s["kind"] == "xb" else EDGES_PV):
                return "bad-bins"
            if s["name"] in seen:
                return "dup-strat"
            if len(set(c)) != len(c):
                return "dup-category"
            ex = exclusions(case, s)
            if set(ex) - set(c):
                return "unknown-exclusion"
            if not [x for x in c if x not in ex]:
                return "all-excluded"
            seen.add(s["name"])
        else:
            o = case["obs"][i]
            if o["name"] in onames:
                return "dup-observation"
            onames.add(o["name"])
    for o in case["obs"]:
        if o["type"] == "add" and set(obs_strat_names(case, o)) - seen:
            return "missing-strat"
    return None


def obs_strat_names(case, o):
    return sorted((set(case["cfg_default"] or []) | set(o["add"])) - set(o["exc"]))


def strat_by_name(case, name):
    for kind, i in case["order"]:
        if kind == "s" and case["strats"][i]["name"] == name:
            return case["strats"][i]
    return None


def registered_strats(case):
    return [case["strats"][i] for kind, i in case["order"] if kind == "s"]


def to_observe(o, time):
    return o["mod"] <= 1 or time % o["mod"] == o["rem"]


def concat_payload(o, r):
    out = [r["sid"]]
    for c in o["cols"]:
        out.append({"y": r["y"], "x": r["x"], "pv": pv_of(r)}[c])
    return out


def impl_table(res, names, scale):
    """canonical form of an adding observation's formatted result: {key tuple (sorted names): int | str}, problems"""
    probs = []
    cols = res["cols"]
    if names:
        if set(cols) != set(names) | {"value"} or len(cols) != len(names) + 1:
            probs.append(f"columns {cols}, expected {sorted(names)} + value")
            return None, probs
        order = [cols.index(n) for n in names]
    else:
        # not stratified: one row; how the framework labels it ("stratification" = "all") is not part of the property
        if "value" not in cols or len(cols) != 2:
            probs.append(f"columns {cols}, expected one label column + value")
            return None, probs
        order = None
    vi = cols.index("value")
    tab = {}
    for row in res["rows"]:
        k = tuple(row[j] for j in order) if order is not None else ("all",)
        v = row[vi]
        if isinstance(v, list):
            f = Fraction(v[0], v[1]) * scale
            v = int(f) if f.denominator == 1 else str(f)
        if k in tab:
            probs.append(f"duplicate row {k}")
        tab[k] = v
    return tab, probs


def impl_concat(res, o):
    """rows of a concatenating observation as [event_time, sid, included columns in quarter/integer units]"""
    if res is None:
        return None
    if not res["cols"] and not res["rows"]:
        return []
    want = ["event_time", "sid"] + list(o["cols"])
    cols = res["cols"]
    if any(c not in cols for c in want):
        return "columns " + ",".join(cols)
    out = []
    for row in res["rows"]:
        rr = []
        for c in want:
            v = row[cols.index(c)]
            if c in ("x", "pv"):
                f = Fraction(v[0], v[1]) * SCALE if isinstance(v, list) else None
                v = int(f) if f is not None and f.denominator == 1 else str(v)
            rr.append(v)
        out.append(rr)
    return out


def canon_concat(rows):
    """order inside one event is not part of the property: sort inside runs of equal event_time"""
    if not isinstance(rows, list):
        return rows
    out, i = [], 0
    while i < len(rows):
        j = i
        while j < len(rows) and rows[j][0] == rows[i][0]:
            j += 1
        out += sorted(rows[i:j], key=lambda r: [str(x) for x in r])
        i = j
    return out


class C16(Prop):
    id = "C16"
    lean_modules = ["VivModel.Props.C16"]
    build_targets = ["VivModel.Model.Results", "VivModel.Model.Proto"]
    driver = "C16"
    technique = ("Lean 4 proof (induction over rows, strata and events of an executable model of "
                 "ResultsManager/ResultsContext/Stratification/Observation) + differential correspondence: generated "
                 "observer programs in real simulations with births and untracking, results recomputed from population snapshots")
    partial = ("user callables (mappers, pop_filter queries, aggregators, to_observe) and the pandas primitives behind "
               "query/groupby/cut/reindex are inputs of the model: their outputs on the snapshot rows are recomputed by "
               "reference Python in the harness; aggregators are additive (count, sums); float arithmetic idealised "
               "(all values exact dyadics)")
    n_quick = 150
    n_thorough = 2000
    workers = 8
    case_timeout = 60
    rule = ("each case is a whole simulation with a generated observer program (0-4 stratifications of 11 kinds, 4 of them with mapper output in another row order, 1-5 adding / "
            "concatenating observations over the four phases, exclusions from code and configuration, default / additional / "
            "excluded stratifications directly and through Observer configuration, filters, to_observe, 6 aggregators) over a "
            "random trajectory (births, untracking, value changes, optional unknown category); distinct by case hash; "
            "non-trivial = at least one event with an eligible simulant was observed and a non-zero result reported")

    # ------------------------------------------------------------------ generation
    def boundary(self):
        return boundary_cases()

    def generate(self, rng: random.Random, i: int, tier: str):
        return gen_case(rng, tier)

    def shrink(self, case):
        return shrink_case(case)

    # ------------------------------------------------------------------ implementation
    def run_impl(self, case):
        return _run(case)

    # ------------------------------------------------------------------ model
    def model_lines(self, case, obs):
        L = []
        for name, cats in sorted((case["cfg_excl"] or {}).items()):
            L.append(f"cfgexcl {name} {_lst(cats)}")
        if case["cfg_default"] is not None:
            L.append(f"default {_lst(case['cfg_default'])}")
        for kind, i in case["order"]:
            if kind == "s":
                s = case["strats"][i]
                ex = s.get("excl_code")
                edges = {"xb": EDGES_X, "pvb": EDGES_PV}.get(s["kind"])
                L.append(f"strat {s['name']} {_lst(strat_cats(s))} {'none' if ex is None else _lst(ex)} "
                         f"{'none' if edges is None else _lst(edges)}")
            else:
                o = case["obs"][i]
                if o["type"] == "add":
                    L.append(f"obs add {o['name']} {o['when']} {_lst(o['add'])} {_lst(o['exc'])}")
                else:
                    L.append(f"obs cat {o['name']} {o['when']}")
        L.append("setup")
        if obs["outcome"] in ("construct-error", "setup-error", "init-error"):
            return L
        for o in case["obs"]:
            L.append(f"names {o['name']}")
        regs = registered_strats(case)
        for ev in obs["events"]:
            ph = PH[ev["phase"]]
            rows = ev["rows"]
            bits = _lst([1 if r["in_event"] else 0 for r in rows])
            raws = []
            for r in rows:
                toks = []
                for s in regs:
                    if s["kind"] == "xb":
                        toks.append(str(r["x"]))
                    elif s["kind"] == "pvb":
                        toks.append(str(pv_of(r)))
                    else:
                        toks.append(raw_category(s, r))
                raws.append(",".join(toks) if toks else "-")
            line = f"ev {ph} {ev['time']} {bits} {';'.join(raws) if raws else '-'}"
            for o in case["obs"]:
                if o["when"] != ph:
                    continue
                t = 1 if to_observe(o, ev["time"]) else 0
                pb = _lst([1 if passes(o["filter"], r) else 0 for r in rows])
                if o["type"] == "add":
                    data = _lst([row_value(o["agg"], r) for r in rows])
                else:
                    data = ";".join(",".join(str(v) for v in concat_payload(o, r)) for r in rows) if rows else "-"
                line += f" {o['name']}:{t}:{pb}:{data}"
            L.append(line)
            if ev["after"] is not None:
                for o in case["obs"]:
                    if o["when"] == ph:
                        L.append(f"get {o['name']}")
        if obs["final"] is not None:
            for o in case["obs"]:
                L.append(f"get {o['name']}")
        return L

    def compare(self, case, obs, replies):
        dis = []
        it = iter(replies)
        nreg = len((case["cfg_excl"] or {})) + (1 if case["cfg_default"] is not None else 0) + len(case["order"]) + 1
        reg = [next(it) for _ in range(nreg)]
        if any(r == "bad-op" for r in reg):
            return ["driver: bad-op in registration " + str(reg)]
        model_rejects = [r for r in reg if r.startswith("err")]
        impl_rejects = obs["outcome"] in ("construct-error", "setup-error", "init-error")
        if bool(model_rejects) != impl_rejects:
            dis.append(f"setup: implementation {obs['outcome']} ({obs['error']}), model {model_rejects or 'accepts'}")
        if impl_rejects or model_rejects:
            return dis
        onames = {}
        for o in case["obs"]:
            r = next(it)
            onames[o["name"]] = [] if r == "ok -" else r[3:].split(",")
        scale = {o["name"]: agg_scale(o["agg"]) if o["type"] == "add" else 1 for o in case["obs"]}

        def same(o, res, reply, where):
            if not reply.startswith("ok"):
                return [f"{where} {o['name']}: model reply {reply}"]
            body = reply[3:] if len(reply) > 3 else "-"
            if o["type"] == "add":
                mt = {}
                for ent in ([] if body == "-" else body.split(";")):
                    k, v = ent.rsplit("=", 1)
                    mt[tuple([] if (k == "all" and not onames[o["name"]]) else k.split("|"))] = int(v)
                if not onames[o["name"]]:
                    mt = {("all",): v for v in mt.values()}
                tab, probs = impl_table(res, onames[o["name"]], scale[o["name"]])
                if probs or tab != mt:
                    return [f"{where} {o['name']}: implementation {probs or _short(tab)}, model {_short(mt)}"]
                return []
            mr = [] if body == "-" else [[int(x) for x in row.split(",")] for row in body.split(";")]
            ir = impl_concat(res, o)
            if canon_concat(ir) != canon_concat(mr):
                return [f"{where} {o['name']}: implementation rows {str(ir)[:200]}, model rows {str(mr)[:200]}"]
            return []

        stopped_impl = obs["outcome"] == "run-error"
        for n, ev in enumerate(obs["events"]):
            r = next(it)
            raised_here = stopped_impl and n == len(obs["events"]) - 1 and ev["after"] is None
            if r == "bad-op":
                return dis + [f"driver: bad-op at event {n}"]
            if (r != "ok") != raised_here:
                dis.append(f"event {n} (step {ev['step']} {PH[ev['phase']]}): implementation "
                           f"{'raised ' + str(obs['error']) if raised_here else 'continued'}, model {r}")
                return dis
            if ev["after"] is not None:
                for o in case["obs"]:
                    if o["when"] == PH[ev["phase"]]:
                        dis += same(o, ev["after"].get(o["name"]), next(it), f"after event {n} (step {ev['step']} {PH[ev['phase']]})")
                if dis:
                    return dis
        if stopped_impl and not (obs["events"] and obs["events"][-1]["after"] is None):
            dis.append(f"implementation raised outside an observed event: {obs['error']}")
        if obs["final"] is not None:
            for o in case["obs"]:
                dis += same(o, obs["final"].get(o["name"]), next(it), "final")
            if obs.get("final_extra"):
                dis.append(f"unexpected measures {obs['final_extra']}")
        return dis

    # ------------------------------------------------------------------ oracle (the property itself)
    def oracle(self, case, obs):
        return oracle(case, obs)

    def nontrivial(self, case, obs):
        if obs["outcome"] != "ok" or not obs["final"]:
            return False
        for o in case["obs"]:
            res = obs["final"].get(o["name"])
            if res and o["type"] == "add" and any(isinstance(r[-1], list) and r[-1][0] != 0 for r in res["rows"]):
                return True
            if res and o["type"] == "cat" and res["rows"]:
                return True
        return False

    def tags(self, case, obs):
        return tags(case, obs)

    def sample_view(self, case, obs):
        return {"case": case, "outcome": obs["outcome"], "error": obs["error"], "events": len(obs["events"]),
                "first_event": (obs["events"][0] if obs["events"] else None), "final": obs["final"]}


def _lst(xs):
    xs = list(xs)
    return ",".join(str(x) for x in xs) if xs else "-"


def _short(t):
    return str(dict(sorted(t.items())) if isinstance(t, dict) else t)[:300]




# ---------------------------------------------------------------------------------------- oracle

def oracle(case, obs):
    """The property evaluated on the implementation's behaviour, from the snapshots only (no Lean model)."""
    fails = []

    def fail(sig, msg):
        if not any(f["sig"] == sig for f in fails):
            fails.append({"sig": sig, "msg": msg})

    why = invalid_reason(case)
    if obs["outcome"] in ("construct-error", "setup-error", "init-error"):
        if why is None:
            fail("setup-raised", f"a valid observer program was refused: {obs['error']}")
        return fails
    if why is not None:
        return fails          # an invalid program the code accepted: outside the property
    regs = registered_strats(case)
    allcats = {s["name"]: strat_cats(s) for s in regs}
    kept = {s["name"]: [c for c in strat_cats(s) if c not in exclusions(case, s)] for s in regs}
    adding = [o for o in case["obs"] if o["type"] == "add"]
    names = {o["name"]: obs_strat_names(case, o) for o in adding}
    full = {o["name"]: ([tuple(k) for k in itertools.product(*[kept[n] for n in names[o["name"]]])] if names[o["name"]] else [("all",)])
            for o in adding}
    running = {o["name"]: {k: 0 for k in full[o["name"]]} for o in adding}      # expected running totals
    before = {o["name"]: {k: 0 for k in full[o["name"]]} for o in adding}       # last running totals reported
    ever = {o["name"]: set() for o in adding}                                    # strata in which something was observed
    cexp = {o["name"]: [] for o in case["obs"] if o["type"] == "cat"}

    def check_shape(o, res, where):
        """one row per combination of the non-excluded categories"""
        if res is None:
            fail("result-missing", f"{where}: no result for {o['name']}")
            return None
        tab, probs = impl_table(res, names[o["name"]], agg_scale(o["agg"]))
        if tab is None:
            fail("result-shape", f"{where} {o['name']}: {probs}")
            return None
        want = set(full[o["name"]])
        excluded_shown = [k for k in tab if any(c in exclusions(case, strat_by_name(case, n)) for c, n in zip(k, names[o["name"]]))]
        if excluded_shown:
            fail("excluded-category-reported", f"{where} {o['name']}: rows for excluded categories {excluded_shown[:4]}")
        elif probs or set(tab) != want:
            fail("result-shape", f"{where} {o['name']}: {probs} missing {sorted(want - set(tab))[:4]} extra {sorted(set(tab) - want)[:4]} "
                                 f"({len(tab)} rows, {len(want)} combinations of non-excluded categories)")
        bad = {k: v for k, v in tab.items() if not isinstance(v, int)}
        if bad:
            fail("result-not-a-number", f"{where} {o['name']}: {list(bad.items())[:4]}")
            return None
        return tab

    stopped = obs["outcome"] == "run-error"
    for n, ev in enumerate(obs["events"]):
        ph = PH[ev["phase"]]
        where = f"event {n} (step {ev['step']} {ph})"
        rows = ev["rows"]
        inev = [r for r in rows if r["in_event"]]
        if any(not r["xexact"] for r in rows):
            fail("harness-inexact", f"{where}: an x value is not a multiple of 1/4")
        # unknown categories: `wide` = some mapper was given a simulant of the event and produced an unknown category;
        # `narrow` = that simulant would otherwise have been counted by an observation of this event
        wide = [(s["name"], r["sid"]) for s in regs for r in inev if raw_category(s, r) not in allcats[s["name"]]]
        narrow = [(o["name"], n_, r["sid"]) for o in adding if o["when"] == ph and to_observe(o, ev["time"])
                  for n_ in names[o["name"]] for r in inev
                  if passes(o["filter"], r) and raw_category(strat_by_name(case, n_), r) not in allcats[n_]]
        raised_here = stopped and n == len(obs["events"]) - 1 and ev["after"] is None
        if raised_here:
            if not wide:
                fail("simulation-raised", f"{where}: {obs['error']}")
            return fails
        if narrow:
            fail("unknown-category-not-stopped", f"{where}: mapper of {narrow[0][1]} produced an unknown category for simulant "
                                                 f"{narrow[0][2]} (eligible for {narrow[0][0]}) and the simulation went on")
            return fails
        # `wide` without `narrow` and no stop: the property does not say what happens when nobody who would have been
        # counted is affected; such simulants are eligible nowhere at this event, so the expectations below stand
        if ev["after"] is None:
            fail("simulation-raised", f"{where}: {obs['error']}")
            return fails
        for o in case["obs"]:
            if o["when"] != ph:
                continue
            observing = to_observe(o, ev["time"])
            if o["type"] == "cat":
                if observing:
                    cexp[o["name"]] += [[ev["time"]] + concat_payload(o, r) for r in inev if passes(o["filter"], r)]
                got = impl_concat(ev["after"].get(o["name"]), o)
                if canon_concat(got) != canon_concat(cexp[o["name"]]):
                    fail("concat-rows", f"{where} {o['name']}: rows {str(got)[:300]}, eligible rows so far {str(cexp[o['name']])[:300]}")
                continue
            nm = names[o["name"]]
            elig = [r for r in inev if passes(o["filter"], r)
                    and all(raw_category(strat_by_name(case, n_), r) in kept[n_] for n_ in nm)]
            inc = {k: 0 for k in full[o["name"]]}
            if observing:
                for r in elig:
                    k = tuple(raw_category(strat_by_name(case, n_), r) for n_ in nm) if nm else ("all",)
                    inc[k] += row_value(o["agg"], r)       # each eligible simulant: exactly one stratum
                    ever[o["name"]].add(k)
            for k, v in inc.items():
                running[o["name"]][k] += v
            tab = check_shape(o, ev["after"].get(o["name"]), where)
            if tab is None or set(tab) != set(full[o["name"]]):
                return fails
            got_inc = {k: tab[k] - before[o["name"]][k] for k in tab}
            before[o["name"]] = tab
            total = sum(row_value(o["agg"], r) for r in elig) if observing else 0
            if not observing and any(got_inc.values()):
                fail("to-observe-false-incremented", f"{where} {o['name']}: to_observe is False, increments {_nz(got_inc)}")
            elif sum(got_inc.values()) != total:
                fail("conservation", f"{where} {o['name']}: increments over all strata add up to {sum(got_inc.values())}, "
                                     f"aggregate over the {len(elig)} eligible simulants is {total} (unit 1/{agg_scale(o['agg'])})")
            elif got_inc != inc:
                fail("stratum-increment", f"{where} {o['name']}: increments {_nz(got_inc)}, eligible simulants per stratum {_nz(inc)}")
    if stopped:
        fail("simulation-raised", f"outside an observed event: {obs['error']}")
        return fails
    if obs["final"] is None:
        fail("no-results", "get_results() was not reached")
        return fails
    for o in case["obs"]:
        res = obs["final"].get(o["name"])
        if o["type"] == "cat":
            got = impl_concat(res, o)
            if canon_concat(got) != canon_concat(cexp[o["name"]]):
                fail("concat-rows", f"final {o['name']}: rows {str(got)[:300]}, eligible rows event after event {str(cexp[o['name']])[:300]}")
            continue
        tab = check_shape(o, res, "final")
        if tab is None or set(tab) != set(full[o["name"]]):
            continue
        if tab != running[o["name"]]:
            fail("final-not-sum-of-increments", f"final {o['name']}: reported {_nz(tab)}, sum of the per-event increments {_nz(running[o['name']])}")
        nzu = {k: v for k, v in tab.items() if k not in ever[o["name"]] and v != 0}
        if nzu:
            fail("nonzero-where-nothing-observed", f"final {o['name']}: {nzu}")
    return fails


def _nz(t):
    return str({k: v for k, v in sorted(t.items()) if v != 0})[:300]


# ---------------------------------------------------------------------------------------- distribution tags

def tags(case, obs):
    t = ["outcome:" + obs["outcome"], f"pop:{case['pop'] if case['pop'] < 3 else '3+'}", f"strats:{len(case['strats'])}"]
    why = invalid_reason(case)
    if why:
        t.append("invalid:" + why)
    for s in case["strats"]:
        t.append("kind:" + s["kind"])
        ex = s.get("excl_code")
        t.append("excl-code:" + ("none" if ex is None else "empty" if not ex else "some"))
        if ex is None and (case["cfg_excl"] or {}).get(s["name"]):
            t.append("excl-from-config")
        if ex is not None and (case["cfg_excl"] or {}).get(s["name"]):
            t.append("excl-code-overrides-config")
        if "cats" in s:
            t.append("cats-override")
        if s["kind"] in REORDERING:
            t.append("mapper-output-in-other-row-order")
    if case["cfg_default"]:
        t.append("default-strats")
    for o in case["obs"]:
        t.append("obs:" + o["type"])
        t.append("when:" + o["when"])
        t.append("filter:" + ("default" if o["filter"] is None else "none" if not o["filter"] else "+".join(sorted({a[0] for a in o["filter"]}))))
        t.append("to_observe:" + ("always" if o["mod"] <= 1 else "sometimes"))
        if o.get("via") == "observer":
            t.append("via-observer-config")
        if o["type"] == "add":
            t.append("agg:" + o["agg"])
            if why is None:
                t.append(f"obs-strats:{len(obs_strat_names(case, o))}")
            if o["add"]:
                t.append("additional")
            if o["exc"]:
                t.append("excluded-strat")
    if why is None and shared_frame_hazard(case):
        t.append("unfiltered-excluding-group-then-other-group-same-phase")
    if case.get("unknown"):
        t.append("unknown-injected:" + case["unknown"]["col"])
    sizes = set()
    births = untracked = notinev = edge = False
    for ev in obs["events"]:
        k = sum(1 for r in ev["rows"] if r["in_event"])
        sizes.add("event-size:" + ("0" if k == 0 else "1" if k == 1 else "2+"))
        notinev |= any(not r["in_event"] for r in ev["rows"])
        untracked |= any(not r["tracked"] for r in ev["rows"])
        edge |= any(r["x"] in (0, 12, 24) for r in ev["rows"])
    t += sorted(sizes)
    if obs["events"]:
        births = len(obs["events"][-1]["rows"]) > case["pop"]
    t += ["births"] * births + ["untracked"] * untracked + ["born-in-phase(not-in-event)"] * notinev + ["x-on-bin-edge"] * edge
    if obs["outcome"] == "run-error":
        t.append("stopped:" + str(obs.get("error_class")))
    if obs["outcome"] == "ok" and obs["final"]:
        for o in case["obs"]:
            res = obs["final"].get(o["name"])
            if res and o["type"] == "add":
                z = [r for r in res["rows"] if r[-1] == [0, 1]]
                t.append("has-zero-stratum" if z else "all-strata-nonzero")
                t.append(f"rows:{'1' if len(res['rows']) == 1 else '2-6' if len(res['rows']) <= 6 else '7+'}")
    return t


def shared_frame_hazard(case):
    """an unfiltered adding observation stratified by something with exclusions, followed (registration order) in the same
    phase by an observation with a different (filter, stratifications) key"""
    eff = [case["obs"][i] for k, i in case["order"] if k == "o" and case["obs"][i].get("via") != "observer"] + \
          [o for o in case["obs"] if o.get("via") == "observer"]

    def key(o):
        return (str(o["filter"]), tuple(obs_strat_names(case, o)) if o["type"] == "add" else None)
    for i, a in enumerate(eff):
        if a["type"] != "add" or a["filter"] != []:
            continue
        if not any(exclusions(case, strat_by_name(case, n)) for n in obs_strat_names(case, a)):
            continue
        if any(b["when"] == a["when"] and key(b) != key(a) for b in eff[i + 1:]):
            return True
    return False


# ---------------------------------------------------------------------------------------- generation

FILTERS = [None, None, None, [], [], [], [], [["tracked", "==", True], ["y", ">", 2]], [["x", "<", 5.0]], [["y", ">=", 1]],
           [["g", "==", "a"]], [["pv", ">", 1.0]], [["tracked", "==", True], ["g", "!=", "b"]], [["x", ">=", 3.0]],
           [["tracked", "==", True]], [["h", "==", "u"], ["y", "<=", 4]], [["tracked", "==", False]]]
TRAJ0 = {"p_edge": 0.25, "max_births": 0, "p_birth": 0.0, "p_change": 0.0, "p_untrack": 0.0}


def gen_obs(rng, k, snames, defaults):
    typ = "add" if rng.random() < 0.8 else "cat"
    mod = rng.choice([1, 1, 1, 2, 3])
    o = {"name": f"o{k}", "type": typ, "when": rng.choice(PH), "filter": rng.choice(FILTERS), "mod": mod,
         "rem": rng.randrange(mod)}
    if o["when"] == "collect_metrics" and rng.random() < 0.5:
        o["default_when"] = True                   # rely on the interface's default phase
    if typ == "cat":
        o["cols"] = rng.sample(["y", "x", "pv"], rng.randint(0, 3))
        return o
    o["add"] = [s for s in snames if rng.random() < 0.5]
    o["exc"] = [s for s in defaults if rng.random() < 0.3]
    if snames and rng.random() < 0.1:
        o["exc"].append(rng.choice(snames))        # possibly not a default: a no-op with a warning
        o["exc"] = sorted(set(o["exc"]))
    o["agg"] = rng.choice(AGGS)
    if rng.random() < 0.25:
        o["via"] = "observer"
    if rng.random() < 0.15:
        o["pass_empty"] = True
    return o


def gen_case(rng, tier):
    big = tier == "thorough"
    ns = rng.choice([0, 1, 1, 2, 2, 2, 3, 3, 4] if big else [0, 1, 1, 2, 2, 3, 3])
    kinds = rng.sample(sorted(KINDS), ns)
    strats = []
    for k in kinds:
        s = {"name": k, "kind": k, "excl_code": None}
        r = rng.random()
        cats = KINDS[k][0]
        if r < 0.25:
            s["excl_code"] = [rng.choice(cats)]
        elif r < 0.32:
            s["excl_code"] = rng.sample(cats, 2) if len(cats) > 2 else [cats[0]]
        elif r < 0.42:
            s["excl_code"] = []
        strats.append(s)
    cfg_excl = {}
    for s in strats:
        if rng.random() < 0.3:
            cats = KINDS[s["kind"]][0]
            cfg_excl[s["name"]] = rng.sample(cats, 1 if rng.random() < 0.8 or len(cats) < 3 else 2)
    if rng.random() < 0.1:
        cfg_excl["not_registered"] = ["q"]
    snames = [s["name"] for s in strats]
    cfg_default = None if rng.random() < 0.3 else [s for s in snames if rng.random() < 0.4]
    defaults = cfg_default or []
    obs = [gen_obs(rng, k, snames, defaults) for k in range(rng.randint(1, 6 if big else 4))]
    if strats and rng.random() < 0.4:
        crowd_phase(rng, case_strats=strats, cfg_excl=cfg_excl, obs=obs, snames=snames, defaults=defaults, big=big)
    steps = rng.randint(1, 6 if big else 4)
    traj = {"p_edge": 0.25, "max_births": rng.choice([1, 2, 3 if big else 2]), "p_birth": rng.choice([0.0, 0.3, 0.6]),
            "p_change": rng.choice([0.0, 0.2, 0.5]), "p_untrack": rng.choice([0.0, 0.15, 0.4])}
    case = {"pop": rng.choice([0, 1, 1, 2, 3, 5, 8] + ([13, 21] if big else [])), "steps": steps, "tseed": rng.randrange(10 ** 6),
            "traj": traj, "unknown": None, "strats": strats, "cfg_default": cfg_default, "cfg_excl": cfg_excl, "obs": obs}
    if rng.random() < 0.22:
        case["unknown"] = {"step": rng.randrange(steps), "phase": rng.randrange(4), "col": rng.choice(["g", "h", "x"]),
                           "who": rng.randrange(100)}
    # a category missing from the declared list: the mapper will run into it sooner or later
    if strats and rng.random() < 0.06:
        s = rng.choice(strats)
        if s["kind"] not in ("xb", "pvb"):
            full = KINDS[s["kind"]][0]
            s["cats"] = full[:-1]
            s["excl_code"] = [c for c in (s["excl_code"] or []) if c in s["cats"]] if s["excl_code"] is not None else None
            if s["name"] in cfg_excl:
                cfg_excl[s["name"]] = [c for c in cfg_excl[s["name"]] if c in s["cats"]]
    # programs the real code must refuse at setup
    r = rng.random()
    if r < 0.10:
        bad = rng.choice(["dup-strat", "dup-category", "unknown-exclusion", "unknown-exclusion-config", "all-excluded", "bad-bins",
                          "dup-observation", "missing-strat"])
        if bad == "dup-strat" and strats:
            strats.append(dict(rng.choice(strats)))
        elif bad == "dup-category" and strats:
            s = rng.choice(strats)
            if s["kind"] not in ("xb", "pvb"):
                s["cats"] = strat_cats(s) + [strat_cats(s)[0]]
        elif bad == "unknown-exclusion" and strats:
            rng.choice(strats)["excl_code"] = ["nope"]
        elif bad == "unknown-exclusion-config" and strats:
            s = rng.choice(strats)
            s["excl_code"] = None
            cfg_excl[s["name"]] = ["nope"]
        elif bad == "all-excluded" and strats:
            s = rng.choice(strats)
            s["excl_code"] = strat_cats(s)
        elif bad == "bad-bins":
            strats.append({"name": "xb2", "kind": "xb", "excl_code": None, "cats": ["lo", "hi"]})
        elif bad == "dup-observation":
            obs.append(dict(rng.choice(obs)))
        elif bad == "missing-strat":
            o = rng.choice(obs)
            if o["type"] == "add":
                o["add"] = o["add"] + ["nostrat"]
    order = [["s", i] for i in range(len(strats))] + [["o", i] for i in range(len(obs))]
    if rng.random() < 0.5:
        rng.shuffle(order)
    case["order"] = order
    return case


def crowd_phase(rng, case_strats, cfg_excl, obs, snames, defaults, big):
    """Several observation groups with DIFFERENT (filter, stratifications) keys in ONE phase, one of them unfiltered
    (`pop_filter=""`: everybody, untracked included) and stratified by a stratification that has an excluded category.
    The results context walks the groups of a phase over one shared per-event frame, in registration order: whatever one
    group does to that frame (drop excluded simulants, filter) must not leak into the groups handled after it."""
    phase = rng.choice(PH)
    while len(obs) < 3:
        obs.append(gen_obs(rng, len(obs), snames, defaults))
    if big and rng.random() < 0.5:
        obs.append(gen_obs(rng, len(obs), snames, defaults))
    for o in obs:
        if rng.random() < 0.85:
            o["when"] = phase
    s = rng.choice(case_strats)
    if s.get("excl_code") is None and not cfg_excl.get(s["name"]):
        cats = KINDS[s["kind"]][0]
        if rng.random() < 0.5:
            s["excl_code"] = [rng.choice(cats)]
        else:
            cfg_excl[s["name"]] = [rng.choice(cats)]
    elif s.get("excl_code") == []:
        s["excl_code"] = [rng.choice(KINDS[s["kind"]][0])]
    adders = [o for o in obs if o["type"] == "add"]
    a = rng.choice(adders) if adders else None
    if a is None:
        a = obs[0]
        a.clear()
        a.update({"name": "o0", "type": "add", "when": phase, "filter": [], "mod": 1, "rem": 0, "add": [], "exc": [], "agg": "len"})
    a["filter"] = []
    a["when"] = phase
    a["add"] = sorted(set(a["add"]) | {s["name"]})
    a["exc"] = [n for n in a["exc"] if n != s["name"]]
    if rng.random() < 0.7:
        a["mod"], a["rem"] = 1, 0
    # the others: make sure at least one of them does NOT use s (a different group that must still see everybody)
    others = [o for o in obs if o is not a]
    b = rng.choice(others)
    b["when"] = phase
    if b["type"] == "add":
        b["add"] = [n for n in b["add"] if n != s["name"]]
        if s["name"] in defaults:
            b["exc"] = sorted(set(b["exc"]) | {s["name"]})
    # registration order: the unfiltered one first half of the time, otherwise left to the shuffle below
    if rng.random() < 0.5:
        i = obs.index(a)
        obs.insert(0, obs.pop(i))


def mk(pop, steps, strats, obs, **kw):
    case = {"pop": pop, "steps": steps, "tseed": kw.pop("tseed", 1), "traj": dict(TRAJ0, **kw.pop("traj", {})), "unknown": kw.pop("unknown", None),
            "strats": strats, "cfg_default": kw.pop("cfg_default", None), "cfg_excl": kw.pop("cfg_excl", {}), "obs": obs}
    case["order"] = kw.pop("order", [["s", i] for i in range(len(strats))] + [["o", i] for i in range(len(obs))])
    assert not kw
    return case


def S(kind, excl=None, **kw):
    return dict({"name": kw.pop("name", kind), "kind": kind, "excl_code": excl}, **kw)


def A(name, when="collect_metrics", flt=None, add=(), exc=(), agg="len", mod=1, rem=0, **kw):
    return dict({"name": name, "type": "add", "when": when, "filter": flt, "add": list(add), "exc": list(exc), "agg": agg,
                 "mod": mod, "rem": rem}, **kw)


def Cc(name, when="collect_metrics", flt=None, cols=("y",), mod=1, rem=0):
    return {"name": name, "type": "cat", "when": when, "filter": flt, "cols": list(cols), "mod": mod, "rem": rem}


def boundary_cases():
    out = []
    every_phase = lambda add, **kw: [A(f"n{k}", when=ph, add=add, **kw) for k, ph in enumerate(PH)]   # noqa: E731
    # F13: populations / events of exactly one simulant with a binned stratification (column and pipeline target)
    out.append(mk(1, 2, [S("xb")], every_phase(["xb"])))
    out.append(mk(1, 2, [S("pvb")], every_phase(["pvb"], agg="sumy")))
    out.append(mk(1, 3, [S("xb"), S("g")], [A("n", add=["xb", "g"]), Cc("c", cols=["x"])], traj={"p_change": 0.5}))
    # one survivor: two simulants, one untracked early -> still two in the event, one eligible; and a lone newborn
    out.append(mk(0, 3, [S("xb"), S("h2")], every_phase(["xb", "h2"]) + [Cc("c", when="time_step", flt=[])],
                  traj={"p_birth": 1.0, "max_births": 1}, tseed=3))
    out.append(mk(2, 3, [S("xb")], [A("n", add=["xb"]), A("m", add=["xb"], flt=[])], traj={"p_untrack": 0.5}, tseed=4))
    # population of zero for the whole run
    out.append(mk(0, 2, [S("g")], [A("n", add=["g"]), Cc("c")]))
    # nothing stratified, nothing registered but observations
    out.append(mk(3, 2, [], [A("tot"), A("sx", agg="sumx", flt=[]), Cc("c", cols=["y", "x", "pv"], flt=[])], traj={"p_untrack": 0.3}))
    # single stratification with categories nobody is in (zero rows must be reported, values must stay numbers)
    out.append(mk(2, 3, [S("pvs")], [A("n", add=["pvs"]), A("s", add=["pvs"], agg="sumpv", when="time_step")]))
    out.append(mk(2, 3, [S("gy")], [A("n", add=["gy"], agg="count"), A("s", add=["gy"], agg="sumy_nosrc")], traj={"p_change": 0.3}))
    # several events with non-zero increments (running sum), to_observe on some events only
    out.append(mk(5, 4, [S("g"), S("h2")], [A("n", add=["g", "h2"]), A("e", add=["g"], mod=2, rem=0, when="time_step__prepare"),
                                             A("o", add=["h2"], mod=2, rem=1, agg="sumx", when="time_step__cleanup")],
                  traj={"p_change": 0.4, "p_birth": 0.5, "max_births": 2}))
    # exclusions: code, configuration, code overriding configuration (also with an empty list), default + excluded stratifications
    out.append(mk(6, 2, [S("g", ["c"]), S("h2")], [A("n", add=["g", "h2"]), A("m", add=["h2"])], traj={"p_change": 0.5}))
    out.append(mk(6, 2, [S("g"), S("xb")], [A("n", add=["g", "xb"])], cfg_excl={"g": ["a", "b"], "xb": ["mid"]}, traj={"p_change": 0.5}))
    out.append(mk(6, 2, [S("g", []), S("hp", ["uo"])], [A("n"), A("m", exc=["g"]), A("k", exc=["g", "hp"], via="observer")],
                  cfg_default=["g", "hp"], cfg_excl={"g": ["a"], "hp": ["ue"]}, traj={"p_change": 0.5}))
    # everybody untracked: default filter leaves nobody; explicit empty filter counts them all
    out.append(mk(4, 2, [S("g")], [A("n", add=["g"]), A("all", add=["g"], flt=[]), Cc("c"), Cc("call", flt=[])], traj={"p_untrack": 1.0}))
    # unknown categories: by column value, by bin overflow (NaN), by a category missing from the declaration, in an unused stratification
    for col in ("g", "h", "x"):
        out.append(mk(3, 3, [S("g"), S("h2"), S("xb")], [A("n", add=["g", "h2", "xb"]), A("p", when="time_step__prepare")],
                      unknown={"step": 1, "phase": 2, "col": col, "who": 1}))
    out.append(mk(6, 3, [S("g", cats=["a", "b"])], [A("n", add=["g"])], traj={"p_change": 0.5}, tseed=7))
    out.append(mk(3, 2, [S("g"), S("gy")], [A("n", add=["g"], flt=[["tracked", "==", False]])],
                  unknown={"step": 0, "phase": 3, "col": "g", "who": 0}))
    # programs that must be refused at setup
    out.append(mk(2, 1, [S("g"), S("g")], [A("n")]))
    out.append(mk(2, 1, [S("g", cats=["a", "b", "a", "c"])], [A("n")]))
    out.append(mk(2, 1, [S("g", ["nope"])], [A("n")]))
    out.append(mk(2, 1, [S("g")], [A("n")], cfg_excl={"g": ["nope"]}))
    out.append(mk(2, 1, [S("h2", ["U", "V"])], [A("n")]))
    out.append(mk(2, 1, [S("xb", cats=["lo", "hi"])], [A("n")]))
    out.append(mk(2, 1, [S("g")], [A("n"), A("n", when="time_step")]))
    out.append(mk(2, 1, [S("g")], [A("n", add=["nostrat"])]))
    # one phase, several observation groups over the same per-event frame, the first one unfiltered (pop_filter="") and
    # stratified by a stratification with an excluded category: later groups must still see the simulants it dropped
    for ph in PH:
        out.append(mk(8, 3, [S("g", ["b"]), S("h2")],
                      [A("everyone_by_g", when=ph, flt=[], add=["g"]), A("tracked_by_h", when=ph, add=["h2"]),
                       A("tracked_total", when=ph, agg="sumy"), Cc("rows", when=ph, cols=["y"])],
                      traj={"p_change": 0.3, "p_untrack": 0.15}, tseed=11))
    out.append(mk(8, 3, [S("g"), S("xb")],
                  [A("everyone_by_g", flt=[], add=["g"]), A("all_by_xb", flt=[], add=["xb"], agg="sumx"), Cc("all_rows", flt=[], cols=["x"]),
                   A("some", flt=[["y", ">=", 1]])],
                  cfg_excl={"g": ["a", "c"]}, traj={"p_change": 0.3, "p_untrack": 0.2, "p_birth": 0.4, "max_births": 1}, tseed=12))
    out.append(mk(6, 3, [S("g", ["a"]), S("hp", ["uo"])],
                  [A("by_both", when="time_step", flt=[], exc=[]), A("by_hp", when="time_step", flt=[], exc=["g"]),
                   A("by_g", when="time_step", flt=[], exc=["hp"]), A("nobody_by", when="time_step", flt=[], exc=["g", "hp"], via="observer")],
                  cfg_default=["g", "hp"], traj={"p_change": 0.4}, tseed=13))
    out.append(mk(6, 2, [S("pvs", ["p1"]), S("g")],
                  [Cc("rows_first", flt=[], cols=["pv"]), A("everyone_by_pvs", flt=[], add=["pvs"]), A("by_g", add=["g"]), Cc("rows_last", flt=[], cols=["pv"])],
                  order=[["s", 0], ["s", 1], ["o", 0], ["o", 1], ["o", 2], ["o", 3]], traj={"p_change": 0.3}, tseed=14))
    # mappers whose (correct, id-indexed) output is not in the population's row order: values belong to simulants by LABEL.
    # A plain count over one stratification still adds up under a positional mix-up; an aggregate over a column, an excluded
    # category, a filter that removes simulants or a second stratification do not
    for kind, ex in (("gcat", ["B"]), ("ysort", ["y1"]), ("hrev", ["rv"]), ("xfr", ["large"])):
        out.append(mk(8, 3, [S(kind), S("g")],
                      [A("cnt", add=[kind]), A("sx", add=[kind], agg="sumx", flt=[]), A("tracked_y", add=[kind], agg="sumy"),
                       A("cross", add=[kind, "g"], flt=[["y", ">=", 2]]), Cc("rows", cols=["y"])],
                      traj={"p_change": 0.3, "p_untrack": 0.2, "p_birth": 0.4, "max_births": 1}, tseed=21))
        out.append(mk(7, 2, [S(kind, ex)], [A("cnt", add=[kind]), A("sy", add=[kind], agg="sumy_nosrc", when="time_step")],
                      traj={"p_change": 0.4, "p_untrack": 0.3}, tseed=22))
    out.append(mk(9, 2, [S("gcat"), S("ysort"), S("hrev"), S("xfr")],
                  [A("all4", add=["gcat", "ysort", "hrev", "xfr"]), A("two", add=["ysort", "xfr"], agg="sumpv", flt=[])],
                  traj={"p_change": 0.5}, tseed=23))
    # registration order: observations before stratifications, columns in a different order than the sorted names
    out.append(mk(5, 2, [S("xb"), S("g"), S("h2")], [A("n", add=["h2", "xb", "g"], agg="sumx")],
                  order=[["o", 0], ["s", 2], ["s", 0], ["s", 1]], traj={"p_change": 0.5}))
    return out


def shrink_case(case):
    """smaller variants: fewer observations / stratifications / steps / simulants, calmer trajectory"""
    import copy
    if len(case["obs"]) > 1:
        for i in range(len(case["obs"])):
            c = copy.deepcopy(case)
            del c["obs"][i]
            c["order"] = [[k, j - (1 if k == "o" and j > i else 0)] for k, j in c["order"] if not (k == "o" and j == i)]
            yield c
    for i, s in enumerate(case["strats"]):
        used = any(s["name"] in o.get("add", []) for o in case["obs"]) or s["name"] in (case["cfg_default"] or [])
        if not used and sum(1 for t in case["strats"] if t["name"] == s["name"]) == 1:
            c = copy.deepcopy(case)
            del c["strats"][i]
            c["order"] = [[k, j - (1 if k == "s" and j > i else 0)] for k, j in c["order"] if not (k == "s" and j == i)]
            yield c
    for i, o in enumerate(case["obs"]):
        for key in ("add", "exc"):
            for n in o.get(key, []):
                c = copy.deepcopy(case)
                c["obs"][i][key].remove(n)
                yield c
        if o["filter"]:
            c = copy.deepcopy(case)
            c["obs"][i]["filter"] = []
            yield c
        if o["mod"] > 1:
            c = copy.deepcopy(case)
            c["obs"][i]["mod"], c["obs"][i]["rem"] = 1, 0
            yield c
        if o.get("via"):
            c = copy.deepcopy(case)
            del c["obs"][i]["via"]
            yield c
    if case["cfg_default"]:
        for n in case["cfg_default"]:
            c = copy.deepcopy(case)
            c["cfg_default"].remove(n)
            yield c
    if case["steps"] > 1:
        yield dict(copy.deepcopy(case), steps=case["steps"] - 1)
    if case["pop"] > 0:
        yield dict(copy.deepcopy(case), pop=case["pop"] - 1)
        if case["pop"] > 2:
            yield dict(copy.deepcopy(case), pop=case["pop"] // 2)
    for key in ("p_birth", "p_change", "p_untrack"):
        if case["traj"][key] > 0:
            c = copy.deepcopy(case)
            c["traj"][key] = 0.0
            yield c
    if case.get("unknown"):
        yield dict(copy.deepcopy(case), unknown=None)
    for name in list(case["cfg_excl"] or {}):
        c = copy.deepcopy(case)
        del c["cfg_excl"][name]
        yield c
    for i, s in enumerate(case["strats"]):
        if s.get("excl_code"):
            c = copy.deepcopy(case)
            c["strats"][i]["excl_code"] = None
            yield c


PROP = C16()
