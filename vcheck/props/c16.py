"""C16 — stratified results count every eligible simulant exactly once.

Tie (correspondence): generated observer programs run in REAL simulations (SimpleClock, births from a
listener, untracking, values that change over time).  A probe listener at priority 0 of every phase first
mutates the population and then snapshots the WHOLE state table (all columns incl. `tracked`, all rows incl.
simulants born in this very phase, which are not in `event.index`); the results manager's own listeners run at
the default priority 5; a second probe listener at priority 9 records `sim.get_results()` (the running results)
and mutates again.  The results are recomputed from the snapshots
  * by the Lean model (`Driver/C16.lean` over `VivModel/Model/Results.lean`): registration, resolution of the
    stratifications of each observation, `stratify` (unknown category => error), binning, filter -> drop excluded
    -> group -> aggregate -> expand -> add, concatenation; compared per event and at the end, as a map
    category-tuple -> exact value (row order ignored), and
  * by the oracle below (plain Python, independent of the model): the property itself.

Lesson 16 (faults and re-entrancy): `faults` makes user callables raise on purpose while one chosen event is gathered,
`catch` makes the harness behave like an interactive caller (catch what `step()` raises, read the results, call `step()`
again, finish the run), `twin` keeps a second simulation alive in the same process.  Every EMISSION of a phase is an event
of its own: a step that failed in collect_metrics and is run again emits all four phases again for the same clock time.
"""
from __future__ import annotations

import itertools
import random
from fractions import Fraction

from .. import impl
from ..runner import Prop

PH = ["time_step__prepare", "time_step", "time_step__cleanup", "collect_metrics"]
SCALE = 4                       # x values are multiples of 1/4: every number below is an exact dyadic
EDGES_X = [0, 12, 24, 40]       # bin edges of `xb` in quarter units  (0, 3, 6, 10)
LAB_X = ["lo", "mid", "hi"]
EDGES_PV = [0, 8, 16]           # bin edges of `pvb` (pipeline value 0..3) in quarter units (0, 2, 4)
LAB_PV = ["plo", "phi"]
EDGES_PW = [4, 8, 16]           # bin edges of `pwb` (pipeline value 1..3) in quarter units (1, 2, 4)
LAB_PW = ["w1", "w23"]

# kind -> (categories, columns used, python mapper over a snapshot row -> raw mapper output (str) )
#   raw output "NaN" stands for a missing value (pd.cut outside the bins)


def _bin(v4, edges, labels):
    """reference semantics of pd.cut(right=False): [e_i, e_{i+1}); outside -> NaN"""
    for i, lab in enumerate(labels):
        if edges[i] <= v4 < edges[i + 1]:
            return lab
    return "NaN"


def pv_of(row):
    """the value pipeline `pv` of the probe population: (3*y + sid) mod 4, as quarter units"""
    return ((3 * row["y"] + row["sid"]) % 4) * SCALE


def pw_of(row):
    """value pipeline `pw`: source (y + 2*sid) mod 3 (returned in REVERSED row order) + a registered modifier adding 1"""
    return ((row["y"] + 2 * row["sid"]) % 3 + 1) * SCALE


def pz_of(row):
    """value pipeline `pz`, produced by a DIFFERENT component: sid mod 2"""
    return (row["sid"] % 2) * SCALE


def pf_of(row):
    """value pipeline `pf`: the constant 1.0.  It exists to be used in filters (`pf < 2.0` holds for everybody) and to
    deliver, ON PURPOSE and at one chosen event, a value of another type, so that the evaluation of the filter raises"""
    return SCALE


PIPES = {"pv": pv_of, "pw": pw_of, "pz": pz_of, "pf": pf_of}

KINDS = {
    # categorical column, default mapper (mapper=None)
    "g": (["a", "b", "c"], lambda r: r["g"]),
    # default mapper on a column of CATEGORICAL dtype (whose own categories are a superset, in another order)
    "cdef": (["c1", "c2", "c3"], lambda r: r["c"]),
    # per-row mapper (is_vectorized=False) over one column
    "h2": (["U", "V"], lambda r: r["h"].upper()),
    # binned column (register_binned_stratification, target_type column)
    "xb": (LAB_X, lambda r: _bin(r["x"], EDGES_X, LAB_X)),
    # binned value pipeline (target_type value)
    "pvb": (LAB_PV, lambda r: _bin(pv_of(r), EDGES_PV, LAB_PV)),
    # vectorised mapper over a value pipeline
    "pvs": (["p0", "p1", "p2", "p3"], lambda r: "p%d" % (pv_of(r) // SCALE)),
    # vectorised mapper over two columns
    "gy": (["a0", "a1", "b0", "b1", "c0", "c1"], lambda r: r["g"] + str(r["y"] % 2)),
    # per-row mapper over two sources (column + pipeline)
    "hp": (["ue", "uo", "ve", "vo"], lambda r: r["h"] + ("e" if (pv_of(r) // SCALE) % 2 == 0 else "o")),
    # vectorised mappers that return a complete, correctly id-indexed Series whose ROWS ARE NOT IN THE POPULATION'S ORDER
    # (the framework must attach the values to the simulants by label, never by position):
    # split the population by value, label the parts, pd.concat them
    "gcat": (["A", "B", "C"], lambda r: r["g"].upper()),
    # sort internally by the value
    "ysort": (["y0", "y1", "y2"], lambda r: "y%d" % (r["y"] % 3)),
    # reversed
    "hrev": (["ru", "rv"], lambda r: "r" + r["h"]),
    # build a DataFrame, sort it by another column, return one of its columns
    "xfr": (["small", "large"], lambda r: "small" if r["x"] < 5 * SCALE else "large"),
    # several value pipelines at once (the results manager evaluates every required pipeline per event and must attach
    # each under its own name, by label): vectorised over pv + pw, per-row over pz + pw, binned pw
    "pq": (["q0", "q1"], lambda r: "q%d" % (((pv_of(r) + pw_of(r)) // SCALE) % 2)),
    "zw": (["z0w1", "z0w2", "z0w3", "z1w1", "z1w2", "z1w3"], lambda r: "z%dw%d" % (pz_of(r) // SCALE, pw_of(r) // SCALE)),
    "pwb": (LAB_PW, lambda r: _bin(pw_of(r), EDGES_PW, LAB_PW)),
}
REORDERING = ("gcat", "ysort", "hrev", "xfr")
# binned kinds: kind -> (what the number is taken from, edges)
BINNED = {"xb": (lambda r: r["x"], EDGES_X), "pvb": (pv_of, EDGES_PV), "pwb": (pw_of, EDGES_PW)}
AGGS = ["len", "count", "sumy", "sumx", "sumpv", "sumpw", "sumy_nosrc", "multi"]
T0 = "2020-01-01"


def row_value(agg, r):
    """the additive aggregate's per-simulant summand, in the observation's integer unit"""
    if agg == "zero":
        return 0
    if agg in ("len", "count"):
        return 1
    if agg in ("sumy", "sumy_nosrc"):
        return r["y"]
    if agg == "sumx":
        return r["x"]          # quarter units
    if agg == "sumpv":
        return pv_of(r)        # quarter units
    if agg == "sumpw":
        return pw_of(r)
    raise ValueError(agg)


def agg_scale(agg):
    return SCALE if agg in ("sumx", "sumpv", "sumpw") else 1


def vobs(case):
    """Observations as the model and the oracle see them.  An aggregator that returns a Series (`multi`: n = count,
    sy = sum of y) yields one value column per entry; each column is an additive measure of its own."""
    out = []
    for o in case["obs"]:
        if o["type"] == "add" and o["agg"] == "multi":
            # the framework's own `value` column stays in the result and never receives anything
            out.append(dict(o, agg="zero", vcol="value", src=o["name"], vset=["value", "n", "sy"]))
            out.append(dict(o, name=o["name"] + "__n", agg="len", vcol="n", src=o["name"], vset=["value", "n", "sy"]))
            out.append(dict(o, name=o["name"] + "__sy", agg="sumy", vcol="sy", src=o["name"], vset=["value", "n", "sy"]))
        else:
            out.append(dict(o, vcol="value", src=o["name"], vset=["value"]))
    return out


def atom_holds(atom, r):
    col, op, c = atom
    v = {"tracked": r["tracked"], "y": r["y"], "x": Fraction(r["x"], SCALE), "g": r["g"], "h": r["h"], "c": r["c"],
         "pv": Fraction(pv_of(r), SCALE), "pw": Fraction(pw_of(r), SCALE), "pz": Fraction(pz_of(r), SCALE),
         "pf": Fraction(pf_of(r), SCALE)}[col]
    if op == "in":
        return v in c
    if col in ("x", "pv", "pw", "pz", "pf"):
        c = Fraction(c).limit_denominator(64)
    return {"==": v == c, "!=": v != c, "<": v < c, "<=": v <= c, ">": v > c, ">=": v >= c}[op]


def passes(flt, r):
    """flt None = the default filter of the interface (tracked simulants only); [] = no filter"""
    if flt is None:
        return bool(r["tracked"])
    return all(atom_holds(a, r) for a in flt)


def query_string(flt, ws=0):
    """ws: 0 = `a == 1 and b > 2`, 1 = `a==1 and b>2`, 2 = double blanks – the same filter, other bytes"""
    q = _query_string(flt)
    if ws == 1:
        for op in ("==", "!=", "<=", ">=", "<", ">"):
            q = q.replace(f" {op} ", op)
    elif ws == 2:
        q = q.replace(" ", "  ")
    return q


def _query_string(flt):
    out = []
    for col, op, c in flt:
        if op == "in":
            out.append(f"{col} in [" + ", ".join(f'"{x}"' for x in c) + "]")
        else:
            out.append(f"{col} {op} {c!r}" if not isinstance(c, str) else f'{col} {op} "{c}"')
    return " and ".join(out)


def filter_columns(flt):
    cols = {a[0] for a in (flt or [])} - {"tracked"}
    return sorted(cols - set(PIPES)), sorted(cols & set(PIPES))


# ---------------------------------------------------------------------------------------- faults (lesson 16)
# A fault = a user callable of the results system that raises ON PURPOSE while one chosen event is gathered:
#   {"kind": ..., "target": <pipeline / stratification / observation name>, "step": s, "phase": k, "times": n, "exc": ...}
# It is live during the first `times` EMISSIONS of phase k of step s (a step that failed in collect_metrics can be run
# again: the same phases are emitted again for the same clock time).  Kinds, by the place in
# `ResultsManager.gather_results` where the exception comes from:
#   pipe            a required value pipeline raises                     (`_prepare_population`, before anything)
#   (mappers        fail through the DATA, see `unknown`: a value appears in a source column for which the mapper returns an
#                   unknown category - or, with `raises`, raises itself - and, with `transient`, is gone again when the step
#                   is run again; mappers stay pure functions of their input)    (`Stratification.stratify`, before any observation)
#   filter          the pipeline `pf` delivers a str among its numbers: `population.query("pf < 2.0")` raises a TypeError
#                   when the first observation group with such a filter is reached (`_filter_population`)
#   to_observe      an observation's `to_observe` raises                 (`BaseObservation.observe`; only when the group's
#                                                                         filtered population is not empty)
#   agg / gatherer / updater   the aggregator / results_gatherer / results_updater of an observation raises
#                                                                        (only when also `to_observe` said yes)
# Observations are walked group by group – `ResultsContext.observations[phase]` is a dict keyed by (pop_filter,
# stratifications), groups in order of first registration, registration order inside a group – and the manager applies
# every yielded result at once, so what was gathered BEFORE the failing callable stays recorded.

STRAT_PIPES = {"pvb": ["pv"], "pwb": ["pw"], "pvs": ["pv"], "pq": ["pw", "pv"], "zw": ["pz", "pw"], "hp": ["pv"]}
NO_USER_MAPPER = ("g", "cdef", "xb", "pvb", "pwb")
BAD_VALUE = {"g": "zz", "h": "w", "x": 10.0}              # what `unknown` writes into a column
GOOD_VALUE = {"g": "a", "h": "u", "x": 1.0}               # ... and what a transient one is replaced by afterwards
RAISING_KINDS = {"g": ("gy", "gcat"), "h": ("h2", "hp", "hrev"), "x": ("xfr",)}   # user mappers reading that column


def mapper_raises_at(case, ev):
    """`unknown.raises`: the user mappers that read the column raise (KeyError) when they meet the bad value; true when
    the results manager hands such a mapper a simulant of this event that carries it"""
    u = case.get("unknown")
    if not u or not u.get("raises"):
        return False
    if not any(s["kind"] in RAISING_KINDS[u["col"]] for s in registered_strats(case)):
        return False
    bad = BAD_VALUE[u["col"]] * SCALE if u["col"] == "x" else BAD_VALUE[u["col"]]
    return any(r["in_event"] and r[u["col"]] == bad for r in ev["rows"])


def real_obs_order(case):
    """indices into case["obs"] in the order the REAL registrations happen: the `Direct` component first (in case
    order), then the Observer components (one per `via: observer` observation, in the order of case["obs"])"""
    direct = [i for k, i in case["order"] if k == "o" and case["obs"][i].get("via") != "observer"]
    return direct + [i for i, o in enumerate(case["obs"]) if o.get("via") == "observer"]


def filter_string(o):
    """the bytes of the observation's pop_filter (None = the default of the interface) – one half of its group key"""
    return "tracked==True" if o["filter"] is None else query_string(o["filter"], o.get("ws", 0))


def required_pipes(case):
    """the value pipelines the results manager evaluates at every event: those of every registered stratification and
    of every observation (filter, aggregator sources, included columns)"""
    req = set()
    for s in registered_strats(case):
        req |= set(STRAT_PIPES.get(s["kind"], []))
    for o in case["obs"]:
        req |= set(filter_columns(o["filter"])[1])
        if o["type"] == "cat":
            req |= set(o["cols"]) & set(PIPES)
        else:
            req |= {"sumpv": {"pv"}, "sumpw": {"pw"}}.get(o["agg"], set())
    return req


def injectable(case, f):
    """can the harness install this fault in this program (does the callable exist)?"""
    k, t = f["kind"], f.get("target")
    if k == "pipe":
        return t in PIPES
    if k == "filter":
        return True
    os_ = [o for o in case["obs"] if o["name"] == t]
    if len(os_) != 1:
        return False
    o = os_[0]
    if k == "to_observe":
        return True
    if k == "agg":
        return o["type"] == "add"
    if k == "gatherer":
        return o["type"] == "cat" and o.get("method") == "unstratified" and not o.get("nocb")
    if k == "updater":
        return o.get("method") in ("stratified", "unstratified") and not o.get("nocb")
    return False


def case_faults(case):
    return [f for f in (case.get("faults") or []) if injectable(case, f)]


def emission_no(events, n):
    """how many times phase events[n].phase of step events[n].step had been emitted before events[n]"""
    return sum(1 for e in events[:n] if (e["step"], e["phase"]) == (events[n]["step"], events[n]["phase"]))


def live_faults(case, events, n):
    ev = events[n]
    em = emission_no(events, n)
    return [f for f in case_faults(case) if (f["step"], f["phase"]) == (ev["step"], ev["phase"]) and em < f.get("times", 1)]


def has_pf_atom(o):
    return any(a[0] == "pf" for a in (o["filter"] or []))


def all_passing_excluded(case, o, rows):
    """Every simulant of the event that passes the observation's filter sits in an excluded category.  Whether the group's
    population then counts as empty BEFORE `to_observe` / the updater are asked (explicit `dropna` ahead of the emptiness
    test) or only inside the groupby is an implementation detail (`harmless-no-explicit-dropna`): no observation-level
    fault is injected in that situation."""
    if o["type"] != "add":
        return False
    nm = obs_strat_names(case, o)
    inev = [r for r in rows if r["in_event"] and passes(o["filter"], r)]
    if not inev or not nm:
        return False
    kept = {n: [c for c in strat_cats(strat_by_name(case, n)) if c not in exclusions(case, strat_by_name(case, n))] for n in nm}
    return not any(all(raw_category(strat_by_name(case, n), r) in kept[n] for n in nm) for r in inev)


def obs_fault_code(case, o, live, rows):
    """which callable called for observation `o` raises at this event: f = filter, t = to_observe, g = gatherer /
    aggregator / updater, - = none (the first that is reached wins: filter, then to_observe, then the rest)"""
    if has_pf_atom(o) and any(f["kind"] == "filter" for f in live):
        return "f"
    if all_passing_excluded(case, o, rows):
        return "-"
    name = o.get("src", o["name"])
    if any(f["kind"] == "to_observe" and f["target"] == name for f in live):
        return "t"
    if any(f["kind"] in ("agg", "gatherer", "updater") and f["target"] == name for f in live):
        return "g"
    return "-"


# ---------------------------------------------------------------------------------------- implementation

def _run(case, _is_prior=False):
    """priors (earlier simulations of the process, run to their end) -> the case itself, step attempts interleaved
    with those of its `twin` (a second, independent simulation alive in the same process at the same clock times)"""
    impl.load()
    if not _is_prior:
        for prior in case.get("prior") or []:
            try:
                _run(prior, _is_prior=True)
            except Exception:  # noqa: BLE001
                pass
    twin = case.get("twin") if not _is_prior else None
    gens = [_session(case, False)] + ([_session(twin, True)] if twin else [])
    if twin and case.get("twin_first"):
        gens.reverse()
    results = {}
    alive = list(gens)
    while alive:
        for g in list(alive):
            try:
                next(g)
            except StopIteration as stop:
                results[id(g)] = stop.value
                alive.remove(g)
    main, tw = (gens[1], gens[0]) if (twin and case.get("twin_first")) else (gens[0], gens[1] if twin else None)
    out = results[id(main)]
    if tw is not None:
        out["twin"] = results[id(tw)]
    return out


def _session(case, _is_twin=False):
    """one simulation as a generator: yields after setup and after every step attempt, returns the observations"""
    impl.load()
    import pandas as pd
    from vivarium import Component
    from vivarium.framework.engine import SimulationContext
    from vivarium.framework.results.observer import Observer

    out = {"outcome": "ok", "error": None, "events": [], "final": None, "after_finalize": None}
    traj = random.Random(case["tseed"])
    T = case["traj"]
    holder = {}
    datetime_clock = case.get("clock") == "datetime"
    slow = case.get("slow")
    objs = bool(case.get("callobj"))

    def tick(x):
        if isinstance(x, pd.Timestamp):
            d = (x - pd.Timestamp(T0)) / pd.Timedelta(days=1)
            return int(d) if d == int(d) else float(d)
        if isinstance(x, pd.Timedelta):
            d = x / pd.Timedelta(days=1)
            return int(d) if d == int(d) else float(d)
        return int(x)

    class Callable_:
        """user callables given as callable OBJECTS instead of functions"""

        def __init__(self, fn):
            self.fn = fn

        def __call__(self, *a, **k):
            return self.fn(*a, **k)

    shared = {}
    share = bool(case.get("share"))
    hetero = bool(case.get("hetero"))

    def cb(fn, key=None):
        """`share`: ONE callable object per key handed to every registration that needs it (two observations with the same
        aggregator / to_observe / formatter, two stratifications with the same mapper)"""
        if share and key is not None:
            if key not in shared:
                shared[key] = Callable_(fn) if objs else fn
            return shared[key]
        return Callable_(fn) if objs else fn

    # ---- faults: user callables that raise on purpose while one chosen event is gathered (see `live_faults`)
    FAULTS = case_faults(case)
    cur = {"step": None, "phase": None, "em": 0}

    class InjectedFault(RuntimeError):
        pass

    def live(kinds, target=None):
        for f in FAULTS:
            if (f["kind"] in kinds and (target is None or f.get("target") == target)
                    and (f["step"], f["phase"]) == (cur["step"], cur["phase"]) and cur["em"] < f.get("times", 1)):
                return f
        return None

    def boom(f):
        raise {"key": KeyError, "value": ValueError, "zero": ZeroDivisionError, "type": TypeError}.get(f.get("exc"), InjectedFault)(
            f"injected fault: {f['kind']} {f.get('target')}")

    def targeted(kinds, target):
        return any(f["kind"] in kinds and f.get("target") == target for f in FAULTS)

    def faulty(fn, kinds, target, unless=None):
        """`fn`, raising instead while a fault of one of `kinds` aimed at `target` is live (and `unless()` is false)"""
        def wrapped(*a, **k):
            f = live(kinds, target)
            if f and not (unless is not None and unless()):
                boom(f)
            return fn(*a, **k)
        return wrapped

    def vary(fn, kind):
        """`hetero`: the same callable returns its (equal) result in another representation from call to call"""
        if not hetero:
            return fn
        n = [0]

        def wrapped(*a):
            n[0] += 1
            v = fn(*a)
            k = n[0] % 3
            if kind == "vec":          # Series of labels: str dtype / object dtype / categorical with its own categories
                return v.astype(object) if k == 0 else v.astype("category") if k == 1 else v
            if kind == "row":          # one label: str / numpy.str_
                import numpy as np
                return np.str_(v) if k == 0 else v
            if kind == "num":          # a number: python int or float / numpy scalar
                import numpy as np
                if isinstance(v, pd.Series):
                    return v.astype("float32").astype("float64") if k == 0 else v
                return float(v) if k == 0 else np.float64(v) if k == 1 else v
            if kind == "pipe":         # pipeline values: float64 / int64
                return v.astype("int64") if k == 0 else v
            if kind == "bool":
                import numpy as np
                return np.bool_(v) if k == 0 else v
            return v
        return wrapped

    def new_values(n, sids):
        xs = []
        for _ in range(n):
            r = traj.random()
            xs.append(traj.choice([0, 12, 24, 39]) if r < T["p_edge"] else traj.randrange(0, 40))
        return {"g": [traj.choice("abc") for _ in range(n)], "h": [traj.choice("uv") for _ in range(n)],
                "x": [v / SCALE for v in xs], "y": [traj.randrange(0, 6) for _ in range(n)], "sid": list(sids),
                "c": [traj.choice(["c1", "c2", "c3"]) for _ in range(n)]}

    cdtype = pd.CategoricalDtype(["c3", "c9", "c1", "c2"])

    def frame(vals, index):
        return pd.DataFrame({"g": pd.Series(vals["g"], index=index, dtype="str"),
                             "h": pd.Series(vals["h"], index=index, dtype="str"),
                             "x": pd.Series(vals["x"], index=index, dtype="float64"),
                             "y": pd.Series(vals["y"], index=index, dtype="int64"),
                             "sid": pd.Series(vals["sid"], index=index, dtype="int64"),
                             "c": pd.Series(vals["c"], index=index, dtype=cdtype)}, index=index)

    class Aux(Component):
        """a second component: produces the pipeline `pz` and (per-simulant clocks) the step-size modifier"""

        @property
        def name(self):
            return "aux"

        def setup(self, b):
            self.view = b.population.get_view(["sid", "tracked"])
            b.value.register_value_producer("pz", source=faulty(lambda idx: (self.view.get(idx)["sid"] % 2).astype(float), ("pipe",), "pz"),
                                            requires_columns=["sid"])
            if slow:
                b.time.register_step_size_modifier(self.step_size)

        def step_size(self, idx):
            return pd.Series([pd.Timedelta(days=slow["days"]) if int(i) % slow["mod"] == slow["rem"] else pd.NaT for i in idx],
                             index=idx, dtype="timedelta64[ns]")

    class Probe(Component):
        @property
        def name(self):
            return "probe"

        @property
        def columns_created(self):
            return ["g", "h", "x", "y", "sid", "c"]

        def setup(self, b):
            self.creator = b.population.get_simulant_creator()
            self.tv = b.population.get_view(["tracked"])
            self.pvview = b.population.get_view(["y", "sid", "tracked"])
            b.value.register_value_producer("pv", source=faulty(vary(self._pv, "pipe"), ("pipe",), "pv"), requires_columns=["y", "sid"])
            b.value.register_value_producer("pw", source=faulty(self._pw, ("pipe",), "pw"), requires_columns=["y", "sid"])
            b.value.register_value_modifier("pw", modifier=lambda idx, v: v + 1.0)
            b.value.register_value_producer("pf", source=faulty(self._pf, ("pipe",), "pf"), requires_columns=["sid"])
            for k, ph in enumerate(PH):
                b.event.register_listener(ph, (lambda e, k=k: self.pre(k, e)), priority=0)
                b.event.register_listener(ph, (lambda e, k=k: self.post(k, e)), priority=9)
            self.step = 0
            self.u_sid, self.u_restored = None, False

        def _pv(self, idx):
            p = self.pvview.get(idx)
            return ((3 * p["y"] + p["sid"]) % 4).astype(float)

        def _pw(self, idx):
            p = self.pvview.get(idx)
            return ((p["y"] + 2 * p["sid"]) % 3).astype(float).iloc[::-1]      # complete, id-indexed, other row order

        def _pf(self, idx):
            s = pd.Series(1.0, index=idx)
            if len(idx) and live(("filter",)):
                s = s.astype(object)
                s.iloc[0] = "oops"            # a value of another type: `population.query("pf < 2.0")` raises
            return s

        def on_initialize_simulants(self, d):
            self.population_view.update(frame(new_values(len(d.index), d.index), d.index))

        def mutate(self, k, when):
            sim = holder["sim"]
            pop = sim.get_population(untracked=True)
            if self.step in (T.get("freeze") or []):
                return                          # nothing changes: the next event sees exactly the same population again
            nb = traj.randint(0, T["max_births"]) if traj.random() < T["p_birth"] else 0
            retrack = []
            changes = {"g": {}, "h": {}, "x": {}, "y": {}, "c": {}}
            untrack = []
            tracked = pop["tracked"].to_dict() if len(pop) else {}
            for sid in list(pop.index):
                if traj.random() < T["p_change"]:
                    col = traj.choice(["g", "h", "x", "y", "c"])
                    changes[col][sid] = new_values(1, [sid])[col][0]
                if tracked[sid] and traj.random() < T["p_untrack"]:
                    untrack.append(sid)
                elif not tracked[sid] and T.get("p_retrack") and traj.random() < T["p_retrack"]:
                    retrack.append(sid)         # untracked simulants becoming tracked again
            u = case.get("unknown")
            if u and when == "pre" and len(pop):
                if u["step"] == self.step and u["phase"] == k and not (u.get("transient") and self.u_sid is not None):
                    self.u_sid = list(pop.index)[u["who"] % len(pop)]
                    changes[u["col"]][self.u_sid] = BAD_VALUE[u["col"]]
                elif u.get("transient") and self.u_sid is not None and not self.u_restored:
                    # the cause goes away: at the next event (the first one of the step that is run again) the value is valid
                    self.u_restored = True
                    changes[u["col"]][self.u_sid] = GOOD_VALUE[u["col"]]
            for col, ch in changes.items():
                if ch:
                    dt = {"g": "str", "h": "str", "x": "float64", "y": "int64", "c": cdtype}[col]
                    self.population_view.update(pd.Series(list(ch.values()), index=list(ch.keys()), name=col, dtype=dt))
            if untrack:
                self.tv.update(pd.Series(False, index=untrack, name="tracked"))
            if retrack:
                self.tv.update(pd.Series(True, index=retrack, name="tracked"))
            if nb:
                self.creator(nb)
            elif T.get("zero_births") and traj.random() < 0.3:
                self.creator(0)                      # a birth event of nobody

        def pre(self, k, e):
            cur.update(step=self.step, phase=k,
                       em=sum(1 for ev in out["events"] if (ev["step"], ev["phase"]) == (self.step, k)))
            n_before = len(holder["sim"].get_population(untracked=True))
            self.mutate(k, "pre")
            sim = holder["sim"]
            pop = sim.get_population(untracked=True)
            inev = set(int(i) for i in e.index)
            rows = []
            for sid, r in zip(pop.index, pop[["sid", "tracked", "g", "h", "x", "y", "c"]].to_dict("records")):
                x4 = float(r["x"]) * SCALE
                rows.append({"sid": int(r["sid"]), "idx": int(sid), "tracked": bool(r["tracked"]), "g": str(r["g"]), "h": str(r["h"]),
                             "x": int(round(x4)), "xexact": x4 == round(x4), "y": int(r["y"]), "c": str(r["c"]), "in_event": int(sid) in inev})
            out["events"].append({"step": self.step, "phase": k, "time": tick(e.time), "clock": tick(sim._clock.time),
                                  "n_before": n_before, "rows": rows, "after": None})

        def post(self, k, e):
            cur.update(step=None, phase=None)
            sim = holder["sim"]
            res = sim.get_results()
            out["events"][-1]["after"] = {o["name"]: canon_result(res.get(o["name"]), o, pd, tick)
                                          for o in case["obs"] if o["when"] == PH[k] and o["name"] in res}
            if case.get("reread"):
                # results requested twice: equal; and whatever the caller does to the frames it was handed must not reach
                # the running results
                res2 = sim.get_results()
                again = {o["name"]: canon_result(res2.get(o["name"]), o, pd, tick)
                         for o in case["obs"] if o["when"] == PH[k] and o["name"] in res2}
                if again != out["events"][-1]["after"] and out.get("reread_differs") is None:
                    out["reread_differs"] = len(out["events"]) - 1
                for r in (res, res2):
                    for df in r.values():
                        try:
                            for c in df.columns:
                                if c in VALUE_COLS:
                                    df[c] = -7.0
                            df.drop(df.index, inplace=True)
                        except Exception:  # noqa: BLE001
                            pass
            self.mutate(k, "post")
            if k == 3:
                self.step += 1

    def register_strat(b, s):
        kind, name, ex = s["kind"], s["name"], s.get("excl_code")
        c = list(s.get("cats", KINDS[kind][0]))
        reg, binreg = b.results.register_stratification, b.results.register_binned_stratification

        def cbm(fn):
            per_row = kind in ("h2", "zw", "hp")
            fn = vary(fn, "row" if per_row else "vec")
            u = case.get("unknown") or {}
            if not (u.get("raises") and kind in RAISING_KINDS[u["col"]]):
                return cb(fn, ("map", kind))
            col, bad = u["col"], BAD_VALUE[u["col"]]

            def raising(x):
                """a mapper that has no label for the bad value and says so (a pure function of its input)"""
                if (x[col] == bad) if per_row else bool((x[col] == bad).any()):
                    raise KeyError(f"mapper of {name}: no label for {bad!r}")
                return fn(x)
            return cb(raising)

        def edges(es):
            """the same edges as list of floats / list of ints / tuple / numpy array (`bin_edges: List[Union[int, float]]`)"""
            import numpy as np
            how = s.get("edges_as")
            vals = [e / SCALE for e in es]
            if how == "int" and all(v == int(v) for v in vals):
                return [int(v) for v in vals]
            if how == "tuple":
                return tuple(vals)
            if how == "ndarray":
                return np.array(vals)
            return vals
        if kind == "g":
            reg(name, c, excluded_categories=ex, requires_columns=["g"])
        elif kind == "cdef":
            reg(name, c, excluded_categories=ex, requires_columns=["c"])
        elif kind == "h2":
            reg(name, c, excluded_categories=ex, mapper=cbm(lambda row: row["h"].upper()), is_vectorized=False, requires_columns=["h"])
        elif kind == "xb":
            binreg("x", name, edges(EDGES_X), c, excluded_categories=ex)
        elif kind == "pvb":
            binreg("pv", name, edges(EDGES_PV), c, excluded_categories=ex, target_type="value")
        elif kind == "pwb":
            binreg("pw", name, edges(EDGES_PW), c, excluded_categories=ex, target_type="value")
        elif kind == "pvs":
            reg(name, c, excluded_categories=ex, mapper=cbm(lambda df: df["pv"].map(lambda v: "p%d" % int(v))),
                is_vectorized=True, requires_values=["pv"])
        elif kind == "pq":
            reg(name, c, excluded_categories=ex,
                mapper=cbm(lambda df: "q" + ((df["pv"] + df["pw"]) % 2).astype(int).astype(str)),
                is_vectorized=True, requires_values=["pw", "pv"])
        elif kind == "zw":
            reg(name, c, excluded_categories=ex, mapper=cbm(lambda row: "z%dw%d" % (int(row["pz"]), int(row["pw"]))),
                is_vectorized=False, requires_values=["pz", "pw"])
        elif kind == "gy":
            reg(name, c, excluded_categories=ex, mapper=cbm(lambda df: df["g"] + (df["y"] % 2).astype(str)),
                is_vectorized=True, requires_columns=["g", "y"])
        elif kind == "hp":
            reg(name, c, excluded_categories=ex, mapper=cbm(lambda row: row["h"] + ("e" if int(row["pv"]) % 2 == 0 else "o")),
                is_vectorized=False, requires_columns=["h"], requires_values=["pv"])
        elif kind == "gcat":
            def split_concat(df):
                known = ["c", "a", "b"]
                parts = [df.loc[df["g"] == v, "g"].str.upper() for v in known]
                parts.append(df.loc[~df["g"].isin(known), "g"].str.upper())
                return pd.concat(parts).astype(object)
            reg(name, c, excluded_categories=ex, mapper=cbm(split_concat), is_vectorized=True, requires_columns=["g"])
        elif kind == "ysort":
            reg(name, c, excluded_categories=ex,
                mapper=cbm(lambda df: "y" + (df["y"].sort_values(ascending=False) % 3).astype(str)),
                is_vectorized=True, requires_columns=["y"])
        elif kind == "hrev":
            reg(name, c, excluded_categories=ex, mapper=cbm(lambda df: "r" + df["h"].iloc[::-1]), is_vectorized=True,
                requires_columns=["h"])
        elif kind == "xfr":
            def frame_column(df):
                tmp = df[["x", "y"]].copy()
                tmp["label"] = tmp["x"].map(lambda v: "small" if v < 5 else "large")
                return tmp.sort_values(["x", "y"], ascending=[False, True])["label"]
            reg(name, c, excluded_categories=ex, mapper=cbm(frame_column), is_vectorized=True, requires_columns=["x", "y"])
        else:
            raise ValueError(kind)

    def formatter(o):
        """results_formatter variants; `canon_result` undoes them.  `inplace2` scribbles on what it is given: the raw
        results must not be affected (get_results hands out copies)"""
        f = o.get("fmt")
        typ = o["type"]
        if f == "identity":
            return cb(lambda measure, results: results, ("fmt", f))
        if f == "measure":
            return cb(lambda measure, results: results.reset_index().assign(measure=measure) if typ == "add"
                      else results.assign(measure=measure), ("fmt", f, typ))
        if f == "inplace2":
            def doubled(measure, results):
                for c in list(results.columns):
                    results[c] *= 2
                return results.reset_index()
            return cb(doubled, ("fmt", f))
        return None

    def register_obs(b, o, add, exc):
        fc, fv = filter_columns(o["filter"])
        kw = dict(name=o["name"], when=o["when"])
        if o["when"] == "collect_metrics" and o.get("default_when"):
            del kw["when"]
        if o["filter"] is not None:
            kw["pop_filter"] = query_string(o["filter"], o.get("ws", 0))
        m, rem = o["mod"], o["rem"]
        oname = o["name"]
        def spared():
            return all_passing_excluded(case, o, out["events"][-1]["rows"])
        if targeted(("to_observe",), oname):
            kw["to_observe"] = cb(faulty(vary(lambda e, m=m, rem=rem: m <= 1 or tick(e.time) % m == rem, "bool"), ("to_observe",), oname, spared))
        elif m > 1:
            kw["to_observe"] = cb(vary(lambda e, m=m, rem=rem: tick(e.time) % m == rem, "bool"), ("obs", m, rem))

        def cbf(fn, kinds, key=None):
            """a callable of this observation; wrapped (and not shared with other registrations) when a fault aims at it"""
            return cb(faulty(fn, kinds, oname, spared)) if targeted(kinds, oname) else cb(fn, key)
        fm = formatter(o)
        if fm is not None:
            kw["results_formatter"] = fm
        if o["type"] == "cat":
            cols = ["sid"] + [c for c in o["cols"] if c not in PIPES]
            vals = [c for c in o["cols"] if c in PIPES]
            rc = sorted(set(cols) | set(fc), key=lambda c: (c not in cols, c))
            rv = sorted(set(vals) | set(fv), key=lambda c: (c not in vals, c))
            kw.update(requires_columns=rc, requires_values=rv)
            if o.get("method") == "unstratified":
                included = ["event_time"] + rc + rv
                if not o.get("nocb"):
                    kw["results_gatherer"] = cbf(lambda pop: pop[included], ("gatherer",))
                    kw["results_updater"] = cbf(lambda old, new: new if old.empty else pd.concat([old, new], ignore_index=True), ("updater",))
                b.results.register_unstratified_observation(**kw)
            else:
                b.results.register_concatenating_observation(**kw)
            return
        agg = o["agg"]
        rc, rv = set(fc), set(fv)
        A_ = ("agg",)
        if agg == "count":
            kw["aggregator"] = cbf(vary(lambda df: len(df), "num"), A_, ("agg", agg))
        elif agg == "len" and targeted(A_, oname):
            kw["aggregator"] = cbf(len, A_)          # the default aggregator, handed over explicitly so that it can fail
        elif agg == "sumy":
            kw.update(aggregator_sources=["y"], aggregator=cbf(vary(lambda df: df["y"].sum(), "num"), A_, ("agg", agg))); rc.add("y")       # noqa: E702
        elif agg == "sumx":
            kw.update(aggregator_sources=["x"], aggregator=cbf(vary(lambda df: df["x"].sum(), "num"), A_, ("agg", agg))); rc.add("x")       # noqa: E702
        elif agg == "sumpv":
            kw.update(aggregator_sources=["pv"], aggregator=cbf(vary(lambda df: df["pv"].sum(), "num"), A_, ("agg", agg))); rv.add("pv")    # noqa: E702
        elif agg == "sumpw":
            kw.update(aggregator_sources=["pw"], aggregator=cbf(vary(lambda df: df["pw"].sum(), "num"), A_, ("agg", agg))); rv.add("pw")    # noqa: E702
        elif agg == "sumy_nosrc":
            kw.update(aggregator=cbf(vary(lambda df: df["y"].sum(), "num"), A_, ("agg", agg))); rc.add("y")                                  # noqa: E702
        elif agg == "multi":
            kw.update(aggregator_sources=["y"],
                      aggregator=cbf(vary(lambda df: pd.Series({"n": float(len(df)), "sy": float(df["y"].sum())}), "num"), A_, ("agg", agg))); rc.add("y")   # noqa: E702
        kw.update(requires_columns=sorted(rc), requires_values=sorted(rv))
        if add or o.get("pass_empty"):
            kw["additional_stratifications"] = list(add)
        if exc or o.get("pass_empty"):
            kw["excluded_stratifications"] = list(exc)
        if o.get("method") == "stratified":
            if not o.get("nocb"):
                def add_up(existing, new):
                    upd = existing.copy()
                    for c in new.columns:
                        if c not in upd.columns:
                            upd[c] = 0.0
                        upd[c] = upd[c] + new[c]
                    return upd
                kw["results_updater"] = cbf(add_up, ("updater",))
            if fm is None:
                kw["results_formatter"] = cb(lambda measure, results: results.reset_index())
            b.results.register_stratified_observation(**kw)
        else:
            b.results.register_adding_observation(**kw)

    class Direct(Component):
        @property
        def name(self):
            return "direct_registrations"

        def setup(self, b):
            for item in case["order"]:
                kind, i = item
                if kind == "s":
                    register_strat(b, case["strats"][i])
                else:
                    o = case["obs"][i]
                    if o.get("via") != "observer":
                        register_obs(b, o, o.get("add", []), o.get("exc", []))

    class CfgObserver(Observer):
        def __init__(self, o):
            super().__init__()
            self.o = o

        @property
        def name(self):
            return self.o["name"] + "_observer"

        def register_observations(self, b):
            cfg = b.configuration.stratification[self.get_configuration_name()]
            register_obs(b, self.o, list(cfg.include), list(cfg.exclude))

    comps = [Probe(), Aux(), Direct()] + [CfgObserver(o) for o in case["obs"] if o.get("via") == "observer"]
    strat_cfg = {}
    if case["cfg_default"] is not None:
        strat_cfg["default"] = list(case["cfg_default"])
    if case["cfg_excl"]:
        strat_cfg["excluded_categories"] = {k: list(v) for k, v in case["cfg_excl"].items()}
    for o in case["obs"]:
        if o.get("via") == "observer":
            strat_cfg[o["name"]] = {"include": list(o.get("add", [])), "exclude": list(o.get("exc", []))}
    cfg = {"population": {"population_size": case["pop"]}}
    plug = None
    if datetime_clock:
        cfg["time"] = {"start": {"year": 2020, "month": 1, "day": 1}, "end": {"year": 2021, "month": 1, "day": 1}, "step_size": 1}
    else:
        cfg["time"] = {"start": 0, "end": case["steps"], "step_size": 1}
        plug = {"required": {"clock": {"controller": "vivarium.framework.time.SimpleClock",
                                       "builder_interface": "vivarium.framework.time.TimeInterface"}}}
    if strat_cfg:
        cfg["stratification"] = strat_cfg
    if not _is_twin:
        SimulationContext._clear_context_cache()
    catch = case.get("catch")
    stage = "construct"
    try:
        if case.get("interactive"):
            # the caller of lesson 16: an InteractiveContext user, who can catch what `step()` raises and carry on
            from vivarium import InteractiveContext
            sim = InteractiveContext(components=comps, configuration=cfg, plugin_configuration=plug, logging_verbosity=0, setup=False)
            holder["sim"] = sim
            stage = "setup"
            sim.setup()                      # setup + initialize_simulants
        else:
            sim = SimulationContext(components=comps, configuration=cfg, plugin_configuration=plug, logging_verbosity=0)
            holder["sim"] = sim
            stage = "setup"
            sim.setup()
            stage = "init"
            sim.initialize_simulants()
        stage = "run"
        yield
        if not catch:
            for _ in range(case["steps"]):
                sim.step()
                yield
        else:
            # the harness plays the calling component: it catches what `step()` raises, reads the results, and calls
            # `step()` again (the cause is transient: a fault is live for its first `times` emissions only)
            done = failures = 0
            while done < case["steps"]:
                try:
                    sim.step()
                    done += 1
                except Exception as e:  # noqa: BLE001
                    last = out["events"][-1] if out["events"] else None
                    cur.update(step=None, phase=None)
                    if last is not None and last["after"] is None and last.get("raised") is None:
                        # raised between the probe's listeners of one event, i.e. by the results manager's gathering
                        last["raised"] = type(e).__name__
                        last["error"] = f"{type(e).__name__}: {str(e)[:160]}"
                        try:
                            res = sim.get_results()          # results read between the failure and the retry
                            last["after_fail"] = {o["name"]: canon_result(res.get(o["name"]), o, pd, tick)
                                                  for o in case["obs"] if o["name"] in res}
                            if case.get("reread"):
                                for df in res.values():
                                    try:
                                        for c in df.columns:
                                            if c in VALUE_COLS:
                                                df[c] = -7.0
                                        df.drop(df.index, inplace=True)
                                    except Exception:  # noqa: BLE001
                                        pass
                        except Exception as e2:  # noqa: BLE001
                            last["after_fail_error"] = f"{type(e2).__name__}: {str(e2)[:160]}"
                        failures += 1
                        if failures > catch.get("max", 2):
                            out["gave_up"] = True
                            break
                    else:
                        # raised outside an observed event (e.g. the life cycle refuses to run the step again)
                        out["refused"] = f"{type(e).__name__}: {str(e)[:160]}"
                        out["refused_class"] = type(e).__name__
                        break
                yield
        stage = "results"
        res = sim.get_results()
        out["final"] = {o["name"]: canon_result(res.get(o["name"]), o, pd, tick) for o in case["obs"]}
        out["final_extra"] = sorted(set(res) - {o["name"] for o in case["obs"]})
        stage = "finalize"
        if catch:
            try:
                sim.finalize()
            except Exception as e:  # noqa: BLE001
                out["finalize_error"] = f"{type(e).__name__}: {str(e)[:160]}"
        else:
            sim.finalize()
        if out.get("finalize_error") is None:
            res = sim.get_results()
            out["after_finalize"] = {o["name"]: canon_result(res.get(o["name"]), o, pd, tick) for o in case["obs"]}
    except Exception as e:  # noqa: BLE001
        out["outcome"] = stage + "-error"
        out["error"] = f"{type(e).__name__}: {str(e)[:200]}"
        out["error_class"] = type(e).__name__
    return out


_WARM = False


def _run_isolated(case):
    """Run the case in a forked child of a process that has imported the implementation but never ran a simulation, so
    that the process history of a case is exactly what the case says (its `prior` simulations) whatever the pool worker
    ran before: failures caused by state leaking between simulations replay from the case alone."""
    import json
    import os
    import signal
    import traceback
    impl.load()
    global _WARM
    if not _WARM:
        # one fixed, minimal simulation per worker process (no stratification, explicit arguments everywhere) so that lazy
        # imports and caches are paid once and not in every child; it is the same for every case, hence deterministic
        _WARM = True
        try:
            _run(mk(1, 1, [], [A("warm", flt=[["tracked", "==", True]], pass_empty=True), Cc("warmrows", flt=[["y", ">=", 0]])]),
                 _is_prior=True)
        except Exception:  # noqa: BLE001
            pass
    r, w = os.pipe()
    pid = os.fork()
    if pid == 0:
        code = 0
        try:
            os.close(r)
            signal.alarm(0)
            # interval timers are not inherited across fork: give the child the case's CPU-time budget itself
            # (the parent only waits, so its own CPU timer cannot see a hang in here)
            from ..runner import CaseTimeout, _alarm
            signal.signal(signal.SIGPROF, _alarm)
            signal.setitimer(signal.ITIMER_PROF, float(C16.case_timeout), 2.0)
            try:
                out = _run(case)
            except CaseTimeout:
                out = {"__timeout__": True}
            except BaseException as e:  # noqa: BLE001
                out = {"__crash__": f"{type(e).__name__}: {e}", "__trace__": traceback.format_exc()[-1500:]}
            with os.fdopen(w, "wb") as f:
                f.write(json.dumps(out).encode())
        except BaseException:  # noqa: BLE001
            code = 1
        finally:
            os._exit(code)
    os.close(w)
    try:
        with os.fdopen(r, "rb") as f:
            data = f.read()
        os.waitpid(pid, 0)
    except BaseException:
        try:
            os.kill(pid, signal.SIGKILL)
            os.waitpid(pid, 0)
        except Exception:  # noqa: BLE001
            pass
        raise
    if not data:
        return {"__crash__": "the child process running the simulation died without a result"}
    return json.loads(data)


def _num(v):
    """exact canonical form of a float: [numerator, denominator] (or a string for nan/inf)"""
    try:
        f = float(v)
    except Exception:  # noqa: BLE001
        return "notnum:" + type(v).__name__
    if f != f:
        return "nan"
    if f in (float("inf"), float("-inf")):
        return "inf"
    a, b = f.as_integer_ratio()
    return [a, b]


VALUE_COLS = ("value", "n", "sy")


def canon_result(df, o, pd, tick=int):
    """get_results()[name] -> JSON: adding: {"cols": [...], "rows": [[cat..., value(s)]]}; concatenating: cols + rows.
    The effect of the observation's own results_formatter (a user callable) is undone first."""
    if df is None:
        return None
    fmt = o.get("fmt")
    try:
        if fmt == "identity" and o["type"] == "add":
            df = df.reset_index()
        elif fmt == "measure" and "measure" in df.columns and (df["measure"] == o["name"]).all():
            df = df.drop(columns=["measure"])
        elif fmt == "inplace2":
            df = df.copy()
            for c in df.columns:
                if c in VALUE_COLS:
                    df[c] = df[c] / 2
    except Exception:  # noqa: BLE001
        pass
    cols = [str(c) for c in df.columns]
    recs = df.to_dict("records")
    rows = []
    if o["type"] == "cat":
        for r in recs:
            rows.append([(tick(r[c]) if c == "event_time" else int(r[c]) if c in ("sid", "y") else str(r[c]) if c in ("g", "h") else _num(r[c]))
                         for c in df.columns])
        return {"cols": cols, "rows": rows}
    for r in recs:
        rows.append([(_num(r[c]) if c in VALUE_COLS else str(r[c])) for c in df.columns])
    return {"cols": cols, "rows": rows}


# ---------------------------------------------------------------------------------------- specification helpers
# (plain Python over the case and the snapshots; used by the oracle and to feed the model its inputs)

def strat_cats(s):
    return list(s.get("cats", KINDS[s["kind"]][0]))


def raw_category(s, r):
    """reference semantics of the probe mapper of stratification `s` on snapshot row `r`"""
    k = s["kind"]
    if k in BINNED:
        num, edges = BINNED[k]
        return _bin(num(r), edges, strat_cats(s)) if len(strat_cats(s)) + 1 == len(edges) else "NaN"
    return KINDS[k][1](r)


def exclusions(case, s):
    ex = s.get("excl_code")
    return list(ex) if ex is not None else list((case["cfg_excl"] or {}).get(s["name"], []))


def invalid_reason(case):
    """why the real code must reject this program at setup (None = a valid program).  Mirrors the documented
    `Raises` of add_stratification / register_observation / on_post_setup; not part of the property."""
    seen, onames = set(), set()
    for kind, i in case["order"]:
        if kind == "s":
            s = case["strats"][i]
            c = strat_cats(s)
            if s["kind"] in BINNED and len(c) + 1 != len(BINNED[s["kind"]][1]):
                return "bad-bins"
            if s["name"] in seen:
                return "dup-strat"
            if len(set(c)) != len(c):
                return "dup-category"
            ex = exclusions(case, s)
            if set(ex) - set(c):
                return "unknown-exclusion"
            if not [x for x in c if x not in ex]:
                return "all-excluded"
            seen.add(s["name"])
        else:
            o = case["obs"][i]
            if o.get("nocb") and o.get("method") in ("stratified", "unstratified") and o.get("via") != "observer":
                return "missing-callable"
            if o["name"] in onames:
                return "dup-observation"
            onames.add(o["name"])
    for o in case["obs"]:
        if o.get("nocb") and o.get("method") in ("stratified", "unstratified"):
            return "missing-callable"
    for o in case["obs"]:
        if o["type"] == "add" and set(obs_strat_names(case, o)) - seen:
            return "missing-strat"
    return None


def obs_strat_names(case, o):
    return sorted((set(case["cfg_default"] or []) | set(o["add"])) - set(o["exc"]))


def strat_by_name(case, name):
    for kind, i in case["order"]:
        if kind == "s" and case["strats"][i]["name"] == name:
            return case["strats"][i]
    return None


def registered_strats(case):
    return [case["strats"][i] for kind, i in case["order"] if kind == "s"]


def to_observe(o, time):
    return o["mod"] <= 1 or time % o["mod"] == o["rem"]


def concat_payload(o, r):
    out = [r["sid"]]
    for c in o["cols"]:
        out.append(PIPES[c](r) if c in PIPES else r[c])
    return out


def impl_table(res, names, scale, vcol="value", vset=("value",)):
    """canonical form of an adding observation's formatted result: {key tuple (sorted names): int | str}, problems.
    `vcol` = the value column looked at, `vset` = all value columns the observation's aggregator produces."""
    probs = []
    cols = res["cols"]
    if len(vset) > 1 and "value" in cols and not (set(vset) - {"value"}) & set(cols):
        # an aggregator returning a Series: its columns appear with the first recorded increment; until then they are 0
        cols = cols + [c for c in vset if c != "value"]
        res = {"cols": cols, "rows": [r + [[0, 1]] * (len(vset) - 1) for r in res["rows"]]}
    if names:
        if set(cols) != set(names) | set(vset) or len(cols) != len(names) + len(vset):
            probs.append(f"columns {cols}, expected {sorted(names)} + {list(vset)}")
            return None, probs
        order = [cols.index(n) for n in names]
    else:
        # not stratified: one row; how the framework labels it ("stratification" = "all") is not part of the property
        if not set(vset) <= set(cols) or len(cols) != 1 + len(vset):
            probs.append(f"columns {cols}, expected one label column + {list(vset)}")
            return None, probs
        order = None
    vi = cols.index(vcol) if vcol in cols else None
    tab = {}
    for row in res["rows"]:
        k = tuple(row[j] for j in order) if order is not None else ("all",)
        v = row[vi] if vi is not None else [0, 1]
        if isinstance(v, list):
            f = Fraction(v[0], v[1]) * scale
            v = int(f) if f.denominator == 1 else str(f)
        if k in tab:
            probs.append(f"duplicate row {k}")
        tab[k] = v
    return tab, probs


def impl_concat(res, o):
    """rows of a concatenating observation as [event_time, sid, included columns in quarter/integer units]"""
    if res is None:
        return None
    if not res["cols"] and not res["rows"]:
        return []
    want = ["event_time", "sid"] + list(o["cols"])
    cols = res["cols"]
    if any(c not in cols for c in want):
        return "columns " + ",".join(cols)
    out = []
    for row in res["rows"]:
        rr = []
        for c in want:
            v = row[cols.index(c)]
            if c == "x" or c in PIPES:
                f = Fraction(v[0], v[1]) * SCALE if isinstance(v, list) else None
                v = int(f) if f is not None and f.denominator == 1 else str(v)
            rr.append(v)
        out.append(rr)
    return out


def canon_concat(rows):
    """order inside one event is not part of the property: sort inside runs of equal event_time"""
    if not isinstance(rows, list):
        return rows
    out, i = [], 0
    while i < len(rows):
        j = i
        while j < len(rows) and rows[j][0] == rows[i][0]:
            j += 1
        out += sorted(rows[i:j], key=lambda r: [str(x) for x in r])
        i = j
    return out


class C16(Prop):
    id = "C16"
    lean_modules = ["VivModel.Props.C16", "VivModel.Props.C16Src"]
    build_targets = ["VivModel.Model.Results", "VivModel.Model.Proto"]
    driver = "C16"
    technique = ("Lean 4 proof (induction over rows, strata and events of an executable model of "
                 "ResultsManager/ResultsContext/Stratification/Observation) + differential correspondence: generated "
                 "observer programs in real simulations with births and untracking, results recomputed from population snapshots")
    partial = ("user callables (mappers, pop_filter queries, aggregators, to_observe) and the pandas primitives behind "
               "query/groupby/cut/reindex are inputs of the model: their outputs on the snapshot rows are recomputed by "
               "reference Python in the harness; aggregators are additive (count, sums); float arithmetic idealised "
               "(all values exact dyadics)")
    n_quick = 100
    n_thorough = 2000
    workers = 8
    case_timeout = 60
    rule = ("each case is a whole simulation with a generated observer program (0-4 stratifications of 11 kinds, 4 of them with mapper output in another row order, 1-5 adding / "
            "concatenating observations over the four phases, exclusions from code and configuration, default / additional / "
            "excluded stratifications directly and through Observer configuration, filters, to_observe, 6 aggregators) over a "
            "random trajectory (births, untracking, value changes, optional unknown category); in 40 % of the valid programs user "
            "callables of the results system (pipelines, mappers, filter evaluation, to_observe, aggregators, gatherers, updaters) "
            "raise on purpose at a chosen event, the harness - an InteractiveContext caller - catches the exception, reads the "
            "results, runs the step again and finishes the run; in 12 % a second simulation is alive in the same process and "
            "steps through the same clock times; distinct by case hash; "
            "non-trivial = at least one event with an eligible simulant was observed and a non-zero result reported")

    # ------------------------------------------------------------------ generation
    def boundary(self):
        return boundary_cases()

    def generate(self, rng: random.Random, i: int, tier: str):
        case = gen_case(rng, tier)
        decorate(case, tier)          # lesson 16; draws nothing from `rng`: the stream of base cases is what it was
        return case

    def shrink(self, case):
        return shrink_case(case)

    # ------------------------------------------------------------------ implementation
    def run_impl(self, case):
        return _run_isolated(case)

    # ------------------------------------------------------------------ model
    def model_lines(self, case, obs):
        L = []
        V = vobs_indexed(case)
        for name, cats in sorted((case["cfg_excl"] or {}).items()):
            L.append(f"cfgexcl {name} {_lst(cats)}")
        if case["cfg_default"] is not None:
            L.append(f"default {_lst(case['cfg_default'])}")
        # registrations in the order in which they REALLY happen (it decides the order of the observation groups):
        # the Direct component's in case order, then the Observer components'
        ftok = {}
        for o in case["obs"]:
            ftok.setdefault(filter_string(o), f"F{len(ftok)}")
        via_observer = [["o", i] for i, o in enumerate(case["obs"]) if o.get("via") == "observer"]
        for kind, i in [x for x in case["order"] if not (x[0] == "o" and case["obs"][x[1]].get("via") == "observer")] + via_observer:
            if kind == "s":
                s = case["strats"][i]
                ex = s.get("excl_code")
                edges = BINNED[s["kind"]][1] if s["kind"] in BINNED else None
                L.append(f"strat {s['name']} {_lst(strat_cats(s))} {'none' if ex is None else _lst(ex)} "
                         f"{'none' if edges is None else _lst(edges)}")
            else:
                for o in V:
                    if o["src"] != case["obs"][i]["name"] or o["_i"] != i:
                        continue
                    nocb = " nocb" if (o.get("nocb") and o.get("method") in ("stratified", "unstratified")) else ""
                    ft = ftok[filter_string(o)]
                    if o["type"] == "add":
                        L.append(f"obs add {o['name']} {o['when']} {_lst(o['add'])} {_lst(o['exc'])} {ft}{nocb}")
                    else:
                        L.append(f"obs cat {o['name']} {o['when']} {ft}{nocb}")
        L.append("setup")
        if obs["outcome"] in ("construct-error", "setup-error", "init-error"):
            return L
        catch = bool(case.get("catch"))
        req_pipes = required_pipes(case)
        for o in V:
            L.append(f"names {o['name']}")
        regs = registered_strats(case)
        for n, ev in enumerate(obs["events"]):
            ph = PH[ev["phase"]]
            rows = ev["rows"]
            live = live_faults(case, obs["events"], n) if catch else []
            bits = _lst([1 if r["in_event"] else 0 for r in rows])
            raws = []
            for r in rows:
                toks = []
                for s in regs:
                    if s["kind"] in BINNED:
                        toks.append(str(BINNED[s["kind"]][0](r)))
                    else:
                        toks.append(raw_category(s, r))
                raws.append(",".join(toks) if toks else "-")
            line = f"{'evc' if catch else 'ev'} {ph} {ev['time']} {bits} {';'.join(raws) if raws else '-'}"
            if catch:
                ef = (["prepare"] if any(f["kind"] == "pipe" and f["target"] in req_pipes for f in live) else []) + \
                     (["mapper"] if mapper_raises_at(case, ev) else [])
                line += " " + (",".join(ef) if ef else "-")
            for o in V:
                if o["when"] != ph:
                    continue
                t = 1 if to_observe(o, ev["time"]) else 0
                pb = _lst([1 if passes(o["filter"], r) else 0 for r in rows])
                if o["type"] == "add":
                    data = _lst([row_value(o["agg"], r) for r in rows])
                else:
                    data = ";".join(",".join(str(v) for v in concat_payload(o, r)) for r in rows) if rows else "-"
                line += f" {o['name']}:{t}:{pb}:{data}" + (":" + obs_fault_code(case, o, live, rows) if catch else "")
            L.append(line)
            if ev["after"] is not None:
                for o in V:
                    if o["when"] == ph:
                        L.append(f"get {o['name']}")
            elif ev.get("after_fail") is not None:
                for o in V:                                  # results read between the failure and the retry: ALL of them
                    L.append(f"get {o['name']}")
        if obs["final"] is not None:
            for o in V:
                L.append(f"get {o['name']}")
        return L

    def compare(self, case, obs, replies):
        dis = []
        it = iter(replies)
        V = vobs_indexed(case)
        nreg = (len((case["cfg_excl"] or {})) + (1 if case["cfg_default"] is not None else 0)
                + sum(1 for k, _ in case["order"] if k == "s") + len(V) + 1)
        reg = [next(it) for _ in range(nreg)]
        if any(r == "bad-op" for r in reg):
            return ["driver: bad-op in registration " + str(reg)]
        model_rejects = [r for r in reg if r.startswith("err")]
        impl_rejects = obs["outcome"] in ("construct-error", "setup-error", "init-error")
        if bool(model_rejects) != impl_rejects:
            dis.append(f"setup: implementation {obs['outcome']} ({obs['error']}), model {model_rejects or 'accepts'}")
        if impl_rejects or model_rejects:
            return dis
        onames = {}
        for o in V:
            r = next(it)
            onames[o["name"]] = [] if r == "ok -" else r[3:].split(",")
        scale = {o["name"]: agg_scale(o["agg"]) if o["type"] == "add" else 1 for o in V}

        def same(o, res, reply, where):
            if not reply.startswith("ok"):
                return [f"{where} {o['name']}: model reply {reply}"]
            body = reply[3:] if len(reply) > 3 else "-"
            if o["type"] == "add":
                mt = {}
                for ent in ([] if body == "-" else body.split(";")):
                    k, v = ent.rsplit("=", 1)
                    mt[tuple([] if (k == "all" and not onames[o["name"]]) else k.split("|"))] = int(v)
                if not onames[o["name"]]:
                    mt = {("all",): v for v in mt.values()}
                tab, probs = impl_table(res, onames[o["name"]], scale[o["name"]], o["vcol"], o["vset"])
                if probs or tab != mt:
                    return [f"{where} {o['name']}: implementation {probs or _short(tab)}, model {_short(mt)}"]
                return []
            mr = [] if body == "-" else [[int(x) for x in row.split(",")] for row in body.split(";")]
            ir = impl_concat(res, o)
            if canon_concat(ir) != canon_concat(mr):
                return [f"{where} {o['name']}: implementation rows {str(ir)[:200]}, model rows {str(mr)[:200]}"]
            return []

        stopped_impl = obs["outcome"] == "run-error"
        for n, ev in enumerate(obs["events"]):
            r = next(it)
            raised_here = (stopped_impl and n == len(obs["events"]) - 1 and ev["after"] is None) or ev.get("raised") is not None
            if r == "bad-op":
                return dis + [f"driver: bad-op at event {n}"]
            if (r != "ok") != raised_here:
                dis.append(f"event {n} (step {ev['step']} {PH[ev['phase']]}): implementation "
                           f"{'raised ' + str(obs['error']) if raised_here else 'continued'}, model {r}")
                return dis
            if ev["after"] is not None:
                for o in V:
                    if o["when"] == PH[ev["phase"]]:
                        dis += same(o, ev["after"].get(o["src"]), next(it), f"after event {n} (step {ev['step']} {PH[ev['phase']]})")
                if dis:
                    return dis
            elif ev.get("after_fail") is not None:
                for o in V:
                    dis += same(o, ev["after_fail"].get(o["src"]), next(it),
                                f"after the FAILED gathering of event {n} (step {ev['step']} {PH[ev['phase']]}, {ev.get('raised')})")
                if dis:
                    return dis
        if stopped_impl and not (obs["events"] and obs["events"][-1]["after"] is None):
            dis.append(f"implementation raised outside an observed event: {obs['error']}")
        if obs["final"] is not None:
            for o in V:
                reply = next(it)
                dis += same(o, obs["final"].get(o["src"]), reply, "final")
                if obs.get("after_finalize") is not None:
                    dis += same(o, obs["after_finalize"].get(o["src"]), reply, "after finalize")
            if obs.get("final_extra"):
                dis.append(f"unexpected measures {obs['final_extra']}")
        return dis

    # ------------------------------------------------------------------ oracle (the property itself)
    def oracle(self, case, obs):
        return oracle(case, obs)

    def nontrivial(self, case, obs):
        if obs["outcome"] != "ok" or not obs["final"]:
            return False
        for o in case["obs"]:
            res = obs["final"].get(o["name"])
            if res and o["type"] == "add" and any(isinstance(v, list) and v[0] != 0 for r in res["rows"] for v in r):
                return True
            if res and o["type"] == "cat" and res["rows"]:
                return True
        return False

    def tags(self, case, obs):
        return tags(case, obs)

    def sample_view(self, case, obs):
        return {"case": case, "outcome": obs["outcome"], "error": obs["error"], "events": len(obs["events"]),
                "first_event": (obs["events"][0] if obs["events"] else None), "final": obs["final"]}


def vobs_indexed(case):
    """virtual observations with the index of their source in case["obs"] (two entries of case["obs"] may share a name)"""
    out = []
    for i, o in enumerate(case["obs"]):
        for v in vobs({"obs": [o]}):
            out.append(dict(v, _i=i))
    return out


def _lst(xs):
    xs = list(xs)
    return ",".join(str(x) for x in xs) if xs else "-"


def _short(t):
    return str(dict(sorted(t.items())) if isinstance(t, dict) else t)[:300]




# ---------------------------------------------------------------------------------------- oracle

def oracle(case, obs):
    """The property evaluated on the implementation's behaviour, from the snapshots only (no Lean model)."""
    fails = _oracle(case, obs)
    if not any(f["sig"].startswith("twin:") for f in fails):
        fails = fails + twin_fails(case, obs)
    return fails


def _oracle(case, obs):
    fails = []

    def fail(sig, msg):
        if not any(f["sig"] == sig for f in fails):
            fails.append({"sig": sig, "msg": msg})

    why = invalid_reason(case)
    if obs["outcome"] in ("construct-error", "setup-error", "init-error"):
        if why is None:
            fail("setup-raised", f"a valid observer program was refused: {obs['error']}")
        return fails
    if why is not None:
        # an invalid program the code accepted.  Mostly outside the property (only the correspondence flags it), but some
        # of them make the property unsatisfiable: two observations under one name cannot both be reported; a
        # stratification that is not registered or has a repeated category cannot give "one row per combination"; an
        # observation without its updater / gatherer cannot accumulate anything
        if why in ("dup-observation", "dup-strat", "dup-category", "missing-strat", "missing-callable"):
            fail("invalid-program-accepted:" + why, f"setup accepted a program with {why}; outcome {obs['outcome']}")
        return fails
    regs = registered_strats(case)
    allcats = {s["name"]: strat_cats(s) for s in regs}
    kept = {s["name"]: [c for c in strat_cats(s) if c not in exclusions(case, s)] for s in regs}
    V = vobs(case)
    adding = [o for o in V if o["type"] == "add"]
    names = {o["name"]: obs_strat_names(case, o) for o in adding}
    full = {o["name"]: ([tuple(k) for k in itertools.product(*[kept[n] for n in names[o["name"]]])] if names[o["name"]] else [("all",)])
            for o in adding}
    running = {o["name"]: {k: 0 for k in full[o["name"]]} for o in adding}      # expected running totals
    before = {o["name"]: {k: 0 for k in full[o["name"]]} for o in adding}       # last running totals reported
    ever = {o["name"]: set() for o in adding}                                    # strata in which something was observed
    cexp = {o["name"]: [] for o in case["obs"] if o["type"] == "cat"}

    def check_shape(o, res, where):
        """one row per combination of the non-excluded categories"""
        if res is None:
            fail("result-missing", f"{where}: no result for {o['name']}")
            return None
        tab, probs = impl_table(res, names[o["name"]], agg_scale(o["agg"]), o["vcol"], o["vset"])
        if tab is None:
            fail("result-shape", f"{where} {o['name']}: {probs}")
            return None
        want = set(full[o["name"]])
        excluded_shown = [k for k in tab if any(c in exclusions(case, strat_by_name(case, n)) for c, n in zip(k, names[o["name"]]))]
        if excluded_shown:
            fail("excluded-category-reported", f"{where} {o['name']}: rows for excluded categories {excluded_shown[:4]}")
        elif probs or set(tab) != want:
            fail("result-shape", f"{where} {o['name']}: {probs} missing {sorted(want - set(tab))[:4]} extra {sorted(set(tab) - want)[:4]} "
                                 f"({len(tab)} rows, {len(want)} combinations of non-excluded categories)")
        bad = {k: v for k, v in tab.items() if not isinstance(v, int)}
        if bad:
            fail("result-not-a-number", f"{where} {o['name']}: {list(bad.items())[:4]}")
            return None
        return tab

    stopped = obs["outcome"] == "run-error"
    catch = bool(case.get("catch"))
    for n, ev in enumerate(obs["events"]):
        ph = PH[ev["phase"]]
        where = f"event {n} (step {ev['step']} {ph}" + (f", emission {emission_no(obs['events'], n) + 1}" if catch else "") + ")"
        rows = ev["rows"]
        inev = [r for r in rows if r["in_event"]]
        live = live_faults(case, obs["events"], n) if catch else []
        if not isinstance(ev["time"], int):
            fail("harness-inexact", f"{where}: event time {ev['time']} is not a whole number of days")
            return fails
        if not case.get("slow"):
            # expectations from the CONFIGURATION, not from what the implementation reports: start 0, step 1, everybody who
            # existed when the phase began is in the event (simulants born by the probe's priority-0 listener are not)
            if ev["time"] != ev["step"] + 1 or ev["clock"] != ev["step"]:
                fail("event-time", f"{where}: clock {ev['clock']}, event time {ev['time']}; configured start 0, step 1")
            bad = [r["idx"] for r in rows if r["in_event"] != (r["idx"] < ev["n_before"])]
            if bad:
                fail("event-index", f"{where}: simulants {bad[:6]} wrongly in / not in event.index ({ev['n_before']} existed when the phase began)")
        if any(not r["xexact"] for r in rows):
            fail("harness-inexact", f"{where}: an x value is not a multiple of 1/4")
        # unknown categories: `wide` = some mapper was given a simulant of the event and produced an unknown category;
        # `narrow` = that simulant would otherwise have been counted by an observation of this event
        wide = [(s["name"], r["sid"]) for s in regs for r in inev if raw_category(s, r) not in allcats[s["name"]]]
        narrow = [(o["name"], n_, r["sid"]) for o in adding if o["when"] == ph and to_observe(o, ev["time"])
                  for n_ in names[o["name"]] for r in inev
                  if passes(o["filter"], r) and raw_category(strat_by_name(case, n_), r) not in allcats[n_]]
        raised_here = (stopped and n == len(obs["events"]) - 1 and ev["after"] is None) or ev.get("raised") is not None
        if raised_here:
            if not wide and not live and not mapper_raises_at(case, ev):
                fail("simulation-raised", f"{where}: {ev.get('error') or obs['error']}")
                return fails
            if not catch:
                return fails
            # The caller caught the exception.  Property: every event that was actually gathered contributes exactly once.
            # A failed gathering may have reached some observations of its phase and not others (nothing in the property
            # says which): each of them shows, in the results read right after the failure, either no change at all or
            # exactly this event's increment - never a part of it, never anything for another phase.
            af = ev.get("after_fail")
            if af is None:
                fail("results-unreadable-after-failed-gathering", f"{where}: {ev.get('after_fail_error')}")
                return fails
            for o in V:
                observing = o["when"] == ph and to_observe(o, ev["time"])
                if o["type"] == "cat":
                    got = canon_concat(impl_concat(af.get(o["name"]), o))
                    new = [[ev["time"]] + concat_payload(o, r) for r in inev if passes(o["filter"], r)] if observing else []
                    if got == canon_concat(cexp[o["name"]]):
                        pass
                    elif got == canon_concat(cexp[o["name"]] + new):
                        cexp[o["name"]] += new
                    else:
                        fail("failed-gathering-increment", f"{where} {o['name']}: rows after the failed gathering {str(got)[:300]}: neither "
                                                           f"the rows before nor those plus this event's eligible rows {str(new)[:200]}")
                        return fails
                    continue
                nm = names[o["name"]]
                elig = [r for r in inev if passes(o["filter"], r)
                        and all(raw_category(strat_by_name(case, n_), r) in kept[n_] for n_ in nm)]
                inc = {k: 0 for k in full[o["name"]]}
                if observing:
                    for r in elig:
                        k = tuple(raw_category(strat_by_name(case, n_), r) for n_ in nm) if nm else ("all",)
                        inc[k] += row_value(o["agg"], r)
                tab = check_shape(o, af.get(o["src"]), where + " (read after the failure)")
                if tab is None or set(tab) != set(full[o["name"]]):
                    return fails
                got_inc = {k: tab[k] - before[o["name"]][k] for k in tab}
                before[o["name"]] = tab
                if not any(got_inc.values()):
                    continue
                if got_inc == inc:
                    for k, v in inc.items():
                        running[o["name"]][k] += v
                    for r in (elig if observing else []):
                        ever[o["name"]].add(tuple(raw_category(strat_by_name(case, n_), r) for n_ in nm) if nm else ("all",))
                else:
                    fail("failed-gathering-increment", f"{where} {o['name']} ({o['when']}): the gathering raised {ev.get('raised')}; change read after "
                                                       f"the failure {_nz(got_inc)}: neither nothing nor this event's increment {_nz(inc)}")
                    return fails
            continue
        if narrow:
            fail("unknown-category-not-stopped", f"{where}: mapper of {narrow[0][1]} produced an unknown category for simulant "
                                                 f"{narrow[0][2]} (eligible for {narrow[0][0]}) and the simulation went on")
            return fails
        # `wide` without `narrow` and no stop: the property does not say what happens when nobody who would have been
        # counted is affected; such simulants are eligible nowhere at this event, so the expectations below stand
        if ev["after"] is None:
            fail("simulation-raised", f"{where}: {obs['error']}")
            return fails
        for o in V:
            if o["when"] != ph:
                continue
            observing = to_observe(o, ev["time"])
            if o["type"] == "cat":
                if observing:
                    cexp[o["name"]] += [[ev["time"]] + concat_payload(o, r) for r in inev if passes(o["filter"], r)]
                got = impl_concat(ev["after"].get(o["name"]), o)
                if canon_concat(got) != canon_concat(cexp[o["name"]]):
                    fail("concat-rows", f"{where} {o['name']}: rows {str(got)[:300]}, eligible rows so far {str(cexp[o['name']])[:300]}")
                continue
            nm = names[o["name"]]
            elig = [r for r in inev if passes(o["filter"], r)
                    and all(raw_category(strat_by_name(case, n_), r) in kept[n_] for n_ in nm)]
            inc = {k: 0 for k in full[o["name"]]}
            if observing:
                for r in elig:
                    k = tuple(raw_category(strat_by_name(case, n_), r) for n_ in nm) if nm else ("all",)
                    inc[k] += row_value(o["agg"], r)       # each eligible simulant: exactly one stratum
                    ever[o["name"]].add(k)
            for k, v in inc.items():
                running[o["name"]][k] += v
            tab = check_shape(o, ev["after"].get(o["src"]), where)
            if tab is None or set(tab) != set(full[o["name"]]):
                return fails
            got_inc = {k: tab[k] - before[o["name"]][k] for k in tab}
            before[o["name"]] = tab
            total = sum(row_value(o["agg"], r) for r in elig) if observing else 0
            if not observing and any(got_inc.values()):
                fail("to-observe-false-incremented", f"{where} {o['name']}: to_observe is False, increments {_nz(got_inc)}")
            elif sum(got_inc.values()) != total:
                fail("conservation", f"{where} {o['name']}: increments over all strata add up to {sum(got_inc.values())}, "
                                     f"aggregate over the {len(elig)} eligible simulants is {total} (unit 1/{agg_scale(o['agg'])})")
            elif got_inc != inc:
                fail("stratum-increment", f"{where} {o['name']}: increments {_nz(got_inc)}, eligible simulants per stratum {_nz(inc)}")
    if stopped:
        fail("simulation-raised", f"outside an observed event: {obs['error']}")
        return fails
    # a step / finalize refused by the life cycle: legitimate only after a gathering failed in a phase before
    # collect_metrics (the main loop cannot be re-entered from there - C06's business, a refusal, not a wrong result)
    early_failure = any(ev.get("raised") is not None and ev["phase"] < 3 for ev in obs["events"])
    for key in ("refused", "finalize_error"):
        if obs.get(key) and not early_failure:
            fail("simulation-raised", f"outside an observed event ({key}): {obs[key]}")
    if obs["final"] is None:
        fail("no-results", "get_results() was not reached")
        return fails
    if obs["outcome"] != "ok":
        fail("simulation-raised", f"{obs['outcome']}: {obs['error']}")
    if obs.get("reread_differs") is not None:
        fail("results-differ-when-read-twice", f"event {obs['reread_differs']}: two consecutive get_results() calls returned different results")
    # the results read after the last step and the results read after finalize(): both must be the sum of the increments
    for label, final in (("final", obs["final"]), ("after finalize", obs.get("after_finalize"))):
        if final is None:
            continue
        for o in V:
            res = final.get(o["src"])
            if o["type"] == "cat":
                got = impl_concat(res, o)
                if canon_concat(got) != canon_concat(cexp[o["name"]]):
                    fail("concat-rows", f"{label} {o['name']}: rows {str(got)[:300]}, eligible rows event after event {str(cexp[o['name']])[:300]}")
                continue
            tab = check_shape(o, res, label)
            if tab is None or set(tab) != set(full[o["name"]]):
                continue
            if tab != running[o["name"]]:
                fail("final-not-sum-of-increments", f"{label} {o['name']}: reported {_nz(tab)}, sum of the per-event increments {_nz(running[o['name']])}")
            nzu = {k: v for k, v in tab.items() if k not in ever[o["name"]] and v != 0}
            if nzu:
                fail("nonzero-where-nothing-observed", f"{label} {o['name']}: {nzu}")
    return fails


def twin_fails(case, obs):
    """the second simulation of the process (its step attempts interleaved with this one's) must satisfy the property on
    its own: nothing - not even a failed gathering - is shared between two simulations"""
    if not case.get("twin") or not isinstance(obs.get("twin"), dict):
        return []
    return [{"sig": "twin:" + f["sig"], "msg": "second simulation in the same process: " + f["msg"]}
            for f in oracle(case["twin"], obs["twin"])[:2]]


def _nz(t):
    return str({k: v for k, v in sorted(t.items()) if v != 0})[:300]


# ---------------------------------------------------------------------------------------- distribution tags

def tags(case, obs):
    t = ["outcome:" + obs["outcome"], f"pop:{case['pop'] if case['pop'] < 3 else '3+'}", f"strats:{len(case['strats'])}"]
    why = invalid_reason(case)
    if why:
        t.append("invalid:" + why)
    for s in case["strats"]:
        t.append("kind:" + s["kind"])
        ex = s.get("excl_code")
        t.append("excl-code:" + ("none" if ex is None else "empty" if not ex else "some"))
        if ex is None and (case["cfg_excl"] or {}).get(s["name"]):
            t.append("excl-from-config")
        if ex is not None and (case["cfg_excl"] or {}).get(s["name"]):
            t.append("excl-code-overrides-config")
        if "cats" in s:
            t.append("cats-override")
        if s["kind"] in REORDERING:
            t.append("mapper-output-in-other-row-order")
    if case["cfg_default"]:
        t.append("default-strats")
    for o in case["obs"]:
        t.append("obs:" + o["type"])
        t.append("when:" + o["when"])
        t.append("filter:" + ("default" if o["filter"] is None else "none" if not o["filter"] else "+".join(sorted({a[0] for a in o["filter"]}))))
        t.append("to_observe:" + ("always" if o["mod"] <= 1 else "sometimes"))
        if o.get("via") == "observer":
            t.append("via-observer-config")
        t.append("method:" + (o.get("method") or ("adding" if o["type"] == "add" else "concatenating")))
        t.append("formatter:" + (o.get("fmt") or "default"))
        used_pipes = ({a[0] for a in (o["filter"] or [])} | set(o.get("cols", []))) & set(PIPES)
        if len(used_pipes) >= 2:
            t.append("observation-needs-2+-pipelines")
        if o["type"] == "add":
            t.append("agg:" + o["agg"])
            if why is None:
                t.append(f"obs-strats:{len(obs_strat_names(case, o))}")
            if o["add"]:
                t.append("additional")
            if o["exc"]:
                t.append("excluded-strat")
    if why is None and shared_frame_hazard(case):
        t.append("unfiltered-excluding-group-then-other-group-same-phase")
    t.append("clock:" + (case.get("clock") or "simple") + ("+per-simulant-steps" if case.get("slow") else ""))
    if case.get("prior"):
        t.append(f"prior-simulations-in-process:{len(case['prior'])}")
    if case.get("callobj"):
        t.append("callables-as-objects")
    for k, lab in (("share", "one-callable-object-for-several-registrations"), ("hetero", "callables-vary-representation-between-calls"),
                   ("reread", "results-read-twice-and-scribbled-on")):
        if case.get(k):
            t.append(lab)
    if case["traj"].get("freeze"):
        t.append("frozen-steps(identical-population-repeated)")
    if case["traj"].get("p_retrack"):
        t.append("retracking")
    kinds_seen = [s["kind"] for s in case["strats"]]
    if len(set(kinds_seen)) < len(kinds_seen) and why is None:
        t.append("two-stratifications-one-mapper-kind")
    fl = [(o["when"], _query_string(o["filter"])) for o in case["obs"] if o["filter"]]
    if any(o.get("ws") for o in case["obs"]) and len(set(fl)) < len(fl):
        t.append("same-filter-other-whitespace-same-phase")
    fl2 = [(o["when"], str(o["filter"]), o.get("ws", 0)) for o in case["obs"]]
    if len(set(fl2)) < len(fl2):
        t.append("same-filter-string-same-phase")
    if obs.get("after_finalize") is not None:
        t.append("results-read-after-finalize")
    if case.get("unknown"):
        t.append("unknown-injected:" + case["unknown"]["col"])
        if case["unknown"].get("transient"):
            t.append("unknown-transient(gone-when-the-step-is-run-again)")
        if case["unknown"].get("raises"):
            t.append("mapper-raises-on-unknown-value")
    for f in case_faults(case):
        t.append("fault:" + f["kind"])
        t.append(f"fault-phase:{PH[f['phase']]}")
        t.append("fault-at:" + ("first-step" if f["step"] == 0 else "last-step" if f["step"] == case["steps"] - 1 else "middle-step"))
        if f.get("times", 1) > 1:
            t.append("fault-live-for-2+-emissions")
    if case.get("catch"):
        t.append("caller-catches")
    if case.get("interactive"):
        t.append("InteractiveContext")
    if case.get("twin"):
        t.append("twin-simulation-interleaved" + ("(with-failures)" if any(e.get("raised") for e in (obs.get("twin") or {}).get("events", [])) else ""))
    last_seen = {}
    for n, ev in enumerate(obs["events"]):
        if ev.get("raised"):
            t.append("caught:" + str(ev["raised"]))
            t.append("failed-gathering:" + PH[ev["phase"]])
            af = ev.get("after_fail") or {}
            if any((last_seen[k] != v) if k in last_seen else _not_initial(v) for k, v in af.items()):
                t.append("failed-gathering-kept-what-was-gathered-before-the-failure")
            if not live_faults(case, obs["events"], n):
                t.append("caught-unknown-category-from-data")
            if n + 1 < len(obs["events"]):
                t.append("step-run-again-after-failure")
        for k, v in list((ev.get("after") or {}).items()) + list((ev.get("after_fail") or {}).items()):
            last_seen[k] = v
        if emission_no(obs["events"], n) > 0 and ev["after"] is not None:
            t.append("phase-emitted-again-for-the-same-clock-time")
    if obs.get("refused"):
        t.append("retry-refused-by-life-cycle:" + str(obs.get("refused_class")))
    if obs.get("gave_up"):
        t.append("caller-gave-up-after-repeated-failures")
    sizes = set()
    births = untracked = notinev = edge = False
    for ev in obs["events"]:
        k = sum(1 for r in ev["rows"] if r["in_event"])
        sizes.add("event-size:" + ("0" if k == 0 else "1" if k == 1 else "2+"))
        notinev |= any(not r["in_event"] for r in ev["rows"])
        untracked |= any(not r["tracked"] for r in ev["rows"])
        edge |= any(r["x"] in (0, 12, 24) for r in ev["rows"])
    t += sorted(sizes)
    if obs["events"]:
        births = len(obs["events"][-1]["rows"]) > case["pop"]
    t += ["births"] * births + ["untracked"] * untracked + ["born-in-phase(not-in-event)"] * notinev + ["x-on-bin-edge"] * edge
    if case.get("slow") and any(any((not r["in_event"]) and r["idx"] < case["pop"] for r in ev["rows"]) for ev in obs["events"]):
        t.append("event-index-smaller-than-population(per-simulant-clock)")
    if obs["outcome"] == "run-error":
        t.append("stopped:" + str(obs.get("error_class")))
    if obs["outcome"] == "ok" and obs["final"]:
        for o in case["obs"]:
            res = obs["final"].get(o["name"])
            if res and o["type"] == "add":
                z = [r for r in res["rows"] if [0, 1] in r[-1:]]
                t.append("has-zero-stratum" if z else "all-strata-nonzero")
                t.append(f"rows:{'1' if len(res['rows']) == 1 else '2-6' if len(res['rows']) <= 6 else '7+'}")
    return t


def _not_initial(res):
    """has a canonical result left its initial state (all zeros / no rows)?"""
    if not res:
        return False
    cols = res["cols"]
    if "event_time" in cols or not any(c in VALUE_COLS for c in cols):
        return bool(res["rows"])
    return any(r[j] != [0, 1] for r in res["rows"] for j, c in enumerate(cols) if c in VALUE_COLS)


def shared_frame_hazard(case):
    """an unfiltered adding observation stratified by something with exclusions, followed (registration order) in the same
    phase by an observation with a different (filter, stratifications) key"""
    eff = [case["obs"][i] for k, i in case["order"] if k == "o" and case["obs"][i].get("via") != "observer"] + \
          [o for o in case["obs"] if o.get("via") == "observer"]

    def key(o):
        return (str(o["filter"]), tuple(obs_strat_names(case, o)) if o["type"] == "add" else None)
    for i, a in enumerate(eff):
        if a["type"] != "add" or a["filter"] != []:
            continue
        if not any(exclusions(case, strat_by_name(case, n)) for n in obs_strat_names(case, a)):
            continue
        if any(b["when"] == a["when"] and key(b) != key(a) for b in eff[i + 1:]):
            return True
    return False


# ---------------------------------------------------------------------------------------- generation

FILTERS = [None, None, None, [], [], [], [], [["pw", ">=", 2.0]], [["pz", "==", 0.0], ["tracked", "==", True]],
           [["g", "in", ["a", "c"]]], [["pv", "<", 3.0], ["pw", "!=", 2.0]], [["c", "!=", "c2"]], [["tracked", "==", True], ["y", ">", 2]], [["x", "<", 5.0]], [["y", ">=", 1]],
           [["g", "==", "a"]], [["pv", ">", 1.0]], [["tracked", "==", True], ["g", "!=", "b"]], [["x", ">=", 3.0]],
           [["tracked", "==", True]], [["h", "==", "u"], ["y", "<=", 4]], [["tracked", "==", False]]]
TRAJ0 = {"p_edge": 0.25, "max_births": 0, "p_birth": 0.0, "p_change": 0.0, "p_untrack": 0.0}


def gen_obs(rng, k, snames, defaults):
    typ = "add" if rng.random() < 0.8 else "cat"
    mod = rng.choice([1, 1, 1, 2, 3])
    o = {"name": f"o{k}", "type": typ, "when": rng.choice(PH), "filter": rng.choice(FILTERS), "mod": mod,
         "rem": rng.randrange(mod)}
    if o["when"] == "collect_metrics" and rng.random() < 0.5:
        o["default_when"] = True                   # rely on the interface's default phase
    if o["filter"] and rng.random() < 0.3:
        o["ws"] = rng.choice([1, 2])               # the same filter in other bytes
    if rng.random() < 0.2:
        o["method"] = "stratified" if typ == "add" else "unstratified"      # the general interface methods, own updater / gatherer
    r = rng.random()
    if r < 0.3:
        o["fmt"] = rng.choice(["identity", "measure", "inplace2"] if typ == "add" else ["identity", "measure"])
    if typ == "cat":
        o["cols"] = rng.sample(["y", "x", "pv", "pw"], rng.randint(0, 4))
        return o
    o["add"] = [s for s in snames if rng.random() < 0.5]
    if o["add"] and rng.random() < 0.1:
        o["add"] = o["add"] + [o["add"][0]]            # named twice
    o["exc"] = [s for s in defaults if rng.random() < 0.3]
    if snames and rng.random() < 0.1:
        o["exc"].append(rng.choice(snames))        # possibly not a default: a no-op with a warning
        o["exc"] = sorted(set(o["exc"]))
    o["agg"] = rng.choice(AGGS)
    if rng.random() < 0.25:
        o["via"] = "observer"
    if rng.random() < 0.15:
        o["pass_empty"] = True
    return o


def gen_prior(rng, tier):
    """an earlier simulation of the same process: its own stratifications, NON-EMPTY default stratifications, observations
    that rely on the default arguments of the interface (no additional / excluded stratifications passed)"""
    p = gen_case(rng, tier, allow_prior=False)
    while not p["strats"] or invalid_reason(p):
        p = gen_case(rng, tier, allow_prior=False)
    p["cfg_default"] = sorted({s["name"] for s in p["strats"] if rng.random() < 0.7} or {p["strats"][0]["name"]})
    for o in p["obs"]:
        if o["type"] == "add":
            o["add"], o["exc"] = [], []
            o.pop("pass_empty", None)
            o.pop("via", None)
    p["steps"], p["pop"], p["unknown"] = 1, min(p["pop"], 3), None
    return p


def gen_case(rng, tier, allow_prior=True):
    big = tier == "thorough"
    ns = rng.choice([0, 1, 1, 2, 2, 2, 3, 3, 4] if big else [0, 1, 1, 2, 2, 3, 3])
    kinds = rng.sample(sorted(KINDS), ns)
    strats = []
    for k in kinds:
        s = {"name": k, "kind": k, "excl_code": None}
        if k in BINNED and rng.random() < 0.6:
            s["edges_as"] = rng.choice(["int", "tuple", "ndarray"])
        r = rng.random()
        cats = KINDS[k][0]
        if r < 0.25:
            s["excl_code"] = [rng.choice(cats)]
        elif r < 0.32:
            s["excl_code"] = rng.sample(cats, 2) if len(cats) > 2 else [cats[0]]
        elif r < 0.42:
            s["excl_code"] = []
        strats.append(s)
    if strats and rng.random() < 0.2:
        # a second stratification with the SAME mapper (kind) under another name and with other exclusions
        t = rng.choice(strats)
        cats = KINDS[t["kind"]][0]
        twin = {"name": t["name"] + "2", "kind": t["kind"], "excl_code": rng.choice([None, [rng.choice(cats)], []])}
        if "edges_as" in t:
            twin["edges_as"] = t["edges_as"]
        strats.append(twin)
    cfg_excl = {}
    for s in strats:
        if rng.random() < 0.3:
            cats = KINDS[s["kind"]][0]
            cfg_excl[s["name"]] = rng.sample(cats, 1 if rng.random() < 0.8 or len(cats) < 3 else 2)
    if rng.random() < 0.1:
        cfg_excl["not_registered"] = ["q"]
    snames = [s["name"] for s in strats]
    cfg_default = None if rng.random() < 0.3 else [s for s in snames if rng.random() < 0.4]
    defaults = cfg_default or []
    obs = [gen_obs(rng, k, snames, defaults) for k in range(rng.randint(1, 6 if big else 4))]
    if strats and rng.random() < 0.4:
        crowd_phase(rng, case_strats=strats, cfg_excl=cfg_excl, obs=obs, snames=snames, defaults=defaults, big=big)
    steps = rng.randint(1, 6 if big else 4)
    traj = {"p_edge": 0.25, "zero_births": rng.random() < 0.3, "max_births": rng.choice([1, 2, 3 if big else 2]), "p_birth": rng.choice([0.0, 0.3, 0.6]),
            "p_change": rng.choice([0.0, 0.2, 0.5]), "p_untrack": rng.choice([0.0, 0.15, 0.4])}
    case = {"pop": rng.choice([0, 1, 1, 2, 3, 5, 8] + ([13, 21] if big else [])), "steps": steps, "tseed": rng.randrange(10 ** 6),
            "traj": traj, "unknown": None, "strats": strats, "cfg_default": cfg_default, "cfg_excl": cfg_excl, "obs": obs}
    r = rng.random()
    if r < 0.3:
        case["clock"] = "datetime"
        if r < 0.2:
            # per-simulant clocks: some simulants take longer steps, so event.index is SMALLER than the population
            mod = rng.choice([2, 2, 3])
            case["slow"] = {"mod": mod, "rem": rng.randrange(mod), "days": rng.choice([2, 3])}
    if rng.random() < 0.25:
        case["callobj"] = True
    if rng.random() < 0.3:
        case["share"] = True
        adders = [o for o in obs if o["type"] == "add"]
        if len(adders) >= 2 and rng.random() < 0.7:
            # the SAME aggregator object, the same stratifications, the same phase – and different filters: whatever is
            # computed for one of them must not be taken for the other
            a, b = rng.sample(adders, 2)
            b["agg"], b["add"], b["exc"], b["when"] = a["agg"], list(a["add"]), list(a["exc"]), a["when"]
            b.pop("default_when", None)
            a.pop("default_when", None)
            b["mod"], b["rem"] = a["mod"], a["rem"]
            fa, fb = rng.sample([None, [], [["y", ">=", 2]], [["x", "<", 5.0]], [["tracked", "==", False]]], 2)
            a["filter"], b["filter"] = fa, fb
            for o in (a, b):
                o.pop("ws", None)
                o.pop("via", None)
    if rng.random() < 0.25:
        case["hetero"] = True
    if rng.random() < 0.5:
        case["reread"] = True
    if rng.random() < 0.3:
        traj["p_retrack"] = rng.choice([0.3, 0.6])
    if steps >= 2 and rng.random() < 0.25:
        traj["freeze"] = sorted(rng.sample(range(1, steps), rng.randint(1, steps - 1)))
    if allow_prior and rng.random() < 0.3:
        case["prior"] = [gen_prior(rng, tier) for _ in range(rng.choice([1, 1, 2]))]
    if rng.random() < 0.22:
        case["unknown"] = {"step": rng.randrange(steps), "phase": rng.randrange(4), "col": rng.choice(["g", "h", "x"]),
                           "who": rng.randrange(100)}
    # a category missing from the declared list: the mapper will run into it sooner or later
    if strats and rng.random() < 0.06:
        s = rng.choice(strats)
        if s["kind"] not in BINNED:
            full = KINDS[s["kind"]][0]
            s["cats"] = full[:-1]
            s["excl_code"] = [c for c in (s["excl_code"] or []) if c in s["cats"]] if s["excl_code"] is not None else None
            if s["name"] in cfg_excl:
                cfg_excl[s["name"]] = [c for c in cfg_excl[s["name"]] if c in s["cats"]]
    # programs the real code must refuse at setup
    r = rng.random()
    if r < 0.14:
        bad = rng.choice(["dup-strat", "dup-category", "unknown-exclusion", "unknown-exclusion-config", "all-excluded", "bad-bins",
                          "dup-observation", "dup-observation-other-kind", "missing-strat", "missing-callable"])
        if bad == "dup-strat" and strats:
            strats.append(dict(rng.choice(strats)))
        elif bad == "dup-category" and strats:
            s = rng.choice(strats)
            if s["kind"] not in BINNED:
                s["cats"] = strat_cats(s) + [strat_cats(s)[0]]
        elif bad == "unknown-exclusion" and strats:
            rng.choice(strats)["excl_code"] = ["nope"]
        elif bad == "unknown-exclusion-config" and strats:
            s = rng.choice(strats)
            s["excl_code"] = None
            cfg_excl[s["name"]] = ["nope"]
        elif bad == "all-excluded" and strats:
            s = rng.choice(strats)
            s["excl_code"] = strat_cats(s)
        elif bad == "bad-bins":
            strats.append({"name": "xb2", "kind": "xb", "excl_code": None, "cats": ["lo", "hi"]})
        elif bad == "dup-observation":
            obs.append(dict(rng.choice(obs)))
        elif bad == "dup-observation-other-kind":
            d = gen_obs(rng, 99, snames, defaults)         # same name, anything else different (type, phase, method …)
            d["name"] = rng.choice(obs)["name"]
            d.pop("via", None)
            obs.append(d)
        elif bad == "missing-callable":
            o = rng.choice(obs)
            o["method"] = "stratified" if o["type"] == "add" else "unstratified"
            o["nocb"] = True
        elif bad == "missing-strat":
            o = rng.choice(obs)
            if o["type"] == "add":
                o["add"] = o["add"] + ["nostrat"]
    order = [["s", i] for i in range(len(strats))] + [["o", i] for i in range(len(obs))]
    if rng.random() < 0.5:
        rng.shuffle(order)
    case["order"] = order
    return case


def crowd_phase(rng, case_strats, cfg_excl, obs, snames, defaults, big):
    """Several observation groups with DIFFERENT (filter, stratifications) keys in ONE phase, one of them unfiltered
    (`pop_filter=""`: everybody, untracked included) and stratified by a stratification that has an excluded category.
    The results context walks the groups of a phase over one shared per-event frame, in registration order: whatever one
    group does to that frame (drop excluded simulants, filter) must not leak into the groups handled after it."""
    phase = rng.choice(PH)
    while len(obs) < 3:
        obs.append(gen_obs(rng, len(obs), snames, defaults))
    if big and rng.random() < 0.5:
        obs.append(gen_obs(rng, len(obs), snames, defaults))
    for o in obs:
        if rng.random() < 0.85:
            o["when"] = phase
    s = rng.choice(case_strats)
    if s.get("excl_code") is None and not cfg_excl.get(s["name"]):
        cats = KINDS[s["kind"]][0]
        if rng.random() < 0.5:
            s["excl_code"] = [rng.choice(cats)]
        else:
            cfg_excl[s["name"]] = [rng.choice(cats)]
    elif s.get("excl_code") == []:
        s["excl_code"] = [rng.choice(KINDS[s["kind"]][0])]
    adders = [o for o in obs if o["type"] == "add"]
    a = rng.choice(adders) if adders else None
    if a is None:
        a = obs[0]
        a.clear()
        a.update({"name": "o0", "type": "add", "when": phase, "filter": [], "mod": 1, "rem": 0, "add": [], "exc": [], "agg": "len"})
    a["filter"] = []
    a["when"] = phase
    a["add"] = sorted(set(a["add"]) | {s["name"]})
    a["exc"] = [n for n in a["exc"] if n != s["name"]]
    if rng.random() < 0.7:
        a["mod"], a["rem"] = 1, 0
    # the others: make sure at least one of them does NOT use s (a different group that must still see everybody)
    others = [o for o in obs if o is not a]
    b = rng.choice(others)
    b["when"] = phase
    if b["type"] == "add":
        b["add"] = [n for n in b["add"] if n != s["name"]]
        if s["name"] in defaults:
            b["exc"] = sorted(set(b["exc"]) | {s["name"]})
    # two groups with the SAME non-trivial filter (verbatim or in other whitespace) and different stratification sets
    if len(others) >= 2 and rng.random() < 0.6:
        c, d = rng.sample(others, 2)
        flt = rng.choice([f for f in FILTERS if f])
        c["filter"], d["filter"] = [list(x) for x in flt], [list(x) for x in flt]
        c["when"] = d["when"] = phase
        c.pop("ws", None)
        d.pop("ws", None)
        if rng.random() < 0.5:
            d["ws"] = rng.choice([1, 2])
        if c["type"] == "add":
            c["add"] = sorted(set(c["add"]) | {s["name"]})
            c["exc"] = [n for n in c["exc"] if n != s["name"]]
    # registration order: the unfiltered one first half of the time, otherwise left to the shuffle below
    if rng.random() < 0.5:
        i = obs.index(a)
        obs.insert(0, obs.pop(i))


def add_faults(case, frng):
    """Dedicated mode (lessons 9, 16): user callables of the results system that raise on purpose at a chosen event (first /
    middle / last step, any of the four phases, collect_metrics most often because only there the step can be run again),
    the caller catching the exception and carrying on.  Observations are herded into the phase so that the failing
    callable has other observation groups before and after it."""
    steps = case["steps"]
    faults = []
    for _ in range(frng.choice([1, 1, 1, 2])):
        phase = 3 if frng.random() < 0.65 else frng.randrange(3)
        step = frng.choice([0, steps - 1, frng.randrange(steps)])
        if faults and frng.random() < 0.5:
            phase, step = faults[0]["phase"], faults[0]["step"]        # two failing callables in ONE event
        for o in case["obs"]:
            if o["when"] != PH[phase] and frng.random() < 0.5:
                o["when"] = PH[phase]
                o.pop("default_when", None)
        here = [o for o in case["obs"] if o["when"] == PH[phase]]
        classes = []
        if here:
            classes += ["obs", "obs", "obs", "filter"]
        by_col = {col: [s for s in registered_strats(case) if s["kind"] in RAISING_KINDS[col] + {"g": ("g",), "h": (), "x": ("xb",)}[col]]
                  for col in ("g", "h", "x")}
        if any(by_col.values()) and not case.get("unknown") and not any(f.get("mapper") for f in faults):
            classes.append("mapper")
        classes.append("pipe")
        cls = frng.choice(classes)
        f = {"step": step, "phase": phase, "times": frng.choice([1, 1, 1, 2]), "exc": frng.choice([None, None, "key", "value", "zero", "type"])}
        if cls == "obs":
            o = frng.choice(here)
            kinds = ["to_observe"] + (["agg", "agg"] if o["type"] == "add" else [])
            if o.get("method") in ("stratified", "unstratified") and not o.get("nocb"):
                kinds += ["updater", "updater"] + (["gatherer"] if o["type"] == "cat" else [])
            f.update(kind=frng.choice(kinds), target=o["name"])
            if f["kind"] == "to_observe" and frng.random() < 0.5:
                o["mod"], o["rem"] = 1, 0
        elif cls == "filter":
            o = frng.choice(here)
            base = [["tracked", "==", True]] if o["filter"] is None else [list(a) for a in o["filter"]]
            if not has_pf_atom(o):
                o["filter"] = base + [["pf", "<", 2.0]]
            f.update(kind="filter", target=None)
        elif cls == "mapper":
            # a mapper fails through the data: a value it has no category for (or, `raises`, no label at all: KeyError)
            # appears at the chosen event and is gone when the step is run again
            col = frng.choice([c for c in ("g", "h", "x") if by_col[c]])
            case["unknown"] = {"step": step, "phase": phase, "col": col, "who": frng.randrange(100), "transient": frng.random() < 0.8,
                               "raises": frng.random() < 0.5}
            continue
        else:
            req = sorted(required_pipes(case))
            if not req:
                o = frng.choice(case["obs"]) if case["obs"] else None
                if o is not None and not has_pf_atom(o):
                    o["filter"] = ([["tracked", "==", True]] if o["filter"] is None else [list(a) for a in o["filter"]]) + [["pf", "<", 2.0]]
                req = ["pf"]
            f.update(kind="pipe", target=frng.choice(req))
        faults.append(f)
    if faults:
        case["faults"] = faults
    case["catch"] = {"max": frng.choice([1, 2, 2, 3])}
    if frng.random() < 0.7:
        case["interactive"] = True


def decorate(case, tier):
    """fault / re-entrancy decorations of a generated case, from a random stream of their own (seeded by the case)"""
    if invalid_reason(case) is not None:
        return
    frng = random.Random(case["tseed"] * 1000003 + case["pop"] * 101 + len(case["obs"]) * 7 + case["steps"])
    r = frng.random()
    if r < 0.4 and case["obs"]:
        add_faults(case, frng)
    elif case.get("unknown") and r < 0.75:
        case["catch"] = {"max": frng.choice([1, 2])}          # an unknown category that does NOT go away: every retry fails again
        if frng.random() < 0.6:
            case["interactive"] = True
    if frng.random() < 0.12:
        # a second simulation alive in the same process, stepping through the same clock times, with (often) failures of its own
        t = gen_prior(random.Random(frng.randrange(10 ** 9)), tier)
        t["steps"] = case["steps"]
        for k in ("clock", "slow"):
            t.pop(k, None)
            if k in case:
                t[k] = case[k]
        if frng.random() < 0.7 and t["obs"] and invalid_reason(t) is None:
            add_faults(t, frng)
        case["twin"] = t
        if frng.random() < 0.5:
            case["twin_first"] = True


def mk(pop, steps, strats, obs, **kw):
    case = {"pop": pop, "steps": steps, "tseed": kw.pop("tseed", 1), "traj": dict(TRAJ0, **kw.pop("traj", {})), "unknown": kw.pop("unknown", None),
            "strats": strats, "cfg_default": kw.pop("cfg_default", None), "cfg_excl": kw.pop("cfg_excl", {}), "obs": obs}
    case["order"] = kw.pop("order", [["s", i] for i in range(len(strats))] + [["o", i] for i in range(len(obs))])
    for k in ("clock", "slow", "callobj", "prior", "share", "hetero", "reread", "faults", "catch", "interactive", "twin", "twin_first"):
        if k in kw:
            case[k] = kw.pop(k)
    assert not kw
    return case


def S(kind, excl=None, **kw):
    return dict({"name": kw.pop("name", kind), "kind": kind, "excl_code": excl}, **kw)


def A(name, when="collect_metrics", flt=None, add=(), exc=(), agg="len", mod=1, rem=0, **kw):
    return dict({"name": name, "type": "add", "when": when, "filter": flt, "add": list(add), "exc": list(exc), "agg": agg,
                 "mod": mod, "rem": rem}, **kw)


def Cc(name, when="collect_metrics", flt=None, cols=("y",), mod=1, rem=0, **kw):
    return dict({"name": name, "type": "cat", "when": when, "filter": flt, "cols": list(cols), "mod": mod, "rem": rem}, **kw)


def boundary_cases():
    out = []
    every_phase = lambda add, **kw: [A(f"n{k}", when=ph, add=add, **kw) for k, ph in enumerate(PH)]   # noqa: E731
    # F13: populations / events of exactly one simulant with a binned stratification (column and pipeline target)
    out.append(mk(1, 2, [S("xb")], every_phase(["xb"])))
    out.append(mk(1, 2, [S("pvb")], every_phase(["pvb"], agg="sumy")))
    out.append(mk(1, 3, [S("xb"), S("g")], [A("n", add=["xb", "g"]), Cc("c", cols=["x"])], traj={"p_change": 0.5}))
    # one survivor: two simulants, one untracked early -> still two in the event, one eligible; and a lone newborn
    out.append(mk(0, 3, [S("xb"), S("h2")], every_phase(["xb", "h2"]) + [Cc("c", when="time_step", flt=[])],
                  traj={"p_birth": 1.0, "max_births": 1}, tseed=3))
    out.append(mk(2, 3, [S("xb")], [A("n", add=["xb"]), A("m", add=["xb"], flt=[])], traj={"p_untrack": 0.5}, tseed=4))
    # population of zero for the whole run
    out.append(mk(0, 2, [S("g")], [A("n", add=["g"]), Cc("c")]))
    # nothing stratified, nothing registered but observations
    out.append(mk(3, 2, [], [A("tot"), A("sx", agg="sumx", flt=[]), Cc("c", cols=["y", "x", "pv"], flt=[])], traj={"p_untrack": 0.3}))
    # single stratification with categories nobody is in (zero rows must be reported, values must stay numbers)
    out.append(mk(2, 3, [S("pvs")], [A("n", add=["pvs"]), A("s", add=["pvs"], agg="sumpv", when="time_step")]))
    out.append(mk(2, 3, [S("gy")], [A("n", add=["gy"], agg="count"), A("s", add=["gy"], agg="sumy_nosrc")], traj={"p_change": 0.3}))
    # several events with non-zero increments (running sum), to_observe on some events only
    out.append(mk(5, 4, [S("g"), S("h2")], [A("n", add=["g", "h2"]), A("e", add=["g"], mod=2, rem=0, when="time_step__prepare"),
                                             A("o", add=["h2"], mod=2, rem=1, agg="sumx", when="time_step__cleanup")],
                  traj={"p_change": 0.4, "p_birth": 0.5, "max_births": 2}))
    # exclusions: code, configuration, code overriding configuration (also with an empty list), default + excluded stratifications
    out.append(mk(6, 2, [S("g", ["c"]), S("h2")], [A("n", add=["g", "h2"]), A("m", add=["h2"])], traj={"p_change": 0.5}))
    out.append(mk(6, 2, [S("g"), S("xb")], [A("n", add=["g", "xb"])], cfg_excl={"g": ["a", "b"], "xb": ["mid"]}, traj={"p_change": 0.5}))
    out.append(mk(6, 2, [S("g", []), S("hp", ["uo"])], [A("n"), A("m", exc=["g"]), A("k", exc=["g", "hp"], via="observer")],
                  cfg_default=["g", "hp"], cfg_excl={"g": ["a"], "hp": ["ue"]}, traj={"p_change": 0.5}))
    # everybody untracked: default filter leaves nobody; explicit empty filter counts them all
    out.append(mk(4, 2, [S("g")], [A("n", add=["g"]), A("all", add=["g"], flt=[]), Cc("c"), Cc("call", flt=[])], traj={"p_untrack": 1.0}))
    # unknown categories: by column value, by bin overflow (NaN), by a category missing from the declaration, in an unused stratification
    for col in ("g", "h", "x"):
        out.append(mk(3, 3, [S("g"), S("h2"), S("xb")], [A("n", add=["g", "h2", "xb"]), A("p", when="time_step__prepare")],
                      unknown={"step": 1, "phase": 2, "col": col, "who": 1}))
    out.append(mk(6, 3, [S("g", cats=["a", "b"])], [A("n", add=["g"])], traj={"p_change": 0.5}, tseed=7))
    out.append(mk(3, 2, [S("g"), S("gy")], [A("n", add=["g"], flt=[["tracked", "==", False]])],
                  unknown={"step": 0, "phase": 3, "col": "g", "who": 0}))
    # programs that must be refused at setup
    out.append(mk(2, 1, [S("g"), S("g")], [A("n")]))
    out.append(mk(2, 1, [S("g", cats=["a", "b", "a", "c"])], [A("n")]))
    out.append(mk(2, 1, [S("g", ["nope"])], [A("n")]))
    out.append(mk(2, 1, [S("g")], [A("n")], cfg_excl={"g": ["nope"]}))
    out.append(mk(2, 1, [S("h2", ["U", "V"])], [A("n")]))
    out.append(mk(2, 1, [S("xb", cats=["lo", "hi"])], [A("n")]))
    out.append(mk(2, 1, [S("g")], [A("n"), A("n", when="time_step")]))
    out.append(mk(2, 1, [S("g")], [A("n", add=["nostrat"])]))
    # one phase, several observation groups over the same per-event frame, the first one unfiltered (pop_filter="") and
    # stratified by a stratification with an excluded category: later groups must still see the simulants it dropped
    for ph in PH:
        out.append(mk(8, 3, [S("g", ["b"]), S("h2")],
                      [A("everyone_by_g", when=ph, flt=[], add=["g"]), A("tracked_by_h", when=ph, add=["h2"]),
                       A("tracked_total", when=ph, agg="sumy"), Cc("rows", when=ph, cols=["y"])],
                      traj={"p_change": 0.3, "p_untrack": 0.15}, tseed=11))
    out.append(mk(8, 3, [S("g"), S("xb")],
                  [A("everyone_by_g", flt=[], add=["g"]), A("all_by_xb", flt=[], add=["xb"], agg="sumx"), Cc("all_rows", flt=[], cols=["x"]),
                   A("some", flt=[["y", ">=", 1]])],
                  cfg_excl={"g": ["a", "c"]}, traj={"p_change": 0.3, "p_untrack": 0.2, "p_birth": 0.4, "max_births": 1}, tseed=12))
    out.append(mk(6, 3, [S("g", ["a"]), S("hp", ["uo"])],
                  [A("by_both", when="time_step", flt=[], exc=[]), A("by_hp", when="time_step", flt=[], exc=["g"]),
                   A("by_g", when="time_step", flt=[], exc=["hp"]), A("nobody_by", when="time_step", flt=[], exc=["g", "hp"], via="observer")],
                  cfg_default=["g", "hp"], traj={"p_change": 0.4}, tseed=13))
    out.append(mk(6, 2, [S("pvs", ["p1"]), S("g")],
                  [Cc("rows_first", flt=[], cols=["pv"]), A("everyone_by_pvs", flt=[], add=["pvs"]), A("by_g", add=["g"]), Cc("rows_last", flt=[], cols=["pv"])],
                  order=[["s", 0], ["s", 1], ["o", 0], ["o", 1], ["o", 2], ["o", 3]], traj={"p_change": 0.3}, tseed=14))
    # mappers whose (correct, id-indexed) output is not in the population's row order: values belong to simulants by LABEL.
    # A plain count over one stratification still adds up under a positional mix-up; an aggregate over a column, an excluded
    # category, a filter that removes simulants or a second stratification do not
    for kind, ex in (("gcat", ["B"]), ("ysort", ["y1"]), ("hrev", ["rv"]), ("xfr", ["large"])):
        out.append(mk(8, 3, [S(kind), S("g")],
                      [A("cnt", add=[kind]), A("sx", add=[kind], agg="sumx", flt=[]), A("tracked_y", add=[kind], agg="sumy"),
                       A("cross", add=[kind, "g"], flt=[["y", ">=", 2]]), Cc("rows", cols=["y"])],
                      traj={"p_change": 0.3, "p_untrack": 0.2, "p_birth": 0.4, "max_births": 1}, tseed=21))
        out.append(mk(7, 2, [S(kind, ex)], [A("cnt", add=[kind]), A("sy", add=[kind], agg="sumy_nosrc", when="time_step")],
                      traj={"p_change": 0.4, "p_untrack": 0.3}, tseed=22))
    out.append(mk(9, 2, [S("gcat"), S("ysort"), S("hrev"), S("xfr")],
                  [A("all4", add=["gcat", "ysort", "hrev", "xfr"]), A("two", add=["ysort", "xfr"], agg="sumpv", flt=[])],
                  traj={"p_change": 0.5}, tseed=23))
    # ---- lessons 12-13: state that must not be shared or remembered
    # groups with byte-identical filters / the same filter in other whitespace, different stratification sets, exclusions from
    # code and configuration, every registration order of the three adding groups; population changes between the phases
    import itertools as _it
    trio = [A("by_g", flt=[["y", ">=", 1]], add=["g"]), A("by_h", flt=[["y", ">=", 1]], add=["h2"], ws=1),
            A("plain", flt=[["y", ">=", 1]], agg="sumy", ws=2)]
    for perm in _it.permutations(range(3)):
        out.append(mk(8, 2, [S("g", ["b"]), S("h2")], [dict(trio[i]) for i in perm] + [Cc("rows", flt=[["y", ">=", 1]], cols=["y"])],
                      cfg_excl={"h2": ["V"]}, traj={"p_change": 0.4, "p_untrack": 0.2, "p_retrack": 0.5}, tseed=41, reread=True))
    # the same filter string in two phases and at every event while simulants change, get untracked and tracked again
    out.append(mk(6, 4, [S("g"), S("gy", ["a1"])],
                  [A("ts", when="time_step", add=["g"]), A("cm", add=["g"]), A("ts2", when="time_step", add=["gy"], agg="sumx"),
                   A("cm2", add=["gy"], agg="sumx"), Cc("rows_ts", when="time_step"), Cc("rows_cm")],
                  traj={"p_change": 0.5, "p_untrack": 0.4, "p_retrack": 0.6}, tseed=42, reread=True))
    # ONE aggregator / to_observe / formatter / mapper object for several registrations with different filters and strata;
    # two stratifications over one mapper with different exclusions; representation of the callables' results varies
    for het in (False, True):
        out.append(mk(7, 3, [S("g"), S("g", ["a"], name="g2"), S("gcat"), S("gcat", ["C"], name="gcat2"), S("h2")],
                      [A("a1", add=["g"], agg="sumy", mod=2, rem=0, fmt="measure"), A("a2", add=["g2"], agg="sumy", flt=[], mod=2, rem=0, fmt="measure"),
                       A("a3", add=["gcat"], agg="sumy", flt=[["x", "<", 5.0]]), A("a4", add=["gcat2", "h2"], agg="sumy", flt=[["x", "<", 5.0]], ws=1),
                       A("c1", agg="count", flt=[]), A("c2", agg="count"), A("c3", agg="count", add=["h2"], when="time_step")],
                      traj={"p_change": 0.4, "p_untrack": 0.2}, tseed=43, share=True, callobj=het, hetero=het, reread=True))
    # exact repeats: nothing changes during steps 1 and 2 (identical populations must be counted again, every time), then it does
    out.append(mk(5, 5, [S("g"), S("xb")], [A("n", add=["g"]), A("sx", add=["xb"], agg="sumx", flt=[]), A("e", when="time_step", mod=2, rem=0),
                                            Cc("rows", cols=["x"])],
                  traj={"p_change": 0.5, "p_untrack": 0.2, "p_retrack": 0.5, "freeze": [1, 2]}, tseed=44, reread=True))
    out.append(mk(4, 4, [S("g")], [A("n", add=["g"]), A("m", add=["g"]), A("k"), A("l")], traj={"freeze": [1, 2, 3]}, tseed=45, reread=True))
    # ---- audit against notes/LESSONS.md
    # several value pipelines required at once (stratifications, filter, aggregator and included columns all through
    # requires_values; one pipeline has a modifier and returns its values in reversed row order, one comes from another component)
    out.append(mk(7, 3, [S("pq"), S("zw", ["z1w2"]), S("pwb"), S("pvb")],
                  [A("by_pq", add=["pq"], agg="sumpw", flt=[["pz", "==", 0.0], ["tracked", "==", True]]),
                   A("by_zw", add=["zw", "pwb"], agg="sumpv", flt=[["pw", ">=", 2.0]], when="time_step"),
                   A("by_bins", add=["pvb", "pwb"], flt=[]), Cc("rows", cols=["pv", "pw", "y"], flt=[["pv", "<", 3.0], ["pw", "!=", 2.0]])],
                  traj={"p_change": 0.4, "p_untrack": 0.2, "p_birth": 0.4, "max_births": 1}, tseed=31))
    # every interface method: adding / stratified (own updater) / concatenating / unstratified (own gatherer + updater),
    # every formatter, an aggregator returning a Series, callables given as objects
    for objs in (False, True):
        out.append(mk(6, 3, [S("g", ["c"]), S("h2")],
                      [A("adding", add=["g"], fmt="inplace2"), A("stratified", add=["g", "h2"], agg="sumy", method="stratified"),
                       A("strat_fmt", add=["h2"], method="stratified", fmt="measure", flt=[]), A("ident", add=["g"], fmt="identity", agg="sumx"),
                       A("multi", add=["g"], agg="multi", mod=2, rem=0), A("multi_all", agg="multi", method="stratified", fmt="inplace2"),
                       Cc("concat", cols=["y", "pw"], fmt="measure"), Cc("unstrat", cols=["x"], method="unstratified", flt=[]),
                       Cc("unstrat_fmt", cols=[], method="unstratified", fmt="identity", mod=2, rem=1)],
                      traj={"p_change": 0.4, "p_untrack": 0.2}, tseed=32, callobj=objs))
    # required callables missing / the same name under another kind of observation: refused
    out.append(mk(2, 1, [S("g")], [A("n", method="stratified", nocb=True)]))
    out.append(mk(2, 1, [S("g")], [Cc("c", method="unstratified", nocb=True)]))
    out.append(mk(2, 1, [S("g")], [A("n", add=["g"]), Cc("n", when="time_step")]))
    out.append(mk(2, 1, [S("g")], [Cc("n"), A("n", method="stratified", when="time_step__prepare", via="observer")]))
    # DateTimeClock; per-simulant clocks: the even simulants step two days at a time, so every other event has an
    # event.index smaller than the population (with births, untracking, an unfiltered observation and a concatenating one)
    out.append(mk(5, 4, [S("g"), S("xb")], [A("n", add=["g"]), A("sx", add=["xb"], agg="sumx", flt=[], mod=2, rem=0), Cc("rows", cols=["x"])],
                  clock="datetime", traj={"p_change": 0.3, "p_untrack": 0.2}, tseed=33))
    for slow in ({"mod": 2, "rem": 0, "days": 2}, {"mod": 3, "rem": 1, "days": 3}, {"mod": 1, "rem": 0, "days": 2}):
        out.append(mk(6, 5, [S("g"), S("pvs")],
                      [A("n", add=["g"]), A("everyone", add=["pvs"], flt=[], agg="sumy"), A("prep", when="time_step__prepare", agg="multi"),
                       Cc("rows", cols=["y", "pv"], flt=[])],
                      clock="datetime", slow=slow, traj={"p_change": 0.3, "p_untrack": 0.15, "p_birth": 0.4, "max_births": 1}, tseed=34))
    # earlier simulations in the same process with OTHER default stratifications (and observations relying on the default
    # arguments of the interface): this simulation's observations must be stratified by its own defaults only
    prior1 = mk(3, 1, [S("gy"), S("h2")], [A("p", agg="sumy"), A("q", when="time_step")], cfg_default=["gy", "h2"])
    prior2 = mk(2, 1, [S("g", ["a"])], [A("p")], cfg_default=["g"], cfg_excl={"g": ["b"]})
    out.append(mk(5, 2, [S("g"), S("xb")], [A("plain"), A("by_xb", add=["xb"]), A("strat", method="stratified", agg="sumx"), Cc("rows")],
                  prior=[prior1], traj={"p_change": 0.3}, tseed=35))
    out.append(mk(5, 2, [S("g"), S("h2")], [A("plain", flt=[]), A("by_default", exc=[]), A("none", exc=["h2"], via="observer")],
                  cfg_default=["h2"], prior=[prior2, prior1], traj={"p_change": 0.3}, tseed=36))
    # no observation at all (stratifications are still evaluated: an unknown category stops the run); a birth event of nobody
    out.append(mk(3, 2, [S("g"), S("cdef", ["c2"])], [], traj={"p_change": 0.3, "zero_births": True}))
    out.append(mk(3, 2, [S("g")], [], unknown={"step": 0, "phase": 1, "col": "g", "who": 0}))
    # categorical-dtype column behind a default mapper; bin edges given as ints / tuple / ndarray
    out.append(mk(6, 3, [S("cdef", ["c3"]), S("xb", edges_as="int"), S("pvb", edges_as="ndarray"), S("pwb", edges_as="tuple")],
                  [A("by_c", add=["cdef"], flt=[["c", "!=", "c2"]]), A("bins", add=["xb", "pvb", "pwb"], flt=[]), A("cx", add=["cdef", "xb"], agg="multi")],
                  traj={"p_change": 0.4, "zero_births": True, "p_birth": 0.3, "max_births": 1}, tseed=37))
    # registration order: observations before stratifications, columns in a different order than the sorted names
    out.append(mk(5, 2, [S("xb"), S("g"), S("h2")], [A("n", add=["h2", "xb", "g"], agg="sumx")],
                  order=[["o", 0], ["s", 2], ["s", 0], ["s", 1]], traj={"p_change": 0.5}))
    out += fault_cases()
    return out


def fault_cases():
    """Lesson 16: user callables of every kind the results system calls raise on purpose at a chosen event; the caller (an
    InteractiveContext user around `step()`) catches the exception, reads the results, calls `step()` again, finishes
    the run.  A failure in collect_metrics lets the step be run again (all four phases are emitted again for the same
    clock time); a failure in an earlier phase makes the life cycle refuse every further step (a refusal, C06)."""
    out = []
    pf = ["pf", "<", 2.0]

    def program(ph, other):
        strats = [S("gy", ["a1"]), S("h2")]
        obs = [A("first", when=ph, add=["gy"]),
               A("filt", when=ph, flt=[["tracked", "==", True], pf], agg="sumy"),
               A("second", when=ph, add=["gy"], agg="sumx"),                       # the group of `first`
               A("strat", when=ph, add=["h2"], method="stratified", agg="count", mod=2, rem=0),
               Cc("rows", when=ph, cols=["y"]),
               Cc("unstrat", when=ph, cols=["x"], method="unstratified", flt=[]),
               A("late", when=ph, add=["gy", "h2"], flt=[], agg="multi"),
               A("other", when=other, add=["h2"]), Cc("other_rows", when=other, flt=[])]
        return strats, obs
    TR = {"p_change": 0.3, "p_untrack": 0.05, "p_retrack": 0.4, "p_birth": 0.3, "max_births": 1}
    kinds = [("agg", "second"), ("to_observe", "strat"), ("updater", "strat"), ("gatherer", "unstrat"), ("updater", "unstrat"),
             ("filter", None), ("unknown", "g+raises"), ("unknown", "h"), ("pipe", "pf"), ("to_observe", "rows"), ("agg", "late"),
             ("agg", "first")]
    # collect_metrics: the step can be run again; first / middle / last step
    for i, (kind, tgt) in enumerate(kinds):
        step = (0, 1, 2)[i % 3]
        st, ob = program("collect_metrics", "time_step")
        if kind == "unknown":
            # a mapper fails through the data (gy raises a KeyError for g == "zz", h2 returns the unknown category "W"); the
            # value is gone when the step is run again
            out.append(mk(5, 3, st, ob, traj=TR, tseed=60 + i, interactive=True, catch={"max": 2}, reread=i % 2 == 0,
                          unknown={"step": step, "phase": 3, "col": tgt[0], "who": 1, "transient": True, "raises": tgt.endswith("raises")}))
            continue
        out.append(mk(5, 3, st, ob, traj=TR, tseed=60 + i, interactive=i % 4 != 3, catch={"max": 2}, reread=i % 2 == 0,
                      faults=[{"kind": kind, "target": tgt, "step": step, "phase": 3, "times": 1, "exc": [None, "key", "zero", "value"][i % 4]}]))
    # the three earlier phases: observed there, failing there - the retry is refused, the results stay readable
    for k, (kind, tgt) in zip((0, 1, 2, 0, 1, 2), [("agg", "second"), ("filter", None), ("unknown", "g"), ("pipe", "pf"), ("updater", "strat"), ("to_observe", "rows")]):
        st, ob = program(PH[k], "collect_metrics")
        if kind == "unknown":
            out.append(mk(4, 3, st, ob, traj=TR, tseed=80 + k, interactive=True, catch={"max": 2},
                          unknown={"step": 1, "phase": k, "col": "g", "who": 0, "transient": True, "raises": True}))
            continue
        out.append(mk(4, 3, st, ob, traj=TR, tseed=80 + k, interactive=True, catch={"max": 2},
                      faults=[{"kind": kind, "target": tgt, "step": 1, "phase": k, "times": 1}]))
    # the retry fails as well, the one after it succeeds; the caller gives up after the second failure; never goes away
    st, ob = program("collect_metrics", "time_step__cleanup")
    out.append(mk(5, 3, st, ob, traj=TR, tseed=90, interactive=True, catch={"max": 3}, faults=[{"kind": "agg", "target": "late", "step": 1, "phase": 3, "times": 2}]))
    out.append(mk(5, 3, st, ob, traj=TR, tseed=91, interactive=True, catch={"max": 1}, faults=[{"kind": "filter", "target": None, "step": 2, "phase": 3, "times": 2}]))
    out.append(mk(5, 2, st, ob, traj=TR, tseed=92, catch={"max": 2}, unknown={"step": 0, "phase": 3, "col": "h", "who": 2, "raises": True}))
    # two failing callables in one event (the one reached first decides), failures in two different steps
    out.append(mk(5, 3, st, ob, traj=TR, tseed=93, interactive=True, catch={"max": 3},
                  faults=[{"kind": "agg", "target": "late", "step": 1, "phase": 3, "times": 1}, {"kind": "filter", "target": None, "step": 1, "phase": 3, "times": 2}]))
    out.append(mk(5, 4, st, ob, traj=TR, tseed=94, interactive=True, catch={"max": 3},
                  faults=[{"kind": "to_observe", "target": "first", "step": 0, "phase": 3, "times": 1}, {"kind": "updater", "target": "unstrat", "step": 3, "phase": 3, "times": 1}]))
    # a fault that is live but never called: nobody in the event (only a required pipeline is evaluated for an empty
    # event), to_observe says no, filtered population empty
    out.append(mk(0, 2, st, ob, tseed=95, interactive=True, catch={"max": 2}, faults=[{"kind": "agg", "target": "first", "step": 0, "phase": 3, "times": 1}]))
    out.append(mk(0, 2, st, ob, tseed=96, interactive=True, catch={"max": 2}, faults=[{"kind": "pipe", "target": "pf", "step": 1, "phase": 3, "times": 1}]))
    out.append(mk(4, 3, st, ob, traj=TR, tseed=97, interactive=True, catch={"max": 2}, faults=[{"kind": "updater", "target": "strat", "step": 1, "phase": 3, "times": 1}]))
    out.append(mk(3, 2, st, ob, traj={"p_untrack": 1.0}, tseed=98, interactive=True, catch={"max": 2},
                  faults=[{"kind": "agg", "target": "second", "step": 1, "phase": 3, "times": 1}, {"kind": "to_observe", "target": "unstrat", "step": 1, "phase": 3, "times": 1}]))
    # an unknown category in the DATA (it does not go away): caught, every retry fails again, the time_step phases are
    # emitted - and counted - once per attempt
    out.append(mk(4, 3, [S("g"), S("h2")], [A("n", add=["g"]), A("ts", when="time_step", add=["h2"]), Cc("rows", when="time_step__prepare")],
                  unknown={"step": 1, "phase": 3, "col": "g", "who": 1}, catch={"max": 2}, interactive=True, tseed=99))
    # two simulations alive in one process, stepping through the same clock times: the gathering fails in one of them
    # (then in the other, then in both); neither may notice the other
    twin_prog = lambda ph: mk(3, 3, [S("g"), S("hrev")], [A("n", when=ph, add=["g"]), A("m", when=ph, add=["hrev"], agg="sumy", flt=[]),     # noqa: E731
                                                          A("ts", when="time_step"), Cc("rows", when=ph)], traj={"p_change": 0.3}, tseed=71)
    st, ob = program("collect_metrics", "time_step")
    f_main = [{"kind": "agg", "target": "second", "step": 1, "phase": 3, "times": 1}]
    f_twin = [{"kind": "agg", "target": "m", "step": 1, "phase": 3, "times": 1}]
    out.append(mk(4, 3, st, ob, traj=TR, tseed=72, interactive=True, catch={"max": 2}, faults=f_main, twin=twin_prog("collect_metrics")))
    out.append(mk(4, 3, st, ob, traj=TR, tseed=73, interactive=True, twin=dict(twin_prog("collect_metrics"), faults=f_twin, catch={"max": 2}, interactive=True),
                  twin_first=True))
    out.append(mk(4, 3, st, ob, traj=TR, tseed=74, catch={"max": 2}, unknown={"step": 0, "phase": 3, "col": "g", "who": 3, "transient": True},
                  twin=dict(twin_prog("time_step"), faults=[dict(f_twin[0], phase=1, step=2)], catch={"max": 2})))
    return out


def shrink_case(case):
    """smaller variants: fewer observations / stratifications / steps / simulants, calmer trajectory"""
    import copy
    if len(case["obs"]) > 1:
        for i in range(len(case["obs"])):
            c = copy.deepcopy(case)
            del c["obs"][i]
            c["order"] = [[k, j - (1 if k == "o" and j > i else 0)] for k, j in c["order"] if not (k == "o" and j == i)]
            yield c
    for i, s in enumerate(case["strats"]):
        used = any(s["name"] in o.get("add", []) for o in case["obs"]) or s["name"] in (case["cfg_default"] or [])
        if not used and sum(1 for t in case["strats"] if t["name"] == s["name"]) == 1:
            c = copy.deepcopy(case)
            del c["strats"][i]
            c["order"] = [[k, j - (1 if k == "s" and j > i else 0)] for k, j in c["order"] if not (k == "s" and j == i)]
            yield c
    for i, o in enumerate(case["obs"]):
        for key in ("add", "exc"):
            for n in o.get(key, []):
                c = copy.deepcopy(case)
                c["obs"][i][key].remove(n)
                yield c
        if o["filter"]:
            c = copy.deepcopy(case)
            c["obs"][i]["filter"] = []
            yield c
        if o["mod"] > 1:
            c = copy.deepcopy(case)
            c["obs"][i]["mod"], c["obs"][i]["rem"] = 1, 0
            yield c
        if o.get("via"):
            c = copy.deepcopy(case)
            del c["obs"][i]["via"]
            yield c
    if case["cfg_default"]:
        for n in case["cfg_default"]:
            c = copy.deepcopy(case)
            c["cfg_default"].remove(n)
            yield c
    if case["steps"] > 1:
        yield dict(copy.deepcopy(case), steps=case["steps"] - 1)
    if case["pop"] > 0:
        yield dict(copy.deepcopy(case), pop=case["pop"] - 1)
        if case["pop"] > 2:
            yield dict(copy.deepcopy(case), pop=case["pop"] // 2)
    for key in ("p_birth", "p_change", "p_untrack"):
        if case["traj"][key] > 0:
            c = copy.deepcopy(case)
            c["traj"][key] = 0.0
            yield c
    if case.get("unknown"):
        yield dict(copy.deepcopy(case), unknown=None)
    if case.get("prior"):
        c = copy.deepcopy(case)
        c["prior"] = c["prior"][:-1]
        yield c
    for i in range(len(case.get("faults") or [])):
        c = copy.deepcopy(case)
        del c["faults"][i]
        yield c
        if case["faults"][i].get("times", 1) > 1 or case["faults"][i].get("exc"):
            c = copy.deepcopy(case)
            c["faults"][i]["times"] = 1
            c["faults"][i].pop("exc", None)
            yield c
    if case.get("twin"):
        c = copy.deepcopy(case)
        del c["twin"]
        c.pop("twin_first", None)
        yield c
        for t in itertools.islice(shrink_case(case["twin"]), 30):
            yield dict(copy.deepcopy(case), twin=t)
    if case.get("catch") and not case.get("faults"):
        c = copy.deepcopy(case)
        del c["catch"]
        yield c
    for k in ("callobj", "slow", "clock", "share", "hetero", "reread", "interactive", "twin_first"):
        if case.get(k) and not (k == "clock" and case.get("slow")):
            c = copy.deepcopy(case)
            del c[k]
            yield c
    for i, o in enumerate(case["obs"]):
        for k in ("fmt", "method"):
            if o.get(k) and not o.get("nocb"):
                c = copy.deepcopy(case)
                del c["obs"][i][k]
                yield c
    for name in list(case["cfg_excl"] or {}):
        c = copy.deepcopy(case)
        del c["cfg_excl"][name]
        yield c
    for i, s in enumerate(case["strats"]):
        if s.get("excl_code"):
            c = copy.deepcopy(case)
            c["strats"][i]["excl_code"] = None
            yield c


PROP = C16()
