"""C17 — state machines move each simulant along its own declared transition.

Tie: correspondence. A real `Machine` (probe `State` / `TransientState` subclasses that log every entry through
`transition_side_effect`, `Transition`s whose probability functions look per-simulant sixteenths up in the case,
triggered transitions driven through `set_active` / `set_inactive`) runs inside a real simulation; in `on_time_step`
the harness resets the state column to the scene's assignment, asks every transition set's stream for the draws it
produces at that clock time (`transition_set.random.get_draw(index)` – the call `choose_new_state` → `random.choice`
makes, additional key `None`), calls `Machine.transition(index, event.time)` and snapshots the whole state table.
The same operations go to `Driver/C17.lean` (exact integers: weights over 16, draws over 2^53); compared are the
outcome class, the new state of every simulant, every other column, and the per-simulant entry path.

Inputs are not normalised (notes/LESSONS.md): probability functions return float / named / DataFrame-cut / integer Series, ndarray,
list, tuple, the default, re-ordered Series; they are functions, callable objects, partials, bound methods; the machine is built
through every API form; half of the scenes contain untracked simulants; the index is explicit labels, event.index or a RangeIndex;
the listener runs in any of the four step phases; Machine.cleanup is observed (cleanup_effect exactly once per tracked member);
a second machine may share the table.

A second, EXACT stream ("kind": "rows") calls the real `TransitionSet._normalize_probabilities` and
`randomness.stream._choice` directly on dyadic weight matrices whose normalisation is exact in IEEE arithmetic, with
draws placed exactly ON, one ulp-of-the-grid below and above every cumulative bin edge and at 0.0 (stream draws never
hit an edge); decisions are compared strictly. This is where the known finding F9 (`choice-draw0-leading-zero-weight`)
is reproduced on every run.

Oracle (independent of the Lean model): every transitioned simulant ends in one state reachable by declared
transitions of positive probability (through transients) or stays where staying is allowed; nobody is moved twice;
outsiders and other columns are untouched (also on rejected calls); probability-0 (incl. inactive triggered)
transitions are never taken, a sole probability-1 transition always is; a simulant's outcome is the same alone,
in a permuted index and in any other company; un-normalisable weights are rejected and nothing else is.
"""
from __future__ import annotations

import json
import os
import random

from .. import impl, paths
from ..runner import Prop

WD = 16
DD = 2 ** 53
NOT, INACTIVE, ACTIVE = 0, 1, 2          # Trigger.NOT_TRIGGERED / START_INACTIVE / START_ACTIVE


# ------------------------------------------------------------------------------------------ spec helpers
class Spec:
    """Read-only view of a case: transitions by source state, active sets per scene (API semantics:
    both triggered kinds start with an empty active index; set_active = union, set_inactive = difference)."""

    def __init__(self, case):
        self.case = case
        self.n = case["n"]
        self.states = case["states"]
        self.ns = len(self.states)
        self.trans = case["trans"]
        self.by_from = {s: [] for s in range(self.ns)}
        self.pos = {}
        for tid, t in enumerate(self.trans):
            a = t[0]
            self.pos[tid] = len(self.by_from[a])
            self.by_from[a].append(tid)
        self.self_ok = [bool(s[1]) for s in self.states]
        self.transient = [bool(s[2]) for s in self.states]

    def scenes(self):
        """yield (step number, scene number, scene, active sets valid during the scene)"""
        active = {tid: set() for tid, t in enumerate(self.trans) if t[2] != NOT}
        for k, step in enumerate(self.case["steps"]):
            for j, sc in enumerate(step):
                for tid, onoff, sims in sc["trig"]:
                    if tid in active:
                        active[tid] = (active[tid] | set(sims)) if onoff == "on" else (active[tid] - set(sims))
                yield k, j, sc, {t: set(a) for t, a in active.items()}

    def p(self, active, tid, i):
        if tid in active and i not in active[tid]:
            return 0
        return self.trans[tid][3][i]

    def row(self, active, s, i):
        return [self.p(active, tid, i) for tid in self.by_from[s]]

    def bad_row(self, active, s, i):
        """why simulant i's weights in state s cannot be normalised (None = they can)"""
        if s >= self.ns or not self.by_from[s]:
            return None
        r = self.row(active, s, i)
        ones = sum(1 for x in r if x == WD)
        if ones > 1:
            return "two-ones"
        if self.self_ok[s]:
            return "total-gt-one" if ones == 0 and sum(r) > WD else None
        return "total-zero" if sum(r) == 0 else None

    def sole_one(self, active, s, i):
        """the transition that is simulant i's sole probability-1 transition out of s (others 0), else None"""
        if s >= self.ns:
            return None
        r = self.row(active, s, i)
        if r.count(WD) == 1 and sum(r) == WD:
            return self.by_from[s][r.index(WD)]
        return None

    def closure(self, active, s, i):
        """states in which simulant i may be processed when it starts as an s (s, then transients entered with
        positive probability); second component: a transient cycle is reachable"""
        seen, stack, cyc = [], [(s, (s,))], False
        while stack:
            u, path = stack.pop()
            if u not in seen:
                seen.append(u)
            if u >= self.ns:
                continue
            for tid in self.by_from[u]:
                v = self.trans[tid][1]
                if self.p(active, tid, i) > 0 and self.transient[v]:
                    if v in path[1:] or (v == path[0] and self.transient[path[0]]):
                        cyc = True
                    elif len(path) <= self.ns + 1:
                        stack.append((v, path + (v,)))
        return seen, cyc

    def stops(self, active, s, i, depth=0):
        """states simulant i may end in when processed as an s"""
        if s >= self.ns or not self.by_from[s]:
            return {s}
        so = self.sole_one(active, s, i)
        res = set()
        if self.self_ok[s] and so is None:
            res.add(s)
        for tid in self.by_from[s]:
            if self.p(active, tid, i) > 0 and (so is None or so == tid):
                v = self.trans[tid][1]
                if self.transient[v]:
                    if depth <= self.ns:
                        res |= self.stops(active, v, i, depth + 1)
                else:
                    res.add(v)
        return res


def as_list(case, idx):
    """the labels a call is about ("event" = the index of the emitted event = every simulant, tracked or not)"""
    return list(range(case["n"])) if idx == "event" else list(idx)


def sname(case, k):
    return case["states"][k][0] if k < len(case["states"]) else "outside"


# ------------------------------------------------------------------------------------------ finding classes
# Finding F30 (found by this check's lessons audit, repaired in /repo by 7d0385f3, status "fixed" in known_findings.json with
# `signatures_when_reverted`): two input classes on which `choose_new_state` used to break the property. They are generated on
# every run and compared like everything else (the model: labelled Series aligned by label, unlabelled containers positional,
# integer dtype fine); every oracle failure of a call that meets such a transition set is reported under the finding's signature,
# so the reverted fix (mutants/C17/break-F30-reverted.patch) is caught with exactly these. (Should an entry ever be set back to
# "open", the oracle failure prints as KNOWN-FINDING and the model is not consulted for these cases; no entry at all: not generated.)
SIG_ORDER = "probability-series-order-ignored"     # non-triggered transition: the Series a probability function returns is
#                                                    consumed positionally (np.array(...)), whatever its index says
SIG_INT = "probability-int-dtype-crash"            # every transition of a set non-triggered and integer dtype: the in-place
#                                                    `/=` of _normalize_probabilities raises UFuncTypeError
PERM_KINDS = ("series_rev", "series_sorted")
SAFE_KINDS = ("series", "ndarray", "list", "tuple", "framecol", "series_named")


def finding_status(sig):
    if os.environ.get("C17_FORCE_FINDING_CLASSES"):
        return os.environ["C17_FORCE_FINDING_CLASSES"]
    try:
        for k in json.loads((paths.VERIF / "known_findings.json").read_text())["findings"]:
            if k.get("signature") == sig or sig in k.get("signatures", []) or sig in k.get("signatures_when_reverted", []):
                return k.get("status", "open")
    except Exception:  # noqa: BLE001
        pass
    return None


def tkind(t):
    return t[4] if len(t) > 4 else "series"


def tkinds(t):
    """the kinds a transition's probability function cycles through, one per evaluation ("a|b|c")"""
    return tkind(t).split("|")


def risky_sets(case):
    """(states whose transition set holds a non-triggered transition returning a re-ordered Series,
        states whose transition set is all non-triggered integer dtype)"""
    spec = Spec(case)
    perm = {a for a in range(spec.ns)
            if any(spec.trans[t][2] == NOT and set(tkinds(spec.trans[t])) & set(PERM_KINDS) for t in spec.by_from[a])}
    ints = {a for a in range(spec.ns) if spec.by_from[a]
            and all(spec.trans[t][2] == NOT and "series_int" in tkinds(spec.trans[t]) for t in spec.by_from[a])}
    return perm, ints


# ------------------------------------------------------------------------------------------ implementation
PHASES = {"time_step__prepare": "on_time_step_prepare", "time_step": "on_time_step",
          "time_step__cleanup": "on_time_step_cleanup", "collect_metrics": "on_collect_metrics"}


def _run(case):
    impl.load()
    import functools

    import numpy as np
    import pandas as pd
    from vivarium import Component
    from vivarium.framework.engine import SimulationContext
    from vivarium.framework.state_machine import Machine, State, Transition, TransientState, Trigger

    n = case["n"]
    names = [s[0] for s in case["states"]]
    code = {nm: k for k, nm in enumerate(names)}
    build = case.get("build", {})
    LOG, CLEAN = [], []
    out = {"error": None, "steps": []}

    class PState(State):
        def transition_side_effect(self, index, event_time):
            LOG.append([code[self.state_id], [int(i) for i in index]])

        def cleanup_effect(self, index, event_time):
            CLEAN.append([code[self.state_id], [int(i) for i in index]])

    class PTransient(TransientState):
        def transition_side_effect(self, index, event_time):
            LOG.append([code[self.state_id], [int(i) for i in index]])

        def cleanup_effect(self, index, event_time):
            CLEAN.append([code[self.state_id], [int(i) for i in index]])

    COUNT = {}

    def values(ps, kind, index):
        """the simulant's own probability, by LABEL, in every container / dtype a probability function may return;
        "a|b|c": another representation at every evaluation of the same function"""
        if "|" in kind:
            ks = kind.split("|")
            COUNT[id(ps)] = COUNT.get(id(ps), -1) + 1
            kind = ks[COUNT[id(ps)] % len(ks)]
        vals = [ps[int(i)] / WD for i in index]
        if kind == "series":
            return pd.Series(vals, index=index, dtype=float)
        if kind == "series_named":
            return pd.Series(vals, index=pd.Index(index, name="simulant"), dtype=float, name="probability")
        if kind == "series_rev":                   # correctly labelled, rows in another order
            return pd.Series(vals, index=index, dtype=float).iloc[::-1]
        if kind == "series_sorted":
            return pd.Series(vals, index=index, dtype=float).sort_index()
        if kind == "series_int":                   # only used when every value is 0 or 1
            if any(v not in (0.0, 1.0) for v in vals):
                raise AssertionError("series_int for a probability that is not 0 or 1")
            return pd.Series([int(v) for v in vals], index=index)
        if kind == "ndarray":
            return np.array(vals)
        if kind == "list":
            return list(vals)
        if kind == "tuple":
            return tuple(vals)
        if kind == "framecol":
            return pd.DataFrame({"zzz": 0.5, "p": vals}, index=index)["p"]
        raise AssertionError(kind)

    class PObj:
        def __init__(self, ps, kind):
            self.ps, self.kind = ps, kind

        def __call__(self, index):
            return values(self.ps, self.kind, index)

        def method(self, index):
            return values(self.ps, self.kind, index)

    def pfunc(ps, kind, q):
        how = ("function", "object", "partial", "method")[q % 4] if case.get("callables") else "function"
        if how == "object":
            return PObj(ps, kind)
        if how == "partial":
            return functools.partial(values, ps, kind)
        if how == "method":
            return PObj(ps, kind).method
        return lambda index: values(ps, kind, index)

    TRIG = {NOT: Trigger.NOT_TRIGGERED, INACTIVE: Trigger.START_INACTIVE, ACTIVE: Trigger.START_ACTIVE}

    class Probe(Component):
        def __init__(self):
            super().__init__()
            self.states = []
            for nm, so, tr in case["states"]:
                cls = PTransient if tr else PState
                if build.get("self") == "method":
                    st = cls(nm)
                    if so:
                        st.allow_self_transitions()
                else:
                    st = cls(nm, allow_self_transition=bool(so))
                self.states.append(st)
            how = build.get("machine", "ctor")
            if how == "ctor":
                self.machine = Machine("st", self.states)
            elif how == "ctor_tuple":
                self.machine = Machine("st", states=tuple(self.states))
            elif how == "add_states":
                self.machine = Machine("st")
                self.machine.add_states(self.states)
            else:                                   # states added in two batches, the second one after the transitions exist
                self.machine = Machine("st", self.states[:1])
            self.trs = []
            pending = {}
            for q, t in enumerate(case["trans"]):
                a, b, trig, ps = t[:4]
                kw = {}
                if tkind(t) != "default":
                    kw["probability_func"] = pfunc(list(ps), tkind(t), q)
                if trig != NOT or q % 2:
                    kw["triggered"] = TRIG[trig]
                tr = Transition(self.states[a], self.states[b], **kw)
                self.trs.append(tr)
                att = build.get("attach", "add_transition")
                if att == "add_transition":
                    self.states[a].add_transition(tr)
                elif att == "append":
                    self.states[a].transition_set.append(tr)
                else:
                    pending.setdefault(a, []).append(tr)
            for a, lst in pending.items():
                self.states[a].transition_set.extend(lst)
            if how == "add_states_twice":
                self.machine.add_states(iter(self.states[1:]))
            subs = [self.machine]
            if case.get("second"):
                self.x, self.y = PState2("c17x"), PState2("c17y")
                self.x.add_transition(Transition(self.x, self.y))
                self.machine2 = Machine("st2", [self.x, self.y])
                subs.append(self.machine2)
            self._sub_components = subs
            self.k = 0

        @property
        def name(self):
            return "c17_probe"

        @property
        def columns_created(self):
            return ["st", "other"] + (["st2"] if case.get("second") else [])

        @property
        def columns_required(self):
            return ["tracked"]

        def on_initialize_simulants(self, d):
            data = {"st": [names[0]] * len(d.index), "other": [7 * int(i) + 3 for i in d.index]}
            if case.get("second"):
                data["st2"] = ["c17x"] * len(d.index)
            self.population_view.update(pd.DataFrame(data, index=d.index))

        def snapshot(self):
            pop = sim.get_population(untracked=True)
            snap = {"st": [code.get(v, len(names)) for v in pop["st"].tolist()],
                    "other": [int(v) for v in pop["other"].tolist()],
                    "tracked": [bool(v) for v in pop["tracked"].tolist()],
                    "labels": [int(v) for v in pop.index.tolist()],
                    "columns": sorted(str(c) for c in pop.columns)}
            if case.get("second"):
                snap["st2"] = [str(v) for v in pop["st2"].tolist()]
            return snap

        def index_of(self, idx, event):
            if idx == "event":
                return event.index
            if case.get("rangeindex") and idx and idx == list(range(idx[0], idx[-1] + 1)):
                return pd.RangeIndex(idx[0], idx[-1] + 1)
            return pd.Index(idx, dtype="int64")

        def act(self, event):
            if self.k >= len(case["steps"]):
                return
            scenes = case["steps"][self.k]
            self.k += 1
            full = pd.Index(range(n), dtype="int64")
            res = []
            for q_sc, sc in enumerate(scenes):
                rec = {"trig": [], "draws": [], "calls": []}
                if q_sc == 0 and early and EARLY:
                    rec["trig"] = EARLY.pop(0)         # fired by the other component's time_step__prepare listener
                else:
                    rec["trig"] = fire(self.trs, sc["trig"])
                unt = set(sc.get("untracked", []))
                self.population_view.update(pd.Series([i not in unt for i in range(n)], index=full, name="tracked"))
                for st in self.states:
                    dr = st.transition_set.random.get_draw(full)
                    nums = [int(x * DD) for x in dr.tolist()]
                    if any(a / DD != b for a, b in zip(nums, dr.tolist())):
                        raise AssertionError("draw is not a multiple of 2^-53")
                    rec["draws"].append(nums)
                for idx in sc["calls"]:
                    self.population_view.update(pd.Series([sname(case, k) for k in sc["assign"]], index=full, name="st"))
                    del CLEAN[:]
                    try:                                            # cleanup hooks, on the table as configured
                        self.machine.cleanup(self.index_of(idx, event), event.time)
                        cout = "ok"
                    except Exception as e:  # noqa: BLE001
                        cout = "err:" + type(e).__name__
                    clean = [[s, list(ix)] for s, ix in CLEAN]
                    before = self.snapshot()
                    del LOG[:]
                    try:
                        self.machine.transition(self.index_of(idx, event), event.time)
                        outcome = "ok"
                    except RecursionError:
                        outcome = "err:RecursionError"
                    except Exception as e:  # noqa: BLE001
                        outcome = "err:" + type(e).__name__
                    after = self.snapshot()
                    call = {"out": outcome, "before": before["st"], "after": after["st"], "other": after["other"],
                            "tracked": after["tracked"], "labels": after["labels"], "columns": after["columns"],
                            "cleanup_out": cout, "cleanup": clean, "cleanup_changed": before["st"] != list(sc["assign"]),
                            "log": [[s, list(ix)] for s, ix in LOG if ix]}
                    if idx == "event":
                        call["event_index"] = [int(i) for i in event.index]
                    if case.get("second"):
                        call["st2"] = after["st2"]
                    rec["calls"].append(call)
                if case.get("second"):                              # the other machine moves its own column only
                    b2 = self.snapshot()
                    try:
                        self.machine2.transition(event.index, event.time)
                        o2 = "ok"
                    except Exception as e:  # noqa: BLE001
                        o2 = "err:" + type(e).__name__
                    a2 = self.snapshot()
                    rec["second"] = {"out": o2, "st2": a2["st2"], "st_same": a2["st"] == b2["st"], "other": a2["other"]}
                    self.population_view.update(pd.Series(["c17x"] * n, index=full, name="st2"))
                res.append(rec)
            out["steps"].append(res)

    class PState2(State):
        pass

    def fire(trs, ops):
        res = []
        for tid, onoff, sims in ops:
            try:
                (trs[tid].set_active if onoff == "on" else trs[tid].set_inactive)(pd.Index(sims, dtype="int64"))
                res.append("ok")
            except Exception as e:  # noqa: BLE001
                res.append("err:" + type(e).__name__)
        return res

    # trigger calls of the first scene of every step made by ANOTHER component, in an earlier phase of the same step
    early = bool(case.get("early_trig")) and case.get("phase", "time_step") != "time_step__prepare"
    EARLY = []

    class Firer(Component):
        def __init__(self, probe):
            super().__init__()
            self.probe, self.k = probe, 0

        @property
        def name(self):
            return "c17_firer"

        def on_time_step_prepare(self, event):
            if self.k < len(case["steps"]) and case["steps"][self.k]:
                EARLY.append(fire(self.probe.trs, case["steps"][self.k][0]["trig"]))
            self.k += 1

    setattr(Probe, PHASES[case.get("phase", "time_step")], lambda self, event: self.act(event))

    SimulationContext._clear_context_cache()
    try:
        probe = Probe()
        sim = SimulationContext(components=[probe] + ([Firer(probe)] if early else []),
                                configuration={"population": {"population_size": n},
                                               "randomness": {"random_seed": case["seed"], "map_size": case.get("map_size", 1009)}},
                                logging_verbosity=0)
        sim.setup()
        sim.initialize_simulants()
        for _ in case["steps"]:
            sim.step()
    except AssertionError:
        raise
    except Exception as e:  # noqa: BLE001
        out["error"] = f"{type(e).__name__}: {e}"[:300]
    return out


RDD = 1024        # draw denominator of the exact row-level stream


def _bad_weights(so, r):
    ones = sum(1 for x in r if x == WD)
    if ones > 1:
        return "two-ones"
    if so:
        return "total-gt-one" if ones == 0 and sum(r) > WD else None
    return "total-zero" if sum(r) == 0 else None


def _run_rows(case):
    impl.load()
    import numpy as np
    import pandas as pd
    from vivarium.framework.randomness.stream import _choice
    from vivarium.framework.state_machine import TransitionSet

    ts = TransitionSet("c17_rows", allow_self_transition=bool(case["self"]))
    ncol = len(case["rows"][0])
    outs = [f"o{k}" for k in range(ncol)]

    def one(rows, draws):
        try:
            o, p = ts._normalize_probabilities(list(outs), np.array(rows, dtype=float) / WD)
            dec = _choice(pd.Series([d / RDD for d in draws], index=range(len(draws))), o, p)
            return ["ok", [list(o).index(x) for x in dec.tolist()]]
        except Exception as e:  # noqa: BLE001
            return ["err:" + type(e).__name__, []]

    return {"error": None, "whole": one(case["rows"], case["draws"]),
            "per": [one([r], [d]) for r, d in zip(case["rows"], case["draws"])]}


def _paths(idx, log):
    """states entered per simulant label, in order"""
    p = {i: [] for i in idx}
    for s, ix in log:
        for i in ix:
            p.setdefault(i, []).append(s)
    return p


OUTCOME = {"ok": "ok", "err:ValueError": "value", "err:KeyError": "key", "err:RecursionError": "recursion"}


class C17(Prop):
    id = "C17"
    lean_modules = ["VivModel.Props.C17", "VivModel.Props.C17Src"]
    build_targets = ["VivModel.Model.Machine", "VivModel.Model.Proto"]
    driver = "C17"
    technique = ("Lean 4 proof (vectorised model of Machine.transition refines the pointwise one-simulant function: induction over "
                 "fuel, the group list and the state list; inverse-CDF lemmas by induction over the weight row) + exact differential "
                 "correspondence with a real Machine inside a real simulation, fed with the draws of the transition sets' streams")
    partial = ("float rounding inside _normalize_probabilities / _choice is idealised as exact rational arithmetic (decisions closer than "
               "2^-40 to a bin edge are skipped and counted; none occur; bin edges themselves are hit by the exact row-level stream); the F9 edge (draw exactly 0.0 with a leading zero weight) is "
               "excluded by hypothesis in prob_zero_never_partial, reproduced on every run by the row-level stream (KNOWN-FINDING) and not reachable through a stream; the state table after a "
               "REJECTED call (partially applied) is explored by the oracle (outsiders untouched) but not modelled")
    n_quick = 180
    n_thorough = 2500
    workers = 6
    case_timeout = 300           # >= 1000 x the normal case time: the box may be heavily oversubscribed
    rule = ("a case is one simulation with one random machine (2-5 probe states, transient chains, self flags, random transition graph, "
            "per-simulant sixteenths incl. 0 and 1, triggered transitions driven through set_active/set_inactive) and 1-2 time steps of "
            "1-3 scenes; a scene fixes active sets and a current-state assignment and makes 3-8 Machine.transition calls from that same "
            "assignment (a subset, the same permuted, singletons, overlapping subsets, everybody, event.index), half of them with untracked "
            "simulants; probability functions return every container / dtype / row order, machines are built through every API form, in any "
            "step phase, optionally next to a second machine; Machine.cleanup observed before every call; 20 % of the cases are the exact "
            "row-level stream instead: a dyadic weight matrix and draws on / next to every bin edge and at 0.0 handed directly to the real "
            "_normalize_probabilities + _choice (whole matrix and row by row); distinct by case hash; non-trivial = some accepted call "
            "moved one simulant and left another where it was (rows: two different decisions)")

    # ------------------------------------------------------------------ generation
    def _gen_rowset(self, rng, k, n, self_ok, bad_rate):
        """per-simulant weight rows (k transitions) in sixteenths"""
        rows = []
        for _ in range(n):
            r = rng.random()
            if r < bad_rate:      # a row the state's transition set must reject
                kind = rng.choice(["two-ones", "over" if self_ok else "zero"]) if k >= 2 else ("zero" if not self_ok else "normal")
            else:
                kind = rng.choice(["normal"] * 5 + ["full", "sole", "one-plus", "zero" if self_ok else "over", "tiny"])
            row = [0] * k
            if kind == "two-ones" and k >= 2:
                a, b = rng.sample(range(k), 2)
                row[a] = row[b] = WD
                if k > 2 and rng.random() < 0.5:
                    row[rng.choice([c for c in range(k) if c not in (a, b)])] = rng.choice([0, 4])
            elif kind == "over" and k >= 2:
                row = [rng.choice([8, 12, 15, 4]) for _ in range(k)]
                if sum(row) <= WD:
                    row[0], row[1] = 12, 8
            elif kind == "zero":
                pass
            elif kind == "sole":
                row[rng.randrange(k)] = WD
            elif kind == "one-plus":
                row = [rng.choice([0, 0, 2, 4, 8]) for _ in range(k)]
                row[rng.randrange(k)] = WD
            elif kind == "full":
                left = WD
                for c in rng.sample(range(k), k):
                    row[c] = rng.choice([x for x in (0, 1, 2, 4, 8, 15) if x <= left])
                    left -= row[c]
                c = rng.randrange(k)
                row[c] += left
                if row[c] == WD and sum(row) == WD and k > 1 and rng.random() < 0.5:
                    row[c] -= 1
                    row[(c + 1) % k] += 1
            elif kind == "tiny":
                row[rng.randrange(k)] = 1
            else:
                left = WD
                for c in rng.sample(range(k), k):
                    row[c] = rng.choice([x for x in (0, 0, 1, 2, 3, 4, 5, 8, 12) if x <= left])
                    left -= row[c]
                if sum(row) == 0 and not self_ok:
                    row[rng.randrange(k)] = rng.choice([1, 4, 8])
            rows.append(row)
        return rows

    def _exact_row(self, rng, k, so, bad):
        """a weight row (sixteenths) on which _normalize_probabilities is exact: totals are powers of two"""
        if bad:
            kind = rng.choice(["two-ones", "over" if so else "zero"]) if k >= 2 else ("zero" if not so else "fine")
            if kind == "two-ones":
                row = [0] * k
                a, b = rng.sample(range(k), 2)
                row[a] = row[b] = WD
                return row
            if kind == "over":
                return [12, 8] + [rng.choice([0, 4]) for _ in range(k - 2)]
            if kind == "zero":
                return [0] * k
        total = rng.choice([16, 16, 8, 4, 2, 1, 32] if not so else [16, 16, 8, 4, 2, 1, 0, 12, 5])
        kind = rng.random()
        if kind < 0.25:                       # a probability 1, alone or with others summing to 1 (rescaled by 2)
            row = [0] * k
            c = rng.randrange(k)
            row[c] = WD
            if k > 1 and rng.random() < 0.5:
                left = WD
                for d in rng.sample([x for x in range(k) if x != c], k - 1):
                    row[d] = rng.choice([x for x in (0, 4, 8, 12) if x <= left])
                    left -= row[d]
                if left and left != WD:
                    row[[x for x in range(k) if x != c][0]] += left
                if row.count(WD) > 1:
                    row = [0] * k
                    row[c] = WD
                if sum(row) not in (16, 32):
                    row = [0] * k
                    row[c] = WD
            return row
        if total == 32 and k < 3:
            total = 16
        row = [0] * k
        left = total
        for c in rng.sample(range(k), k):
            row[c] = rng.choice([x for x in (0, 0, 1, 2, 4, 8, 12, 15) if x <= left])
            left -= row[c]
        if left:
            row[rng.randrange(k)] += left
        if WD in row and sum(row) not in (16, 32):
            return self._exact_row(rng, k, so, False)
        if row.count(WD) > 1:
            return self._exact_row(rng, k, so, False)
        return row

    def _gen_rows(self, rng):
        so = int(rng.random() < 0.5)
        k = rng.choice([1, 2, 2, 3, 3, 4, 5])
        bad_rate = rng.choice([0.0, 0.0, 0.05, 0.2])
        rows, draws = [], []
        for _ in range(rng.randint(1, 10)):
            r = self._exact_row(rng, k, so, rng.random() < bad_rate)
            rows.append(r)
            # cumulative bin edges of the accepted row, as numerators over RDD
            w = r + ([0 if r.count(WD) == 1 else max(WD - sum(r), 0)] if so else [])
            tot = sum(w) or 1
            edges, c = [], 0
            for x in w:
                c += x
                if (c * RDD) % tot == 0:
                    edges.append(c * RDD // tot)
            q = rng.random()
            if q < 0.15:
                d = 0
            elif q < 0.75 and edges:
                d = rng.choice(edges) + rng.choice([0, 0, -1, 1])
            else:
                d = rng.randrange(RDD)
            draws.append(min(max(d, 0), RDD - 1))
        return {"kind": "rows", "self": so, "rows": rows, "draws": draws}

    def generate(self, rng: random.Random, i: int, tier: str):
        if rng.random() < 0.2:
            return self._gen_rows(rng)
        big = tier == "thorough"
        n = rng.choice([1, 2, 3, 4, 5, 6, 8, 10] + ([16, 25] if big else []))
        ns = rng.randint(2, 5)
        chain = ns >= 3 and rng.random() < 0.25      # a chain of transient states that is really walked
        ring = not chain and rng.random() < 0.12      # s0 -> s1 -> … -> s0, all (nearly) certain, nobody transient: a second move would show
        history = not chain and not ring and rng.random() < 0.35   # ONE machine, the same index transitioned again and again (lesson 12)
        states = []
        for k in range(ns):
            tr = 0 if k == 0 or ring else int(rng.random() < 0.35)
            if chain:
                tr = int(0 < k < ns - 1 or (k == ns - 1 and rng.random() < 0.3))
            states.append([("t" if tr else "s") + str(k), int(rng.random() < (0.25 if (chain and tr) or ring else 0.8 if history else 0.5)), tr])
        if not chain and rng.random() < 0.5:      # shuffle so that transient states also come first in Machine.states
            rng.shuffle(states)
            if all(s[2] for s in states):
                states[0][2] = 0
        transient = [bool(s[2]) for s in states]
        bad_rate = rng.choice([0.0, 0.0, 0.03, 0.08, 0.15, 0.3])
        trans = []
        for a in range(ns):
            others = [b for b in range(ns) if b != a and not (transient[a] and transient[b] and b < a)]
            if not transient[a] and rng.random() < 0.1:
                others.append(a)        # a declared transition back into the same state
            kmax = len(others)
            k = rng.choice([0, 1, 1, 2, 2, 3, 4])
            k = min(k, kmax)
            if (chain and a < ns - 1) or ring:
                k = max(k, 1)
            if k == 0:
                continue
            outs = rng.sample(others, k)
            nxt = (a + 1) % ns if ring else a + 1
            if ((chain and a < ns - 1) or ring) and nxt not in outs:
                outs[0] = nxt
            rows = self._gen_rowset(rng, k, n, bool(states[a][1]), bad_rate)
            if (chain and a < ns - 1) or ring:       # most simulants take the next link with high probability
                c = outs.index(nxt)
                for s_ in range(n):
                    if rng.random() < 0.6 and rows[s_].count(WD) == 0:
                        rows[s_] = [0] * k
                        rows[s_][c] = rng.choice([WD, WD, 12])
                        if rows[s_][c] == 12 and k > 1:
                            rows[s_][(c + 1) % k] = 4
            for c, b in enumerate(outs):
                trig = rng.choice([NOT] * (14 if chain or ring else 2 if history else 6) + [INACTIVE, INACTIVE, ACTIVE, ACTIVE])
                trans.append([a, b, trig, [rows[s][c] for s in range(n)]])
        # what each probability function returns: every container / dtype / row order the code accepts (never normalised here)
        order_ok, int_ok = finding_status(SIG_ORDER) is not None, finding_status(SIG_INT) is not None
        variety = rng.random() < 0.75
        if finding_status(SIG_ORDER) == "open":
            order_ok = rng.random() < 0.12                # an open finding class stays a small share of the cases
        if finding_status(SIG_INT) == "open":
            int_ok = rng.random() < 0.3
        for a in range(ns):
            mine = [t for t in trans if t[0] == a]
            for t in mine:
                kinds = ["series"] * 2 + list(SAFE_KINDS) if variety else ["series"]
                if variety and (t[2] != NOT or order_ok):
                    kinds += list(PERM_KINDS) * (2 if t[2] != NOT else 1)
                if variety and all(v in (0, WD) for v in t[3]):
                    kinds += ["series_int"] * 3
                if all(v == WD for v in t[3]) and rng.random() < 0.5:
                    kinds = ["default"]
                kd = rng.choice(kinds)
                if history and variety and kd != "default" and rng.random() < 0.5:      # another representation at every evaluation (lesson 13)
                    kd = "|".join([kd] + [rng.choice([x for x in kinds if x != "default"]) for _ in range(rng.randint(1, 2))])
                t.append(kd)
            if mine and not int_ok and all(t[2] == NOT and "series_int" in t[4].split("|") for t in mine):
                mine[0][4] = "series"          # an all-integer, non-triggered set is finding class SIG_INT
        triggered = [tid for tid, t in enumerate(trans) if t[2] != NOT]
        plain = [tid for tid, t in enumerate(trans) if t[2] == NOT]
        extras = {"build": {"machine": rng.choice(["ctor", "ctor_tuple", "add_states", "add_states_twice"]),
                            "self": rng.choice(["ctor", "method"]),
                            "attach": rng.choice(["add_transition", "append", "extend"])},
                  "phase": rng.choice(["time_step"] * 3 + ["time_step__prepare", "time_step__cleanup", "collect_metrics"]),
                  "second": rng.random() < 0.25, "callables": rng.random() < 0.4, "rangeindex": rng.random() < 0.3,
                  "early_trig": rng.random() < 0.3}
        if history:
            return dict({"n": n, "seed": rng.randint(0, 10 ** 6), "states": states, "trans": trans,
                         "steps": self._history_steps(rng, n, ns, trans, triggered, plain)}, **extras)
        steps = []
        for _ in range(rng.choice([1, 1, 2])):
            scenes = []
            for _ in range(rng.randint(1, 3)):
                trig = []
                for tid in triggered:
                    r = rng.random()
                    if r < 0.55:
                        trig.append([tid, "on", sorted(rng.sample(range(n), rng.randint(0, n)))])
                    elif r < 0.75:
                        trig.append([tid, "off", sorted(rng.sample(range(n), rng.randint(0, n)))])
                if plain and rng.random() < 0.06:
                    trig.append([rng.choice(plain), rng.choice(["on", "off"]), [0]])
                with_out = [a for a in range(ns) if any(t[0] == a for t in trans)] or [0]
                assign = []
                for _ in range(n):
                    r = rng.random()
                    assign.append(ns if r < 0.04 else rng.randrange(ns) if r < 0.3 else rng.choice(with_out))
                base = rng.sample(range(n), rng.randint(1, n))
                if rng.random() < 0.5:
                    base.sort()
                calls = [list(base)]
                if len(base) > 1:
                    perm = list(base)
                    rng.shuffle(perm)
                    calls.append(perm)
                for s in rng.sample(base, min(len(base), rng.randint(1, 3))):
                    calls.append([s])
                other = rng.sample(range(n), rng.randint(1, n))
                calls.append(other)
                if rng.random() < 0.5:
                    calls.append(list(range(n)))
                if rng.random() < 0.1:
                    calls.append([])
                if ring and list(range(n)) not in calls:
                    calls.insert(0, list(range(n)))
                sc = {"trig": trig, "assign": assign, "calls": calls}
                if rng.random() < 0.5:             # untracked simulants, inside and outside the transitioned indexes
                    sc["untracked"] = sorted(rng.sample(range(n), rng.randint(1, max(1, n // 2))))
                    if not any(set(sc["untracked"]) & set(c) for c in calls):
                        calls.append(sorted(set(calls[0]) | set(sc["untracked"])))
                if rng.random() < 0.5:             # the index of the emitted event itself (every simulant, tracked or not)
                    calls.insert(rng.randrange(len(calls) + 1), "event")
                scenes.append(sc)
            steps.append(scenes)
        return dict({"n": n, "seed": rng.randint(0, 10 ** 6), "states": states, "trans": trans, "steps": steps}, **extras)

    def _history_steps(self, rng, n, ns, trans, triggered, plain):
        """Lesson 12: one machine object, one assignment, and the SAME index (verbatim: same labels, same order, or event.index)
        transitioned again and again over several scenes and time steps; between two repeats exactly one kind of state-changing
        call: set_inactive alone / set_active alone / both in either order (on a subset, on nobody, on everybody), an
        untrack or retrack, a transition of another index, a clock step, nothing at all."""
        with_out = [a for a in range(ns) if any(t[0] == a for t in trans)] or [0]
        assign = [rng.choice(with_out) if rng.random() < 0.85 else rng.randrange(ns + 1) for _ in range(n)]
        r = rng.random()
        main = "event" if r < 0.3 else rng.sample(range(n), rng.randint(max(1, n // 2), n))
        if main != "event" and rng.random() < 0.4:
            main.sort()
        other = rng.sample(range(n), rng.randint(1, n))
        untracked = []

        def subset():
            q = rng.random()
            return [] if q < 0.12 else list(range(n)) if q < 0.3 else sorted(rng.sample(range(n), rng.randint(1, n)))

        steps, first = [], True
        for _ in range(rng.choice([1, 2, 2, 3])):
            scenes = []
            for _ in range(rng.randint(2, 5)):
                trig = []
                for tid in triggered:
                    if first:
                        trig.append([tid, "on", sorted(rng.sample(range(n), rng.randint(max(1, n // 2), n)))])
                        continue
                    how = rng.choice(["none", "off", "off", "off", "on", "on", "off_on", "on_off"])
                    if how in ("off", "off_on"):
                        trig.append([tid, "off", subset()])
                    if how in ("on", "off_on", "on_off"):
                        trig.append([tid, "on", subset()])
                    if how == "on_off":
                        trig.append([tid, "off", subset()])
                if plain and rng.random() < 0.05:
                    trig.append([rng.choice(plain), rng.choice(["on", "off"]), [0]])
                first = False
                q = rng.random()
                calls = [main] if q < 0.45 else [main, main] if q < 0.6 else [other, main] if q < 0.8 else [main, other, main]
                if rng.random() < 0.25:              # untrack somebody / retrack everybody between two repeats
                    untracked = [] if untracked else sorted(rng.sample(range(n), rng.randint(1, max(1, n // 2))))
                sc = {"trig": trig, "assign": list(assign), "calls": [c if c == "event" else list(c) for c in calls]}
                if untracked:
                    sc["untracked"] = list(untracked)
                scenes.append(sc)
            steps.append(scenes)
        return steps

    def boundary(self):
        B = []
        full = [16] * 4
        # split once: A -(1)-> B -(1)-> C, everybody transitioned together; nobody may be moved twice
        B.append({"n": 4, "seed": 1, "states": [["a", 0, 0], ["b", 0, 0], ["c", 0, 0]],
                  "trans": [[0, 1, NOT, full], [1, 2, NOT, full], [2, 0, NOT, full]],
                  "steps": [[{"trig": [], "assign": [0, 1, 2, 0], "calls": [[0, 1, 2, 3], [3, 2, 1, 0], [0], [1], [2, 3]]}]]})
        # the same with the states declared in reverse order (the later state is processed first)
        B.append({"n": 4, "seed": 2, "states": [["c", 0, 0], ["b", 0, 0], ["a", 0, 0]],
                  "trans": [[2, 1, NOT, full], [1, 0, NOT, full], [0, 2, NOT, full]],
                  "steps": [[{"trig": [], "assign": [2, 1, 0, 2], "calls": [[0, 1, 2, 3], [1, 0], [3]]}]]})
        # normalisation: per-simulant rows; sim0 two ones, sim1 total 0, sim2 total>1, sim3 [1, 1/2], sim4 total exactly 1, sim5 fine
        rows = [[16, 16], [0, 0], [12, 8], [16, 8], [8, 8], [4, 4]]
        for so in (0, 1):
            B.append({"n": 6, "seed": 3 + so, "states": [["a", so, 0], ["b", 0, 0], ["c", 0, 0]],
                      "trans": [[0, 1, NOT, [r[0] for r in rows]], [0, 2, NOT, [r[1] for r in rows]]],
                      "steps": [[{"trig": [], "assign": [0] * 6, "calls": [[0], [1], [2], [3], [4], [5], [3, 4, 5], [0, 5], [1, 5], [2, 5], [5, 4, 3, 2, 1, 0]]}],
                                [{"trig": [], "assign": [0] * 6, "calls": [[3, 4, 5], [4], [5, 3]]}]]})
        # triggered transitions: never activated / activated for a subset / deactivated again; set_active on a plain one
        B.append({"n": 5, "seed": 5, "states": [["a", 1, 0], ["b", 0, 0], ["c", 0, 0]],
                  "trans": [[0, 1, INACTIVE, [16] * 5], [0, 2, ACTIVE, [8] * 5], [1, 0, NOT, [16] * 5]],
                  "steps": [[{"trig": [], "assign": [0] * 5, "calls": [[0, 1, 2, 3, 4], [4, 2]]},
                             {"trig": [[0, "on", [1, 3]], [1, "on", [0, 1]]], "assign": [0] * 5, "calls": [[0, 1, 2, 3, 4], [3], [1], [4, 3, 2, 1, 0]]},
                             {"trig": [[0, "off", [3, 4]], [2, "on", [0]], [2, "off", [0]]], "assign": [0, 0, 0, 0, 1], "calls": [[0, 1, 2, 3, 4], [3]]}]]})
        # inactive triggered transition is the only way out of a state without self transition: rejected (total 0)
        B.append({"n": 3, "seed": 6, "states": [["a", 0, 0], ["b", 0, 0]],
                  "trans": [[0, 1, INACTIVE, [16] * 3]],
                  "steps": [[{"trig": [], "assign": [0, 0, 1], "calls": [[0, 1], [2]]},
                             {"trig": [[0, "on", [0]]], "assign": [0, 0, 1], "calls": [[0], [0, 2], [0, 1], [1]]}]]})
        # transient chain a -> t1 -> t2 -> b ; stuck transient (no way out) ; transient with self transition
        B.append({"n": 4, "seed": 7, "states": [["a", 0, 0], ["t1", 0, 1], ["t2", 0, 1], ["b", 0, 0], ["t3", 0, 1], ["t4", 1, 1]],
                  "trans": [[0, 1, NOT, [16, 0, 0, 4]], [0, 4, NOT, [0, 16, 0, 4]], [0, 5, NOT, [0, 0, 16, 8]],
                            [1, 2, NOT, [16] * 4], [2, 3, NOT, [16] * 4], [5, 3, NOT, [0, 0, 0, 8]]],
                  "steps": [[{"trig": [], "assign": [0, 0, 0, 0], "calls": [[0, 1, 2, 3], [3], [2, 0]]},
                             {"trig": [], "assign": [1, 2, 4, 5], "calls": [[0, 1, 2, 3], [0]]}]]})
        # unknown label, empty index, duplicate labels, a simulant whose state is not a state of the machine
        B.append({"n": 4, "seed": 8, "states": [["a", 1, 0], ["b", 0, 0]],
                  "trans": [[0, 1, NOT, [8, 8, 8, 8]], [1, 0, NOT, [16] * 4]],
                  "steps": [[{"trig": [], "assign": [0, 1, 2, 0], "calls": [[0, 7], [], [1, 1, 0], [2], [0, 1, 2, 3]]}]]})
        # a cycle of transient states never terminates (RecursionError)
        B.append({"n": 2, "seed": 9, "states": [["a", 0, 0], ["t1", 0, 1], ["t2", 0, 1], ["b", 0, 0]],
                  "trans": [[0, 1, NOT, [16, 0]], [0, 3, NOT, [0, 16]], [1, 2, NOT, [16, 16]], [2, 1, NOT, [16, 16]]],
                  "steps": [[{"trig": [], "assign": [0, 0], "calls": [[1], [0, 1]]}]]})
        # untracked simulants inside the index (1 has weights that cannot be normalised, 2 a certain move): not shown to the machine
        B.append({"n": 4, "seed": 10, "states": [["a", 0, 0], ["b", 0, 0]],
                  "trans": [[0, 1, NOT, [16, 0, 16, 8]], [1, 0, NOT, [16] * 4]],
                  "steps": [[{"trig": [], "assign": [0, 0, 0, 1], "untracked": [1, 2], "calls": [[0, 1, 2, 3], "event", [1], [2, 1], [3, 0], []]},
                             {"trig": [], "assign": [0, 0, 0, 1], "untracked": [0, 1, 2, 3], "calls": ["event", [2]]},
                             {"trig": [], "assign": [0, 0, 0, 1], "calls": ["event", [2], [1]]}]],
                  "second": True})
        # every construction form; self transitions granted through State.allow_self_transitions(); every lifecycle phase
        for q, (mk, att, ph) in enumerate([("ctor", "add_transition", "time_step"), ("ctor_tuple", "append", "time_step__prepare"),
                                           ("add_states", "extend", "time_step__cleanup"), ("add_states_twice", "append", "collect_metrics")]):
            B.append({"n": 5, "seed": 11 + q, "states": [["a", 1, 0], ["t", 1, 1], ["b", 0, 0]],
                      "trans": [[0, 1, NOT, [4, 8, 0, 16, 2]], [0, 2, ACTIVE, [4, 8, 0, 0, 2]], [1, 2, NOT, [8, 8, 8, 8, 8]], [2, 0, NOT, [16] * 5, "default"]],
                      "steps": [[{"trig": [[1, "on", [0, 1, 4]]], "assign": [0, 0, 0, 0, 2], "calls": [[4, 3, 2, 1, 0], "event", [2], [0, 1]]},
                                 {"trig": [], "assign": [1, 1, 1, 1, 1], "calls": ["event", [3, 1]]}]],
                      "build": {"machine": mk, "self": "method" if q % 2 == 0 else "ctor", "attach": att}, "phase": ph,
                      "second": q == 1, "callables": True, "rangeindex": q >= 2})
        # what a probability function may return: list, tuple, ndarray, named Series, Series cut out of a DataFrame, integer dtype next
        # to a float column, the default function; on triggered transitions also correctly labelled Series in another row order
        kinds = ["list", "tuple", "ndarray", "series_named", "framecol", "series"]
        for q in range(2):
            B.append({"n": 6, "seed": 15 + q, "states": [["a", 0, 0], ["b", 0, 0], ["c", 0, 0], ["d", 1, 0]],
                      "trans": [[0, 1, NOT, [16, 0, 16, 0, 8, 4], kinds[3 * q]], [0, 2, NOT, [0, 16, 0, 16, 8, 4], kinds[3 * q + 1]],
                                [0, 3, NOT, [0, 0, 0, 0, 0, 8], kinds[3 * q + 2]],
                                [1, 0, NOT, [16, 16, 16, 16, 16, 16], "series_int"], [1, 2, ACTIVE, [0, 0, 0, 0, 0, 0], "series_int"],
                                [3, 0, INACTIVE, [16, 0, 16, 0, 8, 8], "series_rev"], [3, 1, ACTIVE, [0, 16, 0, 16, 8, 0], "series_sorted"],
                                [2, 3, NOT, [16] * 6, "default"]],
                      "steps": [[{"trig": [[5, "on", [0, 1, 2, 4]], [6, "on", [5, 3, 1, 4]]], "assign": [0, 0, 0, 0, 0, 0],
                                  "calls": [[5, 3, 1, 4, 2, 0], [0, 1, 2, 3, 4, 5], [4], "event"]},
                                 {"trig": [], "assign": [3, 3, 3, 3, 1, 2], "calls": [[5, 3, 1, 4, 2, 0], [2, 0, 1], "event", [3]]}]],
                      "callables": q == 1})
        # history on ONE machine (lesson 12): the same index, verbatim, evaluated again after set_inactive alone, set_active alone,
        # both orders, nothing, an untrack, a transition of another index, a clock step; everybody stays in `a` (self transitions)
        for q, main in enumerate(["event", [0, 1, 2, 3, 4, 5], [5, 3, 1, 4, 0, 2], [1, 3, 5]]):
            B.append({"n": 6, "seed": 30 + q, "states": [["a", 1, 0], ["b", 0, 0], ["c", 0, 0]],
                      "trans": [[0, 1, INACTIVE if q % 2 else ACTIVE, [16, 16, 8, 16, 4, 16], "series|ndarray|list" if q == 1 else "series"],
                                [0, 2, NOT, [0, 0, 4, 0, 4, 0], "series|series_named" if q == 2 else "series"]],
                      "steps": [[{"trig": [[0, "on", [1, 3, 5]]], "assign": [0] * 6, "calls": [main]},
                                 {"trig": [[0, "off", [3]]], "assign": [0] * 6, "calls": [main, main]},
                                 {"trig": [[0, "off", []]], "assign": [0] * 6, "calls": [main]},
                                 {"trig": [[0, "on", [0]]], "assign": [0] * 6, "calls": [main]}],
                                [{"trig": [[0, "off", [1, 0]]], "assign": [0] * 6, "calls": [main]},
                                 {"trig": [[0, "off", [5]], [0, "on", [5, 2]]], "assign": [0] * 6, "calls": [main]},
                                 {"trig": [[0, "on", [4]], [0, "off", [4, 2]]], "assign": [0] * 6, "calls": [main, [2, 4], main]},
                                 {"trig": [], "assign": [0] * 6, "untracked": [5], "calls": [main]},
                                 {"trig": [[0, "off", [0, 1, 2, 3, 4, 5]]], "assign": [0] * 6, "calls": [main]}],
                                [{"trig": [], "assign": [0] * 6, "calls": [main]},
                                 {"trig": [[0, "on", [0, 1, 2, 3, 4, 5]]], "assign": [0] * 6, "calls": [main]},
                                 {"trig": [[0, "off", [5, 1]]], "assign": [0] * 6, "calls": [main]}]],
                      "early_trig": q == 3, "phase": ["time_step", "collect_metrics", "time_step", "time_step__cleanup"][q]})
        # a machine whose states have no transition at all; a machine with a single state
        B.append({"n": 3, "seed": 17, "states": [["a", 0, 0], ["b", 1, 1]], "trans": [],
                  "steps": [[{"trig": [], "assign": [0, 1, 2], "calls": ["event", [1], []]}]], "build": {"machine": "add_states"}})
        B.append({"n": 2, "seed": 18, "states": [["a", 1, 0]], "trans": [[0, 0, NOT, [8, 16]]],
                  "steps": [[{"trig": [], "assign": [0, 0], "untracked": [0], "calls": ["event", [1], [0]]}]]})
        # finding classes (only once recorded, see SIG_ORDER / SIG_INT)
        if finding_status(SIG_ORDER) is not None:
            for kind in PERM_KINDS:
                B.append({"n": 4, "seed": 19, "states": [["a", 0, 0], ["b", 0, 0], ["c", 0, 0]],
                          "trans": [[0, 1, NOT, [16, 16, 0, 0], kind], [0, 2, NOT, [0, 0, 16, 16], kind]],
                          "steps": [[{"trig": [], "assign": [0, 0, 0, 0], "calls": [[3, 1, 0, 2], [0, 1, 2, 3], [0], [3, 2, 1, 0]]}]]})
        if finding_status(SIG_INT) is not None:
            B.append({"n": 3, "seed": 20, "states": [["a", 0, 0], ["b", 0, 0], ["c", 0, 0]],
                      "trans": [[0, 1, NOT, [16, 0, 16], "series_int"], [0, 2, NOT, [0, 16, 0], "series_int"]],
                      "steps": [[{"trig": [], "assign": [0, 0, 0], "calls": [[0, 1, 2], [1]]}]]})
        # exact row-level stream: the F9 edge (draw 0.0, leading zero weight) and draws exactly on every bin edge
        for so in (0, 1):
            B.append({"kind": "rows", "self": so, "rows": [[0, 16], [0, 16]], "draws": [0, 1]})
            B.append({"kind": "rows", "self": so, "rows": [[0, 8, 8], [0, 0, 16], [4, 0, 4], [4, 0, 4], [4, 0, 4], [8, 8, 0], [8, 8, 0], [16, 0, 0], [0, 16, 0]],
                      "draws": [0, 0, 0, 512, 513, 512, 1023, 1023, 1]})
            B.append({"kind": "rows", "self": so, "rows": [[4, 4]] * 5 + [[8, 8]] * 3, "draws": [256, 257, 512, 511, 1023, 512, 513, 0]})
        B.append({"kind": "rows", "self": 1, "rows": [[16, 8]], "draws": [700]})
        B.append({"kind": "rows", "self": 1, "rows": [[12, 8]], "draws": [700]})
        B.append({"kind": "rows", "self": 0, "rows": [[12, 8, 12]], "draws": [384]})
        B.append({"kind": "rows", "self": 0, "rows": [[4, 4], [0, 0]], "draws": [3, 3]})
        B.append({"kind": "rows", "self": 1, "rows": [[4, 4], [16, 16]], "draws": [3, 3]})
        return B

    def shrink(self, case):
        if case.get("kind") == "rows":
            for q in range(len(case["rows"]) - 1, -1, -1):
                if len(case["rows"]) > 1:
                    yield dict(case, rows=case["rows"][:q] + case["rows"][q + 1:], draws=case["draws"][:q] + case["draws"][q + 1:])
            return
        steps = case["steps"]
        for k in range(len(steps) - 1, -1, -1):
            if len(steps) > 1:
                yield dict(case, steps=steps[:k] + steps[k + 1:])
        for k, sc_list in enumerate(steps):
            for j in range(len(sc_list) - 1, -1, -1):
                sc = sc_list[j]
                if len(sc_list) > 1 and not sc["trig"]:
                    yield dict(case, steps=steps[:k] + [sc_list[:j] + sc_list[j + 1:]] + steps[k + 1:])
                for c in range(len(sc["calls"]) - 1, -1, -1):
                    if len(sc["calls"]) > 1:
                        nsc = dict(sc, calls=sc["calls"][:c] + sc["calls"][c + 1:])
                        yield dict(case, steps=steps[:k] + [sc_list[:j] + [nsc] + sc_list[j + 1:]] + steps[k + 1:])
                for c, idx in enumerate(sc["calls"]):
                    if idx == "event":
                        nsc = dict(sc, calls=sc["calls"][:c] + [list(range(case["n"]))] + sc["calls"][c + 1:])
                        yield dict(case, steps=steps[:k] + [sc_list[:j] + [nsc] + sc_list[j + 1:]] + steps[k + 1:])
                    elif len(idx) > 1:
                        for d in range(len(idx)):
                            nsc = dict(sc, calls=sc["calls"][:c] + [idx[:d] + idx[d + 1:]] + sc["calls"][c + 1:])
                            yield dict(case, steps=steps[:k] + [sc_list[:j] + [nsc] + sc_list[j + 1:]] + steps[k + 1:])

    # ------------------------------------------------------------------ implementation
    def run_impl(self, case):
        return _run_rows(case) if case.get("kind") == "rows" else _run(case)

    # ------------------------------------------------------------------ model
    def _walk(self, case, obs):
        """(step, scene, scene record) triples that were actually run"""
        for k, step in enumerate(case["steps"]):
            if k >= len(obs["steps"]):
                return
            for j, sc in enumerate(step):
                yield k, j, sc, obs["steps"][k][j]

    def _model_skipped(self, case):
        """cases of an OPEN finding class are judged by the oracle only (the model describes the intended behaviour)"""
        perm_sets, int_sets = risky_sets(case)
        return bool((perm_sets and finding_status(SIG_ORDER) == "open") or (int_sets and finding_status(SIG_INT) == "open"))

    def model_lines(self, case, obs):
        if obs["error"]:
            return []
        if case.get("kind") != "rows" and self._model_skipped(case):
            return []
        if case.get("kind") == "rows":
            def line(rows, draws):
                return (f"sm choose {case['self']} {WD} {RDD} " + ";".join(",".join(map(str, r)) for r in rows) + " "
                        + ",".join(map(str, draws)))
            return [line(case["rows"], case["draws"])] + [line([r], [d]) for r, d in zip(case["rows"], case["draws"])]
        spec = Spec(case)
        L = [f"sm new {WD} {DD} {case['n']}"]
        for nm, so, tr in case["states"]:
            L.append(f"sm state {so} {tr}")
        for t in case["trans"]:
            a, b, trig, ps = t[:4]
            L.append(f"sm trans {a} {b} {0 if trig == NOT else 1} {','.join(map(str, ps))}")
        for k, j, sc, rec in self._walk(case, obs):
            for tid, onoff, sims in sc["trig"]:
                L.append(f"sm active {case['trans'][tid][0]} {spec.pos[tid]} {onoff} {','.join(map(str, sims)) or '-'}")
            unt = set(sc.get("untracked", []))
            L.append("sm tracked " + ",".join("0" if i in unt else "1" for i in range(case["n"])))
            for s, dr in enumerate(rec["draws"]):
                L.append(f"sm draws {s} {','.join(map(str, dr))}")
            for idx in sc["calls"]:
                idx = as_list(case, idx)
                L.append(f"sm tab {','.join(map(str, sc['assign']))}")
                L.append(f"sm cleanup {','.join(map(str, idx)) or '-'}")
                L.append(f"sm transition {','.join(map(str, idx)) or '-'}")
        return L

    def compare(self, case, obs, replies):
        if obs["error"]:
            return [f"simulation raised outside Machine.transition: {obs['error']}"]
        if case.get("kind") == "rows":
            dis = []
            for tag, (o, dec), r in zip(["whole matrix"] + [f"row {q} alone" for q in range(len(case["rows"]))],
                                        [obs["whole"]] + obs["per"], replies):
                t = r.split()
                if (o == "ok") != (t[0] == "ok"):
                    dis.append(f"{tag}: impl {o}, model {r[:60]}")
                elif o == "ok" and dec != [int(x) for x in t[1].split(",")]:
                    dis.append(f"{tag}: rows {case['rows']} draws {case['draws']}/{RDD}: impl decides {dec}, model {t[1]}")
            return dis
        dis = []
        it = iter(replies)
        head = 1 + len(case["states"]) + len(case["trans"])
        for q in range(head):
            r = next(it)
            if not r.startswith("ok"):
                dis.append(f"model refused definition line #{q}: {r}")
        obs["_near"] = 0
        for k, j, sc, rec in self._walk(case, obs):
            for (tid, onoff, sims), o in zip(sc["trig"], rec["trig"]):
                r = next(it)
                if (o == "ok") != (r == "ok"):
                    dis.append(f"step {k} scene {j} set_{'active' if onoff == 'on' else 'inactive'} on transition {tid}: impl {o}, model {r}")
            if next(it) != "ok":
                dis.append(f"step {k} scene {j}: model refused the tracked column")
            for _ in rec["draws"]:
                if next(it) != "ok":
                    dis.append(f"step {k} scene {j}: model refused the draws")
            for idx, call in zip(sc["calls"], rec["calls"]):
                idx = as_list(case, idx)
                if next(it) != "ok":
                    dis.append(f"step {k} scene {j}: model refused the assignment")
                r = next(it)                       # Machine.cleanup: the cleanup_effect calls
                mc = [] if r in ("ok -", "ok") else [[int(c.split(":")[0]), [int(x) for x in c.split(":")[1].split(",")]] for c in r[3:].split(";")] if r.startswith("ok") else None
                if (mc is None) != (call["cleanup_out"] != "ok") or (mc is not None and mc != call["cleanup"]):
                    dis.append(f"step {k} scene {j} cleanup({idx}): impl {call['cleanup_out']} {call['cleanup']}, model {r[:80]}")
                r = next(it)
                t = r.split()
                mo = t[0] == "ok"
                where = f"step {k} scene {j} transition({idx}) from {sc['assign']}"
                if mo != (call["out"] == "ok"):      # accepted / rejected; exception classes are not compared
                    dis.append(f"{where}: impl {call['out']}, model {r[:60]}")
                    continue
                if not mo:
                    continue
                mst = [int(x) for x in t[1].split(",")] if t[1] != "-" else []
                moth = [int(x) for x in t[2].split(",")] if t[2] != "-" else []
                mpaths = [] if t[3] == "-" and not idx else [([] if p == "-" else [int(x) for x in p.split(",")]) for p in t[3].split(";")]
                near = set(int(x) for x in t[4].split(",")) if t[4] != "-" else set()
                obs["_near"] += len(near)
                for i in range(case["n"]):
                    if i in near:
                        continue
                    if mst[i] != call["after"][i]:
                        dis.append(f"{where}: simulant {i} is in {sname(case, call['after'][i])}, model {sname(case, mst[i])}")
                if moth != call["other"]:
                    dis.append(f"{where}: other column impl {call['other']}, model {moth}")
                if len(t) > 5 and [bool(int(x)) for x in t[5].split(",")] != call["tracked"]:
                    dis.append(f"{where}: tracked column impl {call['tracked']}, model {t[5]}")
                ip = _paths(idx, call["log"])
                for i, mp in zip(idx, mpaths):
                    if i in near or idx.count(i) > 1:
                        continue
                    if ip.get(i, []) != mp:
                        dis.append(f"{where}: simulant {i} entered {ip.get(i, [])}, model {mp}")
        return dis[:12]

    # ------------------------------------------------------------------ oracle (the property itself)
    def oracle(self, case, obs):
        if obs["error"]:
            return [{"sig": "simulation-raised", "msg": obs["error"]}]
        if case.get("kind") == "rows":
            return self._oracle_rows(case, obs)
        spec = Spec(case)
        n = case["n"]
        F = []
        perm_sets, int_sets = risky_sets(case)

        def fail0(sig, msg):
            F.append({"sig": sig, "msg": msg})

        fail = fail0
        ran = {(k, j): rec for k, j, sc, rec in self._walk(case, obs)}
        for k, j, sc, active in spec.scenes():
            rec = ran.get((k, j))
            if rec is None:
                fail0("scene-not-run", f"step {k} scene {j} was never reached")
                continue
            assign = sc["assign"]
            unt = set(sc.get("untracked", []))
            exp_tracked = [i not in unt for i in range(n)]          # from the configuration, not read back
            outcomes = {}      # label -> {(after, path)} over accepted calls
            for idx0, call in zip(sc["calls"], rec["calls"]):
                idx = as_list(case, idx0)
                where = f"step {k} scene {j} transition({idx0}) from {[sname(case, a) for a in assign]}" + (f" untracked {sorted(unt)}" if unt else "")
                if idx0 == "event" and call.get("event_index") != idx:
                    fail("harness-event-index", f"{where}: event.index is {call.get('event_index')}")
                    continue
                # (the machine's view shows tracked simulants only: untracked members of the index are not transitioned)
                inside = [i for i in idx if i < n and i not in unt]
                hidden = [i for i in idx if i < n and i in unt]
                unknown = [i for i in idx if i >= n]
                # a finding class? (see SIG_ORDER / SIG_INT): every failure of such a call is reported under the finding's signature
                cls = None
                for i in inside:
                    cl = spec.closure(active, assign[i], i)[0]
                    if any(s_ in int_sets for s_ in cl):
                        cls = SIG_INT
                    elif cls is None and any(s_ in perm_sets for s_ in cl):
                        cls = SIG_ORDER
                if cls:
                    fail = (lambda c: lambda sig, msg: F.append({"sig": c, "msg": f"[{sig}] {msg}"}))(cls)
                else:
                    fail = fail0
                if call["cleanup_changed"] or call["before"] != assign:
                    fail0("cleanup-changed-table" if call["cleanup_changed"] else "harness-reset",
                          f"{where}: state column before the call is {call['before']}")
                    continue
                # Machine.cleanup: cleanup_effect exactly once per tracked simulant of the index, with its current state
                if unknown:
                    if call["cleanup_out"] == "ok":
                        fail0("unknown-label-accepted", f"{where}: cleanup accepted labels {unknown}")
                else:
                    want = [[s_, [i for i in idx if i not in unt and assign[i] == s_]] for s_ in range(spec.ns)]
                    want = [w for w in want if w[1]]
                    if call["cleanup_out"] != "ok" or call["cleanup"] != want:
                        fail0("cleanup-hook", f"{where}: cleanup_effect calls {call['cleanup_out']} {call['cleanup']}, expected {want}")
                # frame: outsiders and every other column are untouched, whatever the outcome
                if (call["other"] != [7 * i + 3 for i in range(n)] or call["tracked"] != exp_tracked or call["labels"] != list(range(n))
                        or call["columns"] != sorted(["st", "other", "tracked"] + (["st2"] if case.get("second") else []))
                        or (case.get("second") and call["st2"] != ["c17x"] * n)):
                    fail0("other-column-changed", f"{where}: other columns / rows changed (other {call['other']}, tracked {call['tracked']}, "
                                                  f"columns {call['columns']}, st2 {call.get('st2')})")
                for i in range(n):
                    if i not in idx and call["after"][i] != assign[i]:
                        fail0("outsider-changed", f"{where}: simulant {i} was not in the index but moved "
                                                  f"{sname(case, assign[i])} -> {sname(case, call['after'][i])}")
                for i in hidden:
                    if call["after"][i] != assign[i] or any(i in ix for _, ix in call["log"]):
                        fail0("untracked-transitioned", f"{where}: untracked simulant {i} moved {sname(case, assign[i])} -> "
                                                        f"{sname(case, call['after'][i])} (entries {[s_ for s_, ix in call['log'] if i in ix]})")
                # rejection
                must = [(i, spec.bad_row(active, assign[i], i)) for i in inside if spec.bad_row(active, assign[i], i)]
                may, cyc = list(must), False
                for i in inside:
                    cl, c = spec.closure(active, assign[i], i)
                    cyc = cyc or c
                    may += [(i, spec.bad_row(active, s, i)) for s in cl if spec.bad_row(active, s, i)]
                if unknown:
                    if call["out"] == "ok":
                        fail0("unknown-label-accepted", f"{where}: labels {unknown} are not simulants")
                    continue
                if call["out"] != "ok":
                    # a rejection (whatever the exception class) is legitimate only if some simulant of the index can meet
                    # un-normalisable weights on its own way (or an endless chain of transient states)
                    if not may and not (cyc and call["out"] == "err:RecursionError"):
                        if call["out"] == "err:ValueError":
                            fail("normalisable-rejected", f"{where}: ValueError although every simulant's weights can be normalised")
                        else:
                            fail("transition-raised", f"{where}: {call['out']}")
                    continue
                if must:
                    fail("unnormalisable-accepted", f"{where}: accepted although simulant {must[0][0]} has weights "
                                                    f"{spec.row(active, assign[must[0][0]], must[0][0])}/16 ({must[0][1]}) in {sname(case, assign[must[0][0]])}")
                    continue
                paths = _paths(inside, call["log"])
                for i in paths:
                    if i not in idx:
                        fail0("outsider-changed", f"{where}: simulant {i} entered {paths[i]} but was not in the index")
                for i in set(inside):
                    cur, new = assign[i], call["after"][i]
                    path = paths[i]
                    if idx.count(i) > 1:        # duplicate label: every entry is logged once per copy
                        path = [s for q, s in enumerate(paths[i]) if q % idx.count(i) == 0]
                    outcomes.setdefault(i, set()).add((new, tuple(path)))
                    allowed = spec.stops(active, cur, i)
                    if new not in allowed:
                        declared = any(spec.trans[t][1] == new for t in spec.by_from.get(cur, [])) if cur < spec.ns else False
                        zero = [t for t in (spec.by_from[cur] if cur < spec.ns else []) if spec.trans[t][1] == new and spec.p(active, t, i) == 0]
                        so = spec.sole_one(active, cur, i)
                        if new == cur and cur < spec.ns and not spec.self_ok[cur]:
                            fail("stayed-without-self-transition", f"{where}: simulant {i} stayed in {sname(case, cur)}")
                        elif so is not None and (not path or path[0] != spec.trans[so][1]):
                            fail("sole-one-not-taken", f"{where}: simulant {i} has a sole probability-1 transition to "
                                                       f"{sname(case, spec.trans[so][1])} but is in {sname(case, new)}")
                        elif path and new == path[-1] and new < spec.ns and spec.transient[new] and spec.by_from[new] and not spec.self_ok[new]:
                            fail("stopped-in-transient", f"{where}: simulant {i} entered {[sname(case, s_) for s_ in path]} and was left in the "
                                                         f"transient state {sname(case, new)}, which has transitions and no self transition")
                        elif zero:
                            fail("prob-zero-taken", f"{where}: simulant {i} took {sname(case, cur)} -> {sname(case, new)} whose probability "
                                                    f"for it is 0 ({'inactive' if zero[0] in active and i not in active[zero[0]] else 'weight 0'})")
                        else:
                            fail("illegal-target", f"{where}: simulant {i} went {sname(case, cur)} -> {sname(case, new)}; allowed "
                                                   f"{sorted(sname(case, a) for a in allowed)}" + (" (declared but not reachable now)" if declared else ""))
                        continue
                    # the entry path: declared positive hops, only transients in the middle, one landing
                    prev = cur
                    for q, e in enumerate(path):
                        if q > 0 and not spec.transient[prev]:
                            fail("moved-twice", f"{where}: simulant {i} entered {[sname(case, s) for s in path]} – "
                                                f"{sname(case, prev)} is not transient, yet it was moved on")
                            break
                        hops = [t for t in (spec.by_from[prev] if prev < spec.ns else []) if spec.trans[t][1] == e]
                        if not hops:
                            fail("undeclared-hop", f"{where}: simulant {i} moved {sname(case, prev)} -> {sname(case, e)}, which is not declared")
                            break
                        if all(spec.p(active, t, i) == 0 for t in hops):
                            fail("prob-zero-taken", f"{where}: simulant {i} moved {sname(case, prev)} -> {sname(case, e)} with probability 0")
                            break
                        prev = e
                    else:
                        if (path[-1] if path else cur) != new:
                            fail("log-table-mismatch", f"{where}: simulant {i} entered {[sname(case, s) for s in path]} but the table says {sname(case, new)}")
            for i, outs in outcomes.items():
                if len(outs) > 1:
                    cl = spec.closure(active, assign[i], i)[0]
                    sig = SIG_ORDER if any(s_ in perm_sets for s_ in cl) else "depends-on-company"
                    fail0(sig, f"step {k} scene {j}: simulant {i} (in {sname(case, assign[i])}) ends differently depending on the "
                               f"index it is transitioned with: {sorted((sname(case, a), [sname(case, s) for s in p]) for a, p in outs)}")
            if case.get("second"):
                sec = rec.get("second") or {}
                want2 = ["c17y" if t else "c17x" for t in exp_tracked]
                if sec.get("out") != "ok" or sec.get("st2") != want2 or not sec.get("st_same") or sec.get("other") != [7 * i + 3 for i in range(n)]:
                    fail0("second-machine", f"step {k} scene {j}: the second machine (c17x -(1)-> c17y on column st2, transitioned with event.index) "
                                            f"gave {sec}, expected st2 {want2} and everything else untouched")
        return F

    def _oracle_rows(self, case, obs):
        F = []
        so, rows, draws = bool(case["self"]), case["rows"], case["draws"]
        k = len(rows[0])

        def check(tag, rs, ds, out):
            o, dec = out
            bad = [(r, _bad_weights(so, r)) for r in rs if _bad_weights(so, r)]
            if o != "ok":
                if not bad:
                    F.append({"sig": "normalisable-rejected" if o == "err:ValueError" else "transition-raised",
                              "msg": f"{tag}: {o} for weights {rs}/16 (self transition {'allowed' if so else 'not allowed'})"})
                return
            if bad:
                F.append({"sig": "unnormalisable-accepted", "msg": f"{tag}: weights {bad[0][0]}/16 ({bad[0][1]}) accepted"})
                return
            for r, d, c in zip(rs, ds, dec):
                what = f"{tag}: weights {r}/16, draw {d}/{RDD}, self transition {'allowed' if so else 'not allowed'}: decided option {c}"
                if c > k or (c == k and not so):
                    F.append({"sig": "stayed-without-self-transition", "msg": what})
                elif c == k:
                    if (r.count(WD) == 1 or sum(r) == WD) and not (d == 0):
                        F.append({"sig": "prob-zero-taken", "msg": what + " (the null transition, whose weight is 0)"})
                elif r[c] == 0:
                    if d == 0 and c == 0:
                        F.append({"sig": "choice-draw0-leading-zero-weight", "msg": what + " (weight 0) – draw exactly 0.0"})
                    else:
                        F.append({"sig": "prob-zero-taken", "msg": what + " (weight 0)"})
                elif r.count(WD) == 1 and sum(r) == WD and r[c] != WD:
                    F.append({"sig": "sole-one-not-taken", "msg": what})

        check("whole matrix", rows, draws, obs["whole"])
        for q, (r, d, out) in enumerate(zip(rows, draws, obs["per"])):
            check(f"row {q} alone", [r], [d], out)
            if obs["whole"][0] == "ok" and out[0] == "ok" and out[1] != [obs["whole"][1][q]]:
                F.append({"sig": "depends-on-company", "msg": f"row {q} weights {r}/16 draw {d}/{RDD}: decided {out[1][0]} alone, "
                                                              f"{obs['whole'][1][q]} inside the matrix"})
        return F

    # ------------------------------------------------------------------ reporting
    def nontrivial(self, case, obs):
        if obs["error"]:
            return False
        if case.get("kind") == "rows":
            decs = [o[1][0] for o in obs["per"] if o[0] == "ok"]
            return len(set(decs)) > 1 or (len(case["rows"]) == 1 and bool(decs))
        for k, j, sc, rec in self._walk(case, obs):
            for idx, call in zip(sc["calls"], rec["calls"]):
                idx = as_list(case, idx)
                if call["out"] == "ok":
                    moved = [i for i in idx if i < case["n"] and call["after"][i] != sc["assign"][i]]
                    stayed = [i for i in range(case["n"]) if call["after"][i] == sc["assign"][i]]
                    if moved and stayed:
                        return True
        return False

    def tags(self, case, obs):
        if obs["error"]:
            return ["simulation-error"]
        if case.get("kind") == "rows":
            T = {"kind:rows(exact)", "rows:whole-" + ("accepted" if obs["whole"][0] == "ok" else "rejected")}
            so = bool(case["self"])
            for r, d, out in zip(case["rows"], case["draws"], obs["per"]):
                b = _bad_weights(so, r)
                if b:
                    T.add("rows:unnormalisable:" + b)
                    continue
                w = r + ([0 if r.count(WD) == 1 else WD - sum(r)] if so else [])
                tot, c, edges = sum(w), 0, []
                for x in w:
                    c += x
                    edges.append(c * RDD)
                if d == 0:
                    T.add("rows:draw-zero" + ("-leading-zero-weight(F9)" if r[0] == 0 else ""))
                if d * tot in edges:
                    T.add("rows:draw-on-bin-edge")
                if (d + 1) * tot in edges or (d - 1) * tot in edges:
                    T.add("rows:draw-next-to-bin-edge")
                if WD in r and sum(r) > WD:
                    T.add("rows:one-plus-others(rescaled)")
                if out[0] == "ok":
                    T.add("rows:decided-null" if out[1][0] == len(r) else "rows:decided-transition")
            return sorted(T)
        spec = Spec(case)
        T = set()
        T.add("kind:machine")
        T.add(f"states:{spec.ns}")
        T.add("pop:" + ("1" if case["n"] == 1 else "2-5" if case["n"] <= 5 else "6+"))
        if any(spec.transient):
            T.add("machine:transient-state")
        if spec.transient[0]:
            T.add("machine:transient-declared-first")
        if any(spec.transient[a] and spec.transient[b] for a, b, *_ in case["trans"]):
            T.add("machine:transient-chain")
        if any(a == b for a, b, *_ in case["trans"]):
            T.add("machine:declared-loop-transition")
        if any(not spec.by_from[s] for s in range(spec.ns)):
            T.add("machine:state-without-transitions")
        for t in case["trans"]:
            T.add({NOT: "trans:plain", INACTIVE: "trans:start-inactive", ACTIVE: "trans:start-active"}[t[2]])
            for kd in tkinds(t):
                T.add("pfunc:" + kd + ("" if t[2] == NOT else "(triggered)"))
            if "|" in tkind(t):
                T.add("pfunc:representation-changes-along-the-history")
        for key, val in sorted(case.get("build", {}).items()):
            T.add(f"build:{key}={val}")
        T.add("phase:" + case.get("phase", "time_step"))
        if case.get("second"):
            T.add("machine:second-machine-on-other-column")
        if case.get("callables"):
            T.add("pfunc:callable-objects/partials/methods")
        if case.get("rangeindex"):
            T.add("index:RangeIndex")
        if case.get("early_trig") and case.get("phase", "time_step") != "time_step__prepare":
            T.add("trigger:fired-by-another-component-in-an-earlier-phase")
        T |= self._history_tags(case)
        if self._model_skipped(case):
            T.add("model-skipped:open-finding-class")
        ran = {(k, j): rec for k, j, sc, rec in self._walk(case, obs)}
        for k, j, sc, active in spec.scenes():
            rec = ran.get((k, j))
            if rec is None:
                continue
            for (tid, onoff, sims), o in zip(sc["trig"], rec["trig"]):
                T.add(f"trigger:set_{'active' if onoff == 'on' else 'inactive'}:{'ok' if o == 'ok' else 'refused'}")
            if any(a >= spec.ns for a in sc["assign"]):
                T.add("assign:state-outside-machine")
            if len(sc["calls"]) > 1:
                T.add("scene:alone-vs-together")
            unt = set(sc.get("untracked", []))
            for idx, call in zip(sc["calls"], rec["calls"]):
                if idx == "event":
                    T.add("index:event.index")
                idx = as_list(case, idx)
                if any(i in unt for i in idx):
                    T.add("index:contains-untracked")
                if any(i in unt and spec.bad_row(active, sc["assign"][i], i) for i in idx if i < case["n"]):
                    T.add("index:untracked-with-unnormalisable-weights")
                if call["cleanup"]:
                    T.add("hook:cleanup_effect")
                T.add("call:" + OUTCOME.get(call["out"], call["out"]))
                T.add("index:" + ("empty" if not idx else "single" if len(idx) == 1 else "everybody" if sorted(idx) == list(range(case["n"])) else "subset"))
                if idx != sorted(idx):
                    T.add("index:unsorted")
                if len(set(idx)) < len(idx):
                    T.add("index:duplicate-label")
                for i in idx:
                    if i >= case["n"] or i in unt:
                        continue
                    s = sc["assign"][i]
                    b = spec.bad_row(active, s, i)
                    if b:
                        T.add("row:unnormalisable:" + b)
                        continue
                    if s >= spec.ns or not spec.by_from[s]:
                        continue
                    r = spec.row(active, s, i)
                    if spec.sole_one(active, s, i) is not None:
                        T.add("row:sole-one" + ("-after-zero-weight" if r.index(WD) > 0 else ""))
                    elif WD in r:
                        T.add("row:one-plus-others(rescaled)")
                    if 0 in r:
                        T.add("row:has-zero-weight")
                    if any(t in active and i not in active[t] and spec.trans[t][3][i] > 0 for t in spec.by_from[s]):
                        T.add("row:inactive-trigger-masks-positive-weight")
                    if any(t in active and i in active[t] and spec.trans[t][3][i] > 0 for t in spec.by_from[s]):
                        T.add("row:active-trigger")
                    if spec.self_ok[s] and sum(r) == WD and WD not in r:
                        T.add("row:self-allowed-but-total-one")
                    if not spec.self_ok[s] and sum(r) not in (1, 2, 4, 8, 16):
                        T.add("row:inexact-float-normalisation")
                    if not spec.self_ok[s] and sum(r) > WD:
                        T.add("row:total-above-one-rescaled")
                    if call["out"] == "ok":
                        new = call["after"][i]
                        p = _paths([i], call["log"]).get(i, [])
                        T.add("hop:stayed(null)" if not p else "hop:direct" if len(p) == 1 else f"hop:through-{min(len(p) - 1, 3)}-transient")
                        if p and spec.transient[p[-1]]:
                            T.add("hop:ends-in-transient")
                        if new == s and p:
                            T.add("hop:returned-to-start")
                if call["out"] == "err:ValueError" and not any(spec.bad_row(active, sc["assign"][i], i) for i in idx if i < case["n"] and i not in unt):
                    T.add("call:rejected-inside-transient")
        if obs.get("_near"):
            T.add("compare:near-edge-skipped")
        return sorted(T)

    def _history_tags(self, case):
        """which intervening operation separates two verbatim repeats of the same (index, assignment) evaluation"""
        T = set()
        last = None        # (index, assign, untracked) of the most recent Machine.transition call
        for step in case["steps"]:
            for sc in step:
                kinds = [o for _, o, _ in sc["trig"]]
                for q, idx in enumerate(sc["calls"]):
                    cur = (idx if idx == "event" else tuple(idx), tuple(sc["assign"]))
                    if last is not None and cur == last[:2]:
                        unt = tuple(sc.get("untracked", []))
                        between = kinds if q == 0 else []
                        what = ("nothing" if not between else "set_inactive-only" if set(between) == {"off"} else "set_active-only"
                                if set(between) == {"on"} else "set_inactive-then-set_active" if between[-1] == "on" else "set_active-then-set_inactive")
                        T.add("repeat-same-index-after:" + what)
                        if unt != last[2]:
                            T.add("repeat-same-index-after:untrack/retrack")
                    last = cur + (tuple(sc.get("untracked", [])),)
        return T

    def sample_view(self, case, obs):
        if case.get("kind") == "rows":
            return {"case": case, "observed": obs}
        v = {"states": case["states"], "n": case["n"], "n_trans": len(case["trans"]), "trans_head": case["trans"][:2]}
        if not obs["error"] and obs["steps"] and obs["steps"][0]:
            sc, rec = case["steps"][0][0], obs["steps"][0][0]
            v["scene"] = {"trig": sc["trig"], "assign": sc["assign"], "calls": sc["calls"][:3],
                          "draws_state0": rec["draws"][0][:3],
                          "observed": [{"out": c["out"], "after": c["after"], "log": c["log"]} for c in rec["calls"][:3]]}
        else:
            v["error"] = obs["error"]
        return v


PROP = C17()
